"""Exact translation of the arithmetic fragment of a mixed bit-vector / integer query into pure (non-linear) integer
arithmetic, for kernels that compute with u128 machine integers *and* num::BigInt in the same expression.

Every bit-vector term becomes the integer it denotes (unsigned); wrap-around is kept with `mod 2^w`, so the translation
is equivalent for everything it handles, with two deliberate over-approximations that can only lose `unsat`s, never
create them:
  * `div` / `bvudiv` / the exact-division function symbols with a divisor that is not known to be positive get an
    unconstrained quotient,
  * anything outside the fragment raises NotInFragment (the caller falls back to the ordinary solvers).
Quotients are fresh variables with the division lemma  q*d <= n < (q+1)*d  (the "fresh q, r" encoding): solvers decide
these instantly where the `div` operator and bit-blasted 128-bit dividers time out.

A `sat` answer of the translated query is turned back into values for the original variables and re-validated against the
original constraints before it is used.
"""
import os
import z3


class NotInFragment(Exception):
    pass


_K = z3


class Intifier:
    def __init__(self):
        self.cache = {}
        self.facts = []
        self.defs = []      # (fresh variable, fact that defines it): only needed when the variable is
        self.vars = {}      # original const (by name) -> (orig term, int var)
        self.n = 0
        self.ufs = {}

    def fresh(self, base):
        self.n += 1
        return z3.Int('%s!%d' % (base, self.n))

    # ---- helpers
    def quotient(self, n, d, floor=True):
        q = self.fresh('q')
        self.defs.append((q, z3.Implies(z3.And(d > 0, n >= 0), z3.And(q * d <= n, n < (q + 1) * d, q >= 0))))
        if floor:
            # floor division with a positive divisor and a negative dividend
            self.defs.append((q, z3.Implies(z3.And(d > 0, n < 0), z3.And(q * d <= n, n < (q + 1) * d))))
        return q

    def tr(self, t):
        key = t.get_id()
        if key in self.cache:
            return self.cache[key]
        r = self._tr(t)
        self.cache[key] = r
        return r

    def _tr(self, t):
        if z3.is_quantifier(t) or not z3.is_app(t):
            raise NotInFragment('quantifier / non-application')
        k = t.decl().kind()
        srt = t.sort()
        ch = t.children()
        # ---- leaves
        if z3.is_bv_value(t):
            return z3.IntVal(t.as_long())
        if z3.is_int_value(t):
            return t
        if z3.is_true(t) or z3.is_false(t):
            return t
        if k == z3.Z3_OP_UNINTERPRETED and not ch:
            if z3.is_bool(t) or z3.is_int(t):
                return t
            if z3.is_bv(t):
                name = t.decl().name()
                if name not in self.vars:
                    v = z3.Int(name + '!int')
                    self.vars[name] = (t, v)
                    self.facts.append(z3.And(v >= 0, v < (1 << t.size())))
                return self.vars[name][1]
            raise NotInFragment('constant of sort %s' % srt)
        if ch and z3.is_bv(t) and all(z3.is_bv_value(c) or (z3.is_app(c) and not c.decl().kind() == z3.Z3_OP_UNINTERPRETED
                                                          and z3.is_bv_value(z3.simplify(c))) for c in ch):
            folded = z3.simplify(t)  # constant sub-expression (shift-amount masks and the like)
            if z3.is_bv_value(folded):
                return z3.IntVal(folded.as_long())
        a = [self.tr(c) for c in ch] if k not in (z3.Z3_OP_UNINTERPRETED,) else None
        # ---- booleans
        if k == z3.Z3_OP_AND:
            return z3.And(a)
        if k == z3.Z3_OP_OR:
            return z3.Or(a)
        if k == z3.Z3_OP_NOT:
            return z3.Not(a[0])
        if k == z3.Z3_OP_IMPLIES:
            return z3.Implies(a[0], a[1])
        if k == z3.Z3_OP_XOR:
            return z3.Xor(a[0], a[1])
        if k == z3.Z3_OP_ITE:
            return z3.If(a[0], a[1], a[2])
        if k == z3.Z3_OP_EQ:
            return a[0] == a[1]
        if k == z3.Z3_OP_DISTINCT:
            return z3.Distinct(a)
        # ---- integer arithmetic
        if k == z3.Z3_OP_ADD:
            return a[0] if len(a) == 1 else z3.Sum(a)
        if k == z3.Z3_OP_SUB:
            r = a[0]
            for x in a[1:]:
                r = r - x
            return r
        if k == z3.Z3_OP_UMINUS:
            return -a[0]
        if k == z3.Z3_OP_MUL:
            r = a[0]
            for x in a[1:]:
                r = r * x
            return r
        if k in (z3.Z3_OP_LE, z3.Z3_OP_LT, z3.Z3_OP_GE, z3.Z3_OP_GT):
            return {z3.Z3_OP_LE: a[0] <= a[1], z3.Z3_OP_LT: a[0] < a[1], z3.Z3_OP_GE: a[0] >= a[1], z3.Z3_OP_GT: a[0] > a[1]}[k]
        if k == z3.Z3_OP_IDIV:
            if z3.is_int_value(a[1]) and a[1].as_long() > 0:
                return a[0] / a[1]
            return self.quotient(a[0], a[1])
        if k == z3.Z3_OP_MOD:
            if z3.is_int_value(a[1]) and a[1].as_long() > 0:
                return a[0] % a[1]
            q = self.quotient(a[0], a[1])
            return a[0] - q * a[1]
        # ---- conversions
        if k == z3.Z3_OP_BV2INT:
            return a[0]
        if k == z3.Z3_OP_INT2BV:
            return a[0] % (1 << srt.size())
        # ---- bit-vector arithmetic (unsigned value, wrap-around explicit)
        if k != z3.Z3_OP_UNINTERPRETED and (z3.is_bv(t) or (ch and z3.is_bv(ch[0]))):
            w = srt.size() if z3.is_bv(t) else ch[0].size()
            M = 1 << w
            if k == z3.Z3_OP_BADD:
                return (a[0] if len(a) == 1 else z3.Sum(a)) % M
            if k == z3.Z3_OP_BSUB:
                r = a[0]
                for x in a[1:]:
                    r = r - x
                return r % M
            if k == z3.Z3_OP_BMUL:
                r = a[0]
                for x in a[1:]:
                    r = r * x
                return r % M
            if k == z3.Z3_OP_BNEG:
                return (-a[0]) % M
            if k in (z3.Z3_OP_ULEQ, z3.Z3_OP_ULT, z3.Z3_OP_UGEQ, z3.Z3_OP_UGT):
                return {z3.Z3_OP_ULEQ: a[0] <= a[1], z3.Z3_OP_ULT: a[0] < a[1], z3.Z3_OP_UGEQ: a[0] >= a[1],
                        z3.Z3_OP_UGT: a[0] > a[1]}[k]
            if k in (z3.Z3_OP_BUDIV, z3.Z3_OP_BUDIV_I):
                q = self.fresh('q')
                self.defs.append((q, z3.Implies(a[1] > 0, z3.And(q * a[1] <= a[0], a[0] < (q + 1) * a[1], q >= 0))))
                self.defs.append((q, z3.Implies(a[1] == 0, q == M - 1)))
                return q
            if k in (z3.Z3_OP_BUREM, z3.Z3_OP_BUREM_I):
                q = self.fresh('q')
                self.defs.append((q, z3.Implies(a[1] > 0, z3.And(q * a[1] <= a[0], a[0] < (q + 1) * a[1], q >= 0))))
                return z3.If(a[1] == 0, a[0], a[0] - q * a[1])
            if k == z3.Z3_OP_ZERO_EXT:
                return a[0]
            if k == z3.Z3_OP_EXTRACT:
                hi, lo = t.params()
                x = a[0]
                if lo:
                    x = x / (1 << lo)
                return x % (1 << (hi - lo + 1))
            if k == z3.Z3_OP_CONCAT:
                r = a[0]
                for c, x in zip(ch[1:], a[1:]):
                    r = r * (1 << c.size()) + x
                return r
            if k == z3.Z3_OP_BSHL and z3.is_bv_value(ch[1]):
                return (a[0] * (1 << ch[1].as_long())) % M
            if k == z3.Z3_OP_BLSHR and z3.is_bv_value(ch[1]):
                return a[0] / (1 << ch[1].as_long())
            if k == z3.Z3_OP_BAND and len(ch) == 2 and any(z3.is_bv_value(c) for c in ch):
                ci = 0 if z3.is_bv_value(ch[0]) else 1
                mask = ch[ci].as_long()
                if mask & (mask + 1) == 0:  # a low mask 2^k - 1 (shift-amount masking): x mod 2^k
                    return a[1 - ci] % (mask + 1)
            if k == z3.Z3_OP_BLSHR and z3.is_bv_value(ch[0]):
                # constant >> symbolic amount: a finite case distinction over the amounts that leave a non-zero result
                c = ch[0].as_long()
                r = z3.IntVal(0)
                for sh in reversed(range(c.bit_length())):
                    r = z3.If(a[1] == sh, z3.IntVal(c >> sh), r)
                return r
            if k == z3.Z3_OP_BSHL and z3.is_bv_value(ch[0]):
                c = ch[0].as_long()
                r = z3.IntVal(0)
                for sh in reversed(range(w)):
                    r = z3.If(a[1] == sh, z3.IntVal((c << sh) % M), r)
                return r
            if k == z3.Z3_OP_BLSHR:
                r = z3.IntVal(0)  # shift amounts >= w give 0
                for sh in reversed(range(w)):
                    r = z3.If(a[1] == sh, a[0] / (1 << sh), r)
                return r
            if k == z3.Z3_OP_BSHL:
                r = z3.IntVal(0)
                for sh in reversed(range(w)):
                    r = z3.If(a[1] == sh, (a[0] * (1 << sh)) % M, r)
                return r
            if k == z3.Z3_OP_BUMUL_NO_OVFL:
                return a[0] * a[1] < M
            raise NotInFragment('bit-vector operator %s' % t.decl().name())
        # ---- the exact big-integer function symbols of bigmodels
        if k == z3.Z3_OP_UNINTERPRETED:
            name = t.decl().name()
            a = [self.tr(c) for c in ch]
            if name == 'int_mul':
                return a[0] * a[1]
            if name in ('int_div_floor', 'int_div_trunc'):
                return self.quotient(a[0], a[1], floor=(name == 'int_div_floor'))
            if name in ('reduced_numer', 'reduced_denom'):
                key = ('red', ch[0].get_id(), ch[1].get_id())
                if key not in self.ufs:
                    rn, rd = self.fresh('rn'), self.fresh('rd')
                    self.defs.append((rn, z3.And(rn >= 0, rd >= 1, rn <= a[0], z3.Implies(a[1] >= 1, z3.And(rd <= a[1], rn * a[1] == a[0] * rd)))))
                    self.defs.append((rd, z3.And(rn >= 0, rd >= 1, rn <= a[0], z3.Implies(a[1] >= 1, z3.And(rd <= a[1], rn * a[1] == a[0] * rd)))))
                    self.ufs[key] = (rn, rd)
                return self.ufs[key][0 if name == 'reduced_numer' else 1]
            # any other function symbol: the same function over the translated arguments
            sig = (name, tuple(x.sort().sexpr() for x in a), 'Int' if z3.is_bv(t) else srt.sexpr())
            f = self.ufs.get(sig)
            if f is None:
                rng = z3.IntSort() if z3.is_bv(t) else srt
                f = self.ufs[sig] = z3.Function(name + '!int', *([x.sort() for x in a] + [rng]))
            r = f(*a)
            if z3.is_bv(t):
                self.facts.append(z3.And(r >= 0, r < (1 << srt.size())))
            return r
        raise NotInFragment('operator %s' % t.decl().name())


def _vars(t, acc=None, seen=None):
    acc = acc if acc is not None else set()
    seen = seen if seen is not None else set()
    stack = [t]
    while stack:
        x = stack.pop()
        if x.get_id() in seen:
            continue
        seen.add(x.get_id())
        if z3.is_app(x):
            if x.num_args() == 0:
                if x.decl().kind() == z3.Z3_OP_UNINTERPRETED:
                    acc.add(x.decl().name())
            else:
                stack.extend(x.children())
    return acc


def translate(constraints, goal=()):
    """returns (list of pure-integer constraints, Intifier) or raises NotInFragment.
    With a `goal` (the negated claim), the result is sliced: a definition of a fresh quotient is kept only if the quotient is
    needed, and other constraints only if all their variables are needed (dropping assumptions can only lose `unsat`s)."""
    itf = Intifier()
    body = [itf.tr(c) for c in constraints]
    g = [itf.tr(c) for c in goal]
    if not goal:
        return body + itf.facts + [f for _, f in itf.defs], itf
    needed = set()
    for c in g:
        _vars(c, needed)
    fresh_names = set(v.decl().name() for v, _ in itf.defs)
    changed = True
    used = set()
    while changed:
        changed = False
        for i, (v, f) in enumerate(itf.defs):
            if i not in used and v.decl().name() in needed:
                used.add(i)
                before = len(needed)
                _vars(f, needed)
                changed = changed or len(needed) != before or True
    keep = []
    for c in body + itf.facts:
        vs = _vars(c)
        if vs <= needed or not (vs & (fresh_names - needed)):
            # constraints over needed variables, and constraints that mention no unneeded fresh quotient
            keep.append(c)
    keep += [f for i, (v, f) in enumerate(itf.defs) if i in used]
    return keep + g, itf


def _model_values(s, itf):
    m = s.model()
    vals = {}
    for name, (orig, v) in itf.vars.items():
        vals[name] = (orig, m.eval(v, model_completion=True).as_long())
    return vals


def solve(constraints, timeout_ms=10000, goal=(), small_first=False, quick=False, hint_vars=None):
    """('unsat', None) | ('sat', {name: int value of each original bit-vector constant}) | ('unknown', reason).
    Non-linear integer solving is sensitive to the shape of the query: the whole query is tried first and, when a goal is
    given, the goal-directed slice second."""
    try:
        full, itf = translate(list(constraints) + list(goal))
    except NotInFragment as e:
        return 'unknown', 'not in the integer fragment: %s' % e, None
    attempts = [(full, itf, True)]
    candidate = None
    if goal:
        sliced, itf_s = translate(constraints, goal)
        attempts.append((sliced, itf_s, False))
    why = ''
    for cs, itf_k, is_full in attempts:
        if os.environ.get('VERIF_DUMP_INT'):
            _s = z3.Solver()
            _s.add(cs)
            with open(os.path.join(os.environ['VERIF_DUMP_INT'], 'q_%d_%s.smt2' % (len(cs), 'full' if is_full else 'sliced')), 'w') as _f:
                _f.write('(set-logic ALL)\n' + _s.to_smt2())
        s, r = _check_with_restarts(cs, int(timeout_ms if quick else timeout_ms // (len(attempts) + 1)))
        if r == z3.unsat:
            return 'unsat', None, itf_k
        if r == z3.sat and is_full:
            return 'sat', _model_values(s, itf_k), itf_k
        if r == z3.sat and not is_full:
            # a model of the slice (assumptions dropped) is only a candidate: the caller may try it against the real code
            candidate = _model_values(s, itf_k)
        why = s.reason_unknown() if r == z3.unknown else 'the sliced query is satisfiable, the full one undecided'
        if r == z3.unknown and not quick:
            # a second opinion on the same pure-integer query (only an `unsat` is used)
            r2 = _cvc5_unsat(s, timeout_ms / 1000.0 / (len(attempts) + 1))
            if r2:
                return 'unsat', None, itf_k
    if small_first:
        # when a model is what is wanted (vacuity guards, known-finding regions): look among small values; a model of the
        # query with extra bounds is a model of the query
        for bound in (16, 1 << 10, 1 << 20, 1 << 40):
            s0 = z3.Solver()
            s0.set('timeout', int(min(timeout_ms, 8000)))
            s0.add(full)
            for name, (orig, v) in itf.vars.items():
                if orig.size() >= 64:
                    s0.add(v <= bound)
            if s0.check() == z3.sat:
                return 'sat', _model_values(s0, itf), itf
    if small_first:
        # corner search: every wide variable at one of two extremes (a witness of an overflow usually sits there)
        import itertools
        wide = [(name, orig, v) for name, (orig, v) in itf.vars.items() if orig.size() >= 64 and (hint_vars is None or name in hint_vars)]
        if 0 < len(wide) <= 8:
            for hi in (1 << 126, 1 << 120):
                for combo in itertools.product((0, 1), repeat=len(wide)):
                    s0 = z3.Solver()
                    s0.set('timeout', 2000)
                    s0.add(full)
                    for (name, orig, v), bit in zip(wide, combo):
                        top = hi if orig.size() >= 128 else 1_000_000
                        s0.add(v == (top if bit else 1))
                    if s0.check() == z3.sat:
                        return 'sat', _model_values(s0, itf), itf
    if candidate is not None:
        return 'candidate', candidate, itf
    return 'unknown', why, itf


def _check_with_restarts(cs, budget_ms):
    """non-linear integer queries are decided in a second or not at all, depending on the search order z3 happens to take:
    short runs under different seeds first, the remaining budget for a last long one (any definite answer is final)"""
    import time
    t_end = time.time() + budget_ms / 1000.0
    slices = [budget_ms // 8, budget_ms // 8, budget_ms // 4]
    s, r = None, z3.unknown
    for k, ms in enumerate(slices + [None]):
        left = int((t_end - time.time()) * 1000)
        if left <= 200 and s is not None:
            break
        s = z3.Solver()
        s.set('timeout', max(200, min(ms, left) if ms is not None else left))
        s.set('random_seed', k)
        s.add(cs)
        r = s.check()
        if r != z3.unknown:
            break
    return s, r


def _cvc5_unsat(solver, budget_s):
    import os
    import subprocess
    import tempfile
    txt = '(set-logic ALL)\n' + solver.to_smt2()
    fd, path = tempfile.mkstemp(suffix='.smt2', dir=os.environ.get('VERIF_SMT_DIR') or None)
    try:
        with os.fdopen(fd, 'w') as f:
            f.write(txt)
        for extra in (['--nl-ext-tplanes'], []):
            try:
                r = subprocess.run(['cvc5', '--lang', 'smt2', '--tlimit=%d' % int(budget_s * 500)] + extra + [path],
                                   capture_output=True, text=True, timeout=budget_s)
            except subprocess.TimeoutExpired:
                continue
            out = (r.stdout or '').strip()
            if out.split('\n')[0].strip() == 'unsat' and '(error' not in out:
                return True
        return False
    finally:
        try:
            os.remove(path)
        except OSError:
            pass

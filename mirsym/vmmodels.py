"""Models used by the MelVM kernels (C10-C12): a byte cursor implementing io::Read over a symbolic buffer,
Vec<u8> as io::Write, ethnum::U256 as a 256-bit bit-vector, slice helpers."""
import re
import z3

from .interp import (Agg, EnumV, Ptr, Opaque, UNIT, UNINIT, Ret, Panic, Unsupported, bv, simp, mk_some, mk_none,
                     mk_option, mk_ok, mk_err, mk_enum, val_eq, ite_val, to_bool, is_variant, fresh, int_cast)
from .summaries import summary, deref, _panic_fork
from .collections import seq_of


class CursorM:
    """remaining input = bytes[pos .. avail) of a buffer with symbolic contents and symbolic available length"""

    def __init__(self, data, pos, avail):
        self.data = tuple(data)
        self.pos = pos
        self.avail = avail  # z3 BV64, <= len(data)

    def sym_ite(self, c, other):
        raise Unsupported('ite of cursors')


def cursor(data, avail):
    return Opaque('Cursor', CursorM(data, 0, avail))


@summary(r'^<.* as (std::io::)?Read>::read_exact$')
def _read_exact(it, st, args, ctx):
    cptr = args[0]
    cur = it.load(st, cptr)
    while isinstance(cur, Ptr):  # &mut &[u8]
        cptr = cur
        cur = it.load(st, cptr)
    if not (isinstance(cur, Opaque) and cur.kind == 'Cursor'):
        raise Unsupported('read_exact on %r' % (cur,))
    c = cur.data
    bptr, buf = seq_of(it, st, args[1])
    n = len(buf.fields)
    ok = z3.ULE(bv(c.pos + n, 64), c.avail) if c.pos + n <= len(c.data) else z3.BoolVal(False)
    ok = simp(ok)
    outs = []
    if not z3.is_false(ok) and it.feasible(st, ok):
        s2 = st.fork() if not z3.is_true(ok) else st
        s2.assume(ok)
        it.store(s2, bptr, Agg(buf.ty, c.data[c.pos:c.pos + n]))
        it.store(s2, cptr, Opaque('Cursor', CursorM(c.data, c.pos + n, c.avail)))
        outs.append((s2, Ret(mk_ok(UNIT))))
    if not z3.is_true(ok) and it.feasible(st, z3.Not(ok)):
        st.assume(z3.Not(ok))
        outs.append((st, Ret(mk_err(Opaque('IoError', ('UnexpectedEof',))))))
    return outs


def _cursor_cell(it, st, p):
    cur = it.load(st, p)
    while isinstance(cur, Ptr):
        p = cur
        cur = it.load(st, p)
    return p, cur


@summary(r'^<.* as (std::io::)?Read>::(take|by_ref)$')
def _read_take(it, st, args, ctx):
    """Read::take(reader, limit): a view that yields at most `limit` further bytes of the same cursor; by_ref: the reader"""
    if ctx.callee.endswith('by_ref'):
        return args[0]
    return Opaque('Take', (args[0], args[1]))


@summary(r'^<.* as (std::io::)?Read>::read_to_end$')
def _read_to_end(it, st, args, ctx):
    """appends everything the reader still yields (for a Take: at most its limit) to the vector; never fails on a cursor"""
    r = args[0]
    v = it.load(st, r) if isinstance(r, Ptr) else r
    while isinstance(v, Ptr):
        r = v
        v = it.load(st, r)
    limit = None
    if isinstance(v, Opaque) and v.kind == 'Take':
        inner, limit = v.data
        cptr, cur = _cursor_cell(it, st, inner) if isinstance(inner, Ptr) else (None, inner)
    else:
        cptr, cur = r, v
    if not (isinstance(cur, Opaque) and cur.kind == 'Cursor') or cptr is None:
        raise Unsupported('read_to_end on %r' % (cur,))
    c = cur.data
    vptr = args[1]
    vec = it.load(st, vptr)
    while isinstance(vec, Ptr):
        vptr = vec
        vec = it.load(st, vptr)
    left = c.avail - bv(c.pos, 64)  # avail >= pos on every path that got here
    want = left if limit is None else z3.If(z3.ULT(limit, left), limit, left)
    outs = []
    for n in range(0, len(c.data) - c.pos + 1):
        cond = simp(want == bv(n, 64))
        if z3.is_false(cond) or not it.feasible(st, cond):
            continue
        s2 = st.fork()
        s2.assume(cond)
        it.store(s2, vptr, Agg('Vec', list(vec.fields) + list(c.data[c.pos:c.pos + n])))
        it.store(s2, cptr, Opaque('Cursor', CursorM(c.data, c.pos + n, c.avail)))
        if limit is not None and isinstance(r, Ptr):
            it.store(s2, r, Opaque('Take', (inner, limit - bv(n, 64))))
        outs.append((s2, Ret(mk_ok(bv(n, 64)))))
    if not outs:
        raise Unsupported('read_to_end: no feasible length')
    return outs


@summary(r'^<Vec<u8> as (std::io::)?Write>::write_all$')
def _write_all(it, st, args, ctx):
    v = it.load(st, args[0])
    _, src = seq_of(it, st, args[1])
    it.store(st, args[0], Agg('Vec', v.fields + src.fields))
    return mk_ok(UNIT)


@summary(r'^(std|alloc)::vec::from_elem::<u8>$')
def _from_elem(it, st, args, ctx):
    elem, n = args
    n = simp(n)
    if z3.is_bv_value(n):
        return Agg('Vec', [elem] * n.as_long())
    # symbolic length: one path per feasible value (the callers cast a u8 length: 0..255)
    outs = []
    limit = getattr(it, 'from_elem_limit', 255)
    for k in range(0, limit + 1):
        c = n == bv(k, n.size())
        if it.feasible(st, c):
            s2 = st.fork()
            s2.assume(c)
            outs.append((s2, Ret(Agg('Vec', [elem] * k))))
    rest = z3.UGT(n, bv(limit, n.size()))
    if it.feasible(st, rest):
        if not getattr(it, 'from_elem_longer_reads_fail', False):
            raise Unsupported('from_elem with a length beyond the stated bound %d' % limit)
        # the harness' buffer is shorter than any such length: the read_exact that follows fails whatever the length
        s2 = st.fork()
        s2.assume(rest)
        outs.append((s2, Ret(Agg('Vec', [elem] * (limit + 1)))))
    return outs


@summary(r'^core::slice::<impl \[.*\]>::reverse$')
def _slice_reverse(it, st, args, ctx):
    ptr, s = seq_of(it, st, args[0])
    it.store(st, ptr, Agg(s.ty, tuple(reversed(s.fields))))
    return UNIT


@summary(r'^<(\[.*\]|Vec<.*>) as (std::ops::)?Index(Mut)?<(std::ops::)?Range(To|From|Full)?<usize>>>::index(_mut)?$|^<(\[.*\]|Vec<.*>) as (std::ops::)?Index(Mut)?<(std::ops::)?Range(To|From|Full)?(Inclusive)?<usize>>>::index(_mut)?$')
def _index_range(it, st, args, ctx):
    ptr, s = seq_of(it, st, args[0])
    r = args[1]
    n = len(s.fields)
    m = re.search(r'<(?:std::ops::)?(Range\w*)<usize>>', ctx.callee)
    kind = m.group(1)
    if ptr is None:
        ptr = Ptr(st.alloc(s))

    def alternatives(t):
        """[(condition, concrete value)] for a bound that may be symbolic (it can only be 0..n without panicking)"""
        t = simp(t)
        if z3.is_bv_value(t):
            return [(z3.BoolVal(True), t.as_long())]
        alts = [(t == bv(k, t.size()), k) for k in range(0, n + 1)]
        alts.append((z3.UGT(t, bv(n, t.size())), n + 1))
        return alts
    if kind == 'RangeTo':
        la, lb = [(z3.BoolVal(True), 0)], alternatives(r.fields[0])
    elif kind == 'RangeFrom':
        la, lb = alternatives(r.fields[0]), [(z3.BoolVal(True), n)]
    elif kind == 'Range':
        la, lb = alternatives(r.fields[0]), alternatives(r.fields[1])
    elif kind == 'RangeFull':
        la, lb = [(z3.BoolVal(True), 0)], [(z3.BoolVal(True), n)]
    else:
        raise Unsupported('range kind ' + kind)
    outs = []
    for ca, a in la:
        for cb, b in lb:
            c = simp(z3.And(ca, cb))
            if z3.is_false(c) or not it.feasible(st, c):
                continue
            s2 = st if (z3.is_true(c)) else st.fork()
            s2.assume(c)
            if a > b or b > n:
                outs.append((s2, Panic('range out of bounds (%d..%d of %d)' % (a, b, n), ctx.fn.name)))
            else:
                outs.append((s2, Ret(Ptr(ptr.cell, ptr.path + (('sub', a, n - b, True),)))))
    return outs


def _bound_alternatives(t, n):
    t = simp(t)
    if z3.is_bv_value(t):
        return [(z3.BoolVal(True), t.as_long())]
    alts = [(t == bv(k, t.size()), k) for k in range(0, n + 1)]
    alts.append((z3.UGT(t, bv(n, t.size())), n + 1))
    return alts


@summary(r'^core::slice::<impl \[.*\]>::split_at(_mut|_checked)?$|^Vec::<.*>::split_at(_mut)?$')
def _split_at(it, st, args, ctx):
    ptr, s = seq_of(it, st, args[0])
    n = len(s.fields)
    if ptr is None:
        ptr = Ptr(st.alloc(s))
    checked = ctx.callee.endswith('_checked')
    outs = []
    for c, mid in _bound_alternatives(args[1], n):
        c = simp(c)
        if z3.is_false(c) or not it.feasible(st, c):
            continue
        s2 = st if z3.is_true(c) else st.fork()
        s2.assume(c)
        if mid > n:
            outs.append((s2, Ret(mk_none()) if checked else Panic('mid > len', ctx.fn.name)))
        else:
            pair = Agg('tuple', [Ptr(ptr.cell, ptr.path + (('sub', 0, n - mid, True),)), Ptr(ptr.cell, ptr.path + (('sub', mid, 0, True),))])
            outs.append((s2, Ret(mk_some(pair) if checked else pair)))
    return outs


@summary(r'^core::slice::<impl \[.*\]>::split_last$')
def _split_last(it, st, args, ctx):
    ptr, s = seq_of(it, st, args[0])
    n = len(s.fields)
    if not n:
        return mk_none()
    if ptr is None:
        ptr = Ptr(st.alloc(s))
    return mk_some(Agg('tuple', [Ptr(ptr.cell, ptr.path + (('i', n - 1),)), Ptr(ptr.cell, ptr.path + (('sub', 0, 1, True),))]))


@summary(r'^core::slice::<impl \[.*\]>::get::<(std::ops::)?Range(To|From)?<usize>>$')
def _slice_get_range(it, st, args, ctx):
    ptr, s = seq_of(it, st, args[0])
    r = args[1]
    n = len(s.fields)
    if ptr is None:
        ptr = Ptr(st.alloc(s))
    kind = re.search(r'<(?:std::ops::)?(Range\w*)<usize>>', ctx.callee).group(1)
    if kind == 'RangeTo':
        la, lb = [(z3.BoolVal(True), 0)], _bound_alternatives(r.fields[0], n)
    elif kind == 'RangeFrom':
        la, lb = _bound_alternatives(r.fields[0], n), [(z3.BoolVal(True), n)]
    else:
        la, lb = _bound_alternatives(r.fields[0], n), _bound_alternatives(r.fields[1], n)
    outs = []
    for ca, a in la:
        for cb, b in lb:
            c = simp(z3.And(ca, cb))
            if z3.is_false(c) or not it.feasible(st, c):
                continue
            s2 = st if z3.is_true(c) else st.fork()
            s2.assume(c)
            if a > b or b > n:
                outs.append((s2, Ret(mk_none())))
            else:
                outs.append((s2, Ret(mk_some(Ptr(ptr.cell, ptr.path + (('sub', a, n - b, True),))))))
    return outs


# ---- ethnum::U256 = BV256 ------------------------------------------------------------------------------------

def _u256(rx):
    return r'^(ethnum::uint::\w+::)?<impl (ethnum::)?U256>::' + rx + r'$|^(ethnum::)?U256::' + rx + r'$'


@summary(_u256(r'from_(be|le)_bytes'))
def _u256_from_bytes(it, st, args, ctx):
    _, arr = seq_of(it, st, args[0]) if not isinstance(args[0], Agg) else (None, args[0])
    bs = list(arr.fields)
    if len(bs) != 32:
        raise Unsupported('U256::from_bytes of %d bytes' % len(bs))
    if 'from_le_bytes' in ctx.callee:
        bs.reverse()
    return simp(z3.Concat(*bs))


@summary(_u256(r'to_(be|le)_bytes'))
def _u256_to_bytes(it, st, args, ctx):
    a = deref(it, st, args[0]) if isinstance(args[0], Ptr) else args[0]
    bs = [simp(z3.Extract(8 * i + 7, 8 * i, a)) for i in range(32)]  # little endian
    if 'to_be_bytes' in ctx.callee:
        bs.reverse()
    return Agg('array', bs)


@summary(_u256(r'leading_zeros'))
def _u256_lz(it, st, args, ctx):
    a = deref(it, st, args[0]) if isinstance(args[0], Ptr) else args[0]
    r = bv(256, 32)
    for i in range(256):
        r = z3.If(z3.Extract(i, i, a) == 1, bv(255 - i, 32), r)
    return r


# ---- more of ethnum::U256 (BV256) ---------------------------------------------------------------------------

@summary(_u256(r'overflowing_(add|sub|mul)'))
def _u256_overflowing(it, st, args, ctx):
    a, b = args
    if 'add' in ctx.callee:
        r, o = a + b, z3.Not(z3.BVAddNoOverflow(a, b, False))
    elif 'sub' in ctx.callee:
        r, o = a - b, z3.ULT(a, b)
    else:
        r, o = a * b, z3.Not(z3.BVMulNoOverflow(a, b, False))
    return Agg('tuple', [r, o])


@summary(_u256(r'checked_(div|rem)'))
def _u256_checked_div(it, st, args, ctx):
    a, b = args
    r = z3.UDiv(a, b) if 'div' in ctx.callee else z3.URem(a, b)
    return mk_option(b != 0, r)


@summary(_u256(r'wrapping_sh(l|r)'))
def _u256_wrapping_shift(it, st, args, ctx):
    a, s = args
    amt = z3.ZeroExt(256 - 32, s) & bv(255, 256)
    return (a << amt) if ctx.callee.endswith('shl') else z3.LShR(a, amt)


@summary(r'^(ethnum::)?U256::as_u32$|' + _u256(r'as_u32'))
def _u256_as_u32(it, st, args, ctx):
    a = deref(it, st, args[0]) if isinstance(args[0], Ptr) else args[0]
    return z3.Extract(31, 0, a)


@summary(r'^(ethnum::)?U256::low$|' + _u256(r'low'))
def _u256_low(it, st, args, ctx):
    a = deref(it, st, args[0]) if isinstance(args[0], Ptr) else args[0]
    return Ptr(st.alloc(z3.Extract(127, 0, a)))


@summary(r'^<(ethnum::)?U256 as (std::ops::)?(BitAnd|BitOr|BitXor)>::(bitand|bitor|bitxor)$')
def _u256_bitop(it, st, args, ctx):
    a, b = args
    if ctx.callee.endswith('bitand'):
        return a & b
    if ctx.callee.endswith('bitor'):
        return a | b
    return a ^ b


@summary(r'^<(ethnum::)?U256 as (std::ops::)?Not>::not$')
def _u256_not(it, st, args, ctx):
    return ~args[0]


@summary(r'^<(ethnum::)?U256 as (std::ops::)?ShrAssign<\w+>>::shr_assign$')
def _u256_shr_assign(it, st, args, ctx):
    a = it.load(st, args[0])
    s = args[1]
    amt = int_cast(s, False, 256) if s.size() < 256 else s
    it.store(st, args[0], z3.LShR(a, amt))
    return UNIT


@summary(r'^<(ethnum::)?U256 as (PartialOrd|PartialEq|Ord)>::(gt|lt|ge|le|eq|ne)$')
def _u256_cmp(it, st, args, ctx):
    a, b = deref(it, st, args[0]), deref(it, st, args[1])
    op = ctx.callee.rsplit('::', 1)[1]
    return {'gt': z3.UGT(a, b), 'lt': z3.ULT(a, b), 'ge': z3.UGE(a, b), 'le': z3.ULE(a, b), 'eq': a == b, 'ne': a != b}[op]


@summary(r'^<(ethnum::)?U256 as From<(u8|u16|u32|u64|u128|usize)>>::from$|^<(u8|u16|u32|u64|u128|usize) as Into<(ethnum::)?U256>>::into$')
def _u256_from(it, st, args, ctx):
    return z3.ZeroExt(256 - args[0].size(), args[0])


@summary(r'^<(std::option::)?Option<(ethnum::)?U256> as PartialEq>::(eq|ne)$')
def _opt_u256_eq(it, st, args, ctx):
    a, b = deref(it, st, args[0]), deref(it, st, args[1])
    e = val_eq(a, b)
    return simp(e if ctx.callee.endswith('eq') else z3.Not(e))


# ---- catvec::CatVec<T, N>: a sequence of concrete (harness-bounded) length ------------------------------------

def _cv(it, st, v):
    while isinstance(v, Ptr):
        v = it.load(st, v)
    if isinstance(v, Agg):
        return v
    raise Unsupported('expected a CatVec, got %r' % (v,))


@summary(r'^(catvec::)?CatVec::<.*>::len$')
def _cv_len(it, st, args, ctx):
    return bv(len(_cv(it, st, args[0]).fields), 64)


@summary(r'^<(catvec::)?CatVec<.*> as Default>::default$')
def _cv_default(it, st, args, ctx):
    return Agg('CatVec', [])


@summary(r'^<(catvec::)?CatVec<.*> as From<.*>>::from$|^<.* as Into<(catvec::)?CatVec<.*>>>::into$')
def _cv_from(it, st, args, ctx):
    src = args[0]
    while isinstance(src, Ptr):
        src = it.load(st, src)
    if isinstance(src, Agg):
        return Agg('CatVec', src.fields)
    if isinstance(src, z3.ExprRef) and z3.is_bv(src) and src.size() == 256:
        return Agg('CatVec', [simp(z3.Extract(255 - 8 * i, 248 - 8 * i, src)) for i in range(32)])
    raise Unsupported('CatVec from %r' % (src,))


@summary(r'^<(catvec::)?CatVec<.*> as Into<Vec<.*>>>::into$|^<Vec<.*> as From<(catvec::)?CatVec<.*>>>::from$')
def _cv_into_vec(it, st, args, ctx):
    return Agg('Vec', _cv(it, st, args[0]).fields)


def _fork_index(it, st, idx, n):
    """[(state, k)] for k in 0..n-1 plus (state, None) for out of range"""
    idx = simp(idx)
    if z3.is_bv_value(idx):
        v = idx.as_long()
        return [(st, v if v < n else None)]
    outs = []
    for k in range(n):
        c = idx == bv(k, idx.size())
        if it.feasible(st, c):
            s2 = st.fork()
            s2.assume(c)
            outs.append((s2, k))
    c = z3.UGE(idx, bv(n, idx.size()))
    if it.feasible(st, c):
        st.assume(c)
        outs.append((st, None))
    return outs


@summary(r'^(catvec::)?CatVec::<.*>::(get|get_mut)$')
def _cv_get(it, st, args, ctx):
    p = args[0]
    while isinstance(p, Ptr) and isinstance(it.load(st, p), Ptr):
        p = it.load(st, p)
    v = _cv(it, st, p)
    outs = []
    for s2, k in _fork_index(it, st, args[1], len(v.fields)):
        if k is None:
            outs.append((s2, Ret(mk_none())))
        else:
            ptr = p if isinstance(p, Ptr) else Ptr(s2.alloc(v))
            outs.append((s2, Ret(mk_some(Ptr(ptr.cell, ptr.path + (('i', k),))))))
    return outs


@summary(r'^(catvec::)?CatVec::<.*>::push_back$')
def _cv_push_back(it, st, args, ctx):
    v = _cv(it, st, args[0])
    it.store(st, args[0], Agg('CatVec', v.fields + (args[1],)))
    return UNIT


@summary(r'^(catvec::)?CatVec::<.*>::insert$')
def _cv_insert(it, st, args, ctx):
    v = _cv(it, st, args[0])
    i = simp(args[1])
    if not z3.is_bv_value(i):
        raise Unsupported('CatVec::insert at a symbolic index')
    k = i.as_long()
    if k > len(v.fields):
        return Panic('CatVec::insert out of bounds', ctx.fn.name)
    it.store(st, args[0], Agg('CatVec', v.fields[:k] + (args[2],) + v.fields[k:]))
    return UNIT


@summary(r'^(catvec::)?CatVec::<.*>::append$')
def _cv_append(it, st, args, ctx):
    v = _cv(it, st, args[0])
    o = _cv(it, st, args[1])
    it.store(st, args[0], Agg('CatVec', v.fields + o.fields))
    return UNIT


@summary(r'^(catvec::)?CatVec::<.*>::slice_into::<')
def _cv_slice_into(it, st, args, ctx):
    v = _cv(it, st, args[0])
    r = args[1]
    n = len(v.fields)
    outs = []
    for s2, a in _fork_index(it, st, r.fields[0], n + 1):
        for s3, b in _fork_index(it, s2, r.fields[1], n + 1):
            if a is None or b is None or a > b:
                outs.append((s3, Panic('CatVec::slice_into out of range', ctx.fn.name)))
            else:
                it.store(s3, args[0], Agg('CatVec', v.fields[a:b]))
                outs.append((s3, Ret(UNIT)))
    return outs


@summary(r'^<(catvec::)?CatVec<.*> as Clone>::clone$')
def _cv_clone(it, st, args, ctx):
    return _cv(it, st, args[0])


@summary(r'^Vec::<.*>::pop$')
def _vec_pop(it, st, args, ctx):
    v = it.load(st, args[0])
    if not v.fields:
        return mk_none()
    it.store(st, args[0], Agg(v.ty, v.fields[:-1]))
    return mk_some(v.fields[-1])


@summary(r'^<Vec<u8> as TryInto<\[u8; 32\]>>::try_into$|^<\[u8; 32\] as TryFrom<Vec<u8>>>::try_from$')
def _vec_try_into_32(it, st, args, ctx):
    v = args[0]
    while isinstance(v, Ptr):
        v = it.load(st, v)
    if len(v.fields) == 32:
        return mk_ok(Agg('array', v.fields))
    return mk_err(v)


@summary(r'^(tmelcrypt::)?Ed25519PK::from_bytes$')
def _pk_from_bytes(it, st, args, ctx):
    _, s = seq_of(it, st, args[0])
    if len(s.fields) != 32:
        return mk_none()
    return mk_some(Agg('Ed25519PK', [simp(z3.Concat(*s.fields))]))


@summary(r'^<.* as (tap::)?Tap>::tap_mut::<')
def _tap_mut(it, st, args, ctx):
    cell = st.alloc(args[0])
    outs = []
    for s2, r in it.call_closure(st, args[1], [Ptr(cell)], ctx):
        if isinstance(r, Panic):
            outs.append((s2, r))
        else:
            outs.append((s2, Ret(s2.heap[cell])))
    return outs


@summary(r'^<(ethnum::)?U256 as (PartialOrd|Ord)>::(partial_cmp|cmp)$')
def _u256_partial_cmp(it, st, args, ctx):
    a, b = deref(it, st, args[0]), deref(it, st, args[1])
    d = z3.If(z3.ULT(a, b), bv(-1, 8), z3.If(a == b, bv(0, 8), bv(1, 8)))
    o = EnumV('Ordering', d, {'Less': (), 'Equal': (), 'Greater': ()})
    return mk_some(o) if ctx.callee.endswith('partial_cmp') else o

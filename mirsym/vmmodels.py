"""Models used by the MelVM kernels (C10-C12): a byte cursor implementing io::Read over a symbolic buffer,
Vec<u8> as io::Write, ethnum::U256 as a 256-bit bit-vector, slice helpers."""
import re
import z3

from .interp import (Agg, EnumV, Ptr, Opaque, UNIT, UNINIT, Ret, Panic, Unsupported, bv, simp, mk_some, mk_none,
                     mk_option, mk_ok, mk_err, mk_enum, val_eq, ite_val, to_bool, is_variant, fresh, int_cast)
from .summaries import summary, deref, _panic_fork
from .collections import seq_of


class CursorM:
    """remaining input = bytes[pos .. avail) of a buffer with symbolic contents and symbolic available length"""

    def __init__(self, data, pos, avail):
        self.data = tuple(data)
        self.pos = pos
        self.avail = avail  # z3 BV64, <= len(data)

    def sym_ite(self, c, other):
        raise Unsupported('ite of cursors')


def cursor(data, avail):
    return Opaque('Cursor', CursorM(data, 0, avail))


@summary(r'^<.* as (std::io::)?Read>::read_exact$')
def _read_exact(it, st, args, ctx):
    cptr = args[0]
    cur = it.load(st, cptr)
    while isinstance(cur, Ptr):  # &mut &[u8]
        cptr = cur
        cur = it.load(st, cptr)
    if not (isinstance(cur, Opaque) and cur.kind == 'Cursor'):
        raise Unsupported('read_exact on %r' % (cur,))
    c = cur.data
    bptr, buf = seq_of(it, st, args[1])
    n = len(buf.fields)
    ok = z3.ULE(bv(c.pos + n, 64), c.avail) if c.pos + n <= len(c.data) else z3.BoolVal(False)
    ok = simp(ok)
    outs = []
    if not z3.is_false(ok) and it.feasible(st, ok):
        s2 = st.fork() if not z3.is_true(ok) else st
        s2.assume(ok)
        it.store(s2, bptr, Agg(buf.ty, c.data[c.pos:c.pos + n]))
        it.store(s2, cptr, Opaque('Cursor', CursorM(c.data, c.pos + n, c.avail)))
        outs.append((s2, Ret(mk_ok(UNIT))))
    if not z3.is_true(ok) and it.feasible(st, z3.Not(ok)):
        st.assume(z3.Not(ok))
        outs.append((st, Ret(mk_err(Opaque('IoError', ('UnexpectedEof',))))))
    return outs


@summary(r'^<Vec<u8> as (std::io::)?Write>::write_all$')
def _write_all(it, st, args, ctx):
    v = it.load(st, args[0])
    _, src = seq_of(it, st, args[1])
    it.store(st, args[0], Agg('Vec', v.fields + src.fields))
    return mk_ok(UNIT)


@summary(r'^(std|alloc)::vec::from_elem::<u8>$')
def _from_elem(it, st, args, ctx):
    elem, n = args
    n = simp(n)
    if z3.is_bv_value(n):
        return Agg('Vec', [elem] * n.as_long())
    # symbolic length: one path per feasible value (the callers cast a u8 length: 0..255)
    outs = []
    limit = getattr(it, 'from_elem_limit', 255)
    for k in range(0, limit + 1):
        c = n == bv(k, n.size())
        if it.feasible(st, c):
            s2 = st.fork()
            s2.assume(c)
            outs.append((s2, Ret(Agg('Vec', [elem] * k))))
    rest = z3.UGT(n, bv(limit, n.size()))
    if it.feasible(st, rest):
        if not getattr(it, 'from_elem_longer_reads_fail', False):
            raise Unsupported('from_elem with a length beyond the stated bound %d' % limit)
        # the harness' buffer is shorter than any such length: the read_exact that follows fails whatever the length
        s2 = st.fork()
        s2.assume(rest)
        outs.append((s2, Ret(Agg('Vec', [elem] * (limit + 1)))))
    return outs


@summary(r'^core::slice::<impl \[.*\]>::reverse$')
def _slice_reverse(it, st, args, ctx):
    ptr, s = seq_of(it, st, args[0])
    it.store(st, ptr, Agg(s.ty, tuple(reversed(s.fields))))
    return UNIT


@summary(r'^<(\[.*\]|Vec<.*>) as (std::ops::)?Index(Mut)?<(std::ops::)?Range(To|From|Full)?<usize>>>::index(_mut)?$|^<(\[.*\]|Vec<.*>) as (std::ops::)?Index(Mut)?<(std::ops::)?Range(To|From|Full)?(Inclusive)?<usize>>>::index(_mut)?$')
def _index_range(it, st, args, ctx):
    ptr, s = seq_of(it, st, args[0])
    r = args[1]
    n = len(s.fields)
    m = re.search(r'<(?:std::ops::)?(Range\w*)<usize>>', ctx.callee)
    kind = m.group(1)
    if ptr is None:
        ptr = Ptr(st.alloc(s))

    def alternatives(t):
        """[(condition, concrete value)] for a bound that may be symbolic (it can only be 0..n without panicking)"""
        t = simp(t)
        if z3.is_bv_value(t):
            return [(z3.BoolVal(True), t.as_long())]
        alts = [(t == bv(k, t.size()), k) for k in range(0, n + 1)]
        alts.append((z3.UGT(t, bv(n, t.size())), n + 1))
        return alts
    if kind == 'RangeTo':
        la, lb = [(z3.BoolVal(True), 0)], alternatives(r.fields[0])
    elif kind == 'RangeFrom':
        la, lb = alternatives(r.fields[0]), [(z3.BoolVal(True), n)]
    elif kind == 'Range':
        la, lb = alternatives(r.fields[0]), alternatives(r.fields[1])
    elif kind == 'RangeFull':
        la, lb = [(z3.BoolVal(True), 0)], [(z3.BoolVal(True), n)]
    else:
        raise Unsupported('range kind ' + kind)
    outs = []
    for ca, a in la:
        for cb, b in lb:
            c = simp(z3.And(ca, cb))
            if z3.is_false(c) or not it.feasible(st, c):
                continue
            s2 = st if (z3.is_true(c)) else st.fork()
            s2.assume(c)
            if a > b or b > n:
                outs.append((s2, Panic('range out of bounds (%d..%d of %d)' % (a, b, n), ctx.fn.name)))
            else:
                outs.append((s2, Ret(Ptr(ptr.cell, ptr.path + (('sub', a, n - b, True),)))))
    return outs


# ---- ethnum::U256 = BV256 ------------------------------------------------------------------------------------

def _u256(rx):
    return r'^(ethnum::uint::\w+::)?<impl (ethnum::)?U256>::' + rx + r'$|^(ethnum::)?U256::' + rx + r'$'


@summary(_u256(r'from_(be|le)_bytes'))
def _u256_from_bytes(it, st, args, ctx):
    _, arr = seq_of(it, st, args[0]) if not isinstance(args[0], Agg) else (None, args[0])
    bs = list(arr.fields)
    if len(bs) != 32:
        raise Unsupported('U256::from_bytes of %d bytes' % len(bs))
    if 'from_le_bytes' in ctx.callee:
        bs.reverse()
    return simp(z3.Concat(*bs))


@summary(_u256(r'to_(be|le)_bytes'))
def _u256_to_bytes(it, st, args, ctx):
    a = deref(it, st, args[0]) if isinstance(args[0], Ptr) else args[0]
    bs = [simp(z3.Extract(8 * i + 7, 8 * i, a)) for i in range(32)]  # little endian
    if 'to_be_bytes' in ctx.callee:
        bs.reverse()
    return Agg('array', bs)


@summary(_u256(r'leading_zeros'))
def _u256_lz(it, st, args, ctx):
    a = deref(it, st, args[0]) if isinstance(args[0], Ptr) else args[0]
    r = bv(256, 32)
    for i in range(256):
        r = z3.If(z3.Extract(i, i, a) == 1, bv(255 - i, 32), r)
    return r

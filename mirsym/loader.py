"""Emit MIR from /repo's working tree (and the registry crates that kernels inline) and
build an Interp over it.  Regenerated on every run."""
import glob
import os
import re
import subprocess
import time

from . import mirparse as mp
from .rsadt import AdtTable
from .interp import Interp, Inconclusive

REPO = os.environ.get('VERIF_REPO', '/repo')
BUILD = os.environ.get('VERIF_BUILD', '/verif/build')
MIR_TARGET = os.path.join(BUILD, 'mir')
CRATES = [('melstf', 'melstf'), ('melvm', 'melvm'), ('tip911-stakeset', 'tip911_stakeset'),
          ('melstructs', 'melstructs')]


def registry_src(crate_prefix):
    base = os.path.expanduser('~/.cargo/registry/src')
    hits = sorted(glob.glob(os.path.join(base, '*', crate_prefix + '-[0-9]*')))
    return hits


def emit_mir(crates=None, log=None):
    """returns {crate_name: path to .mir}.  cargo's freshness logic keeps the files in sync with the sources."""
    out = {}
    env = dict(os.environ)
    env['CARGO_TARGET_DIR'] = MIR_TARGET
    env['CARGO_NET_OFFLINE'] = 'true'
    env.pop('RUSTFLAGS', None)
    t0 = time.time()
    for pkg, cname in CRATES:
        if crates and cname not in crates:
            continue
        cmd = ['cargo', 'rustc', '--offline', '-p', pkg, '--lib', '--', '--emit=mir', '-C', 'overflow-checks=on',
               '-C', 'debug-assertions=off']
        started = time.time()
        r = subprocess.run(cmd, cwd=REPO, env=env, capture_output=True, text=True)
        if r.returncode != 0:
            raise Inconclusive('cargo rustc --emit=mir failed for %s:\n%s' % (pkg, r.stderr[-2000:]))
        cands = glob.glob(os.path.join(MIR_TARGET, 'debug', 'deps', cname + '-*.mir'))
        if not cands:
            raise Inconclusive('no MIR produced for ' + pkg)
        # the artifact rustc (re)wrote for this invocation is the newest one
        best = max(cands, key=os.path.getmtime)
        for c in cands:
            if c != best:
                try:
                    os.remove(c)
                except OSError:
                    pass
        out[cname] = best
    if log is not None:
        log['mir_emit_s'] = round(time.time() - t0, 2)
    return out


_re_const_lit = re.compile(r'^const ([^\n]*?): ([^\n=]*?) = const (.*);$', re.M)


def load(summaries, crates=None, log=None, **kw):
    paths = emit_mir(crates, log)
    funcs = {}
    consts = {}
    for cname, p in paths.items():
        fs = mp.parse_file(p, cname)
        for name, lst in fs.items():
            funcs.setdefault(name, []).extend(lst)
        txt = open(p, encoding='utf-8', errors='replace').read()
        for m in _re_const_lit.finditer(txt):
            nm = m.group(1).split('::')[-1]
            consts.setdefault(nm, (m.group(2), m.group(3)))
    roots = [os.path.join(REPO, 'src'), os.path.join(REPO, 'lib')]
    for pre in ('melstructs', 'tmelcrypt', 'melpow'):
        roots.extend(registry_src(pre))
    adts = AdtTable(roots)
    it = Interp(funcs, consts, adts, summaries, **kw)
    it.mir_paths = paths
    return it

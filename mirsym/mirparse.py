"""Parser for rustc's textual MIR (`--emit=mir`).

Produces Function objects: params, local types, basic blocks of statements and a
terminator.  Only the text forms that occur in the dumps of melstf / melvm /
tip911-stakeset / melstructs are supported; anything else raises MirSyntax, which
the checks report as *inconclusive* (never as a pass).
"""
import re
from dataclasses import dataclass, field


class MirSyntax(Exception):
    pass


# ----------------------------------------------------------------------------
# helpers for nested splitting


OPEN = {'(': ')', '[': ']', '{': '}', '<': '>'}
CLOSE = {v: k for k, v in OPEN.items()}


def split_top(s, sep=','):
    """split on `sep` at nesting depth 0, honouring string / byte-string literals.
    '<' '>' are treated as brackets except in '->', '=>', '<=', '>=' , ' < ', ' > '."""
    out, depth, cur, i, n = [], 0, [], 0, len(s)
    while i < n:
        c = s[i]
        if c == '"':
            j = i + 1
            while j < n and s[j] != '"':
                if s[j] == '\\':
                    j += 1
                j += 1
            cur.append(s[i:j + 1])
            i = j + 1
            continue
        if c == "'" and i + 2 < n and (s[i + 2] == "'" or (s[i + 1] == '\\' and "'" in s[i + 2:i + 6])):
            # char literal
            j = s.index("'", i + 2 if s[i + 1] != '\\' else i + 3)
            cur.append(s[i:j + 1])
            i = j + 1
            continue
        if c in '([{':
            depth += 1
        elif c in ')]}':
            depth -= 1
        elif c == '<':
            # generic bracket unless it looks like a comparison / shift
            if not (i + 1 < n and s[i + 1] in ' =<') and not (i > 0 and s[i - 1] == ' ' and i + 1 < n and s[i + 1] == ' '):
                depth += 1
        elif c == '>':
            if i > 0 and s[i - 1] in '-=':
                pass
            elif i > 0 and s[i - 1] == ' ' and i + 1 < n and s[i + 1] in ' =':
                pass
            else:
                depth -= 1
        if c == sep and depth == 0:
            out.append(''.join(cur).strip())
            cur = []
        else:
            cur.append(c)
        i += 1
    last = ''.join(cur).strip()
    if last or out:
        out.append(last)
    return out


def match_close(s, i):
    """s[i] is an opening bracket; return index of its matching close (string aware)."""
    depth, n = 0, len(s)
    o = s[i]
    c = OPEN[o]
    j = i
    while j < n:
        ch = s[j]
        if ch == '"':
            j += 1
            while j < n and s[j] != '"':
                if s[j] == '\\':
                    j += 1
                j += 1
        elif ch == o:
            depth += 1
        elif ch == c:
            if not (c == '>' and s[j - 1] in '-='):
                depth -= 1
                if depth == 0:
                    return j
        j += 1
    raise MirSyntax('unbalanced ' + s)


# ----------------------------------------------------------------------------
# AST


@dataclass(frozen=True)
class Place:
    local: int
    proj: tuple  # of projection elems


# projection elems: ('deref',) ('field', n, type) ('downcast', name) ('index', local)
# ('constindex', n, from_end, minlen) ('subslice', a, b, from_end)


@dataclass(frozen=True)
class Operand:
    kind: str  # 'copy' | 'move' | 'const'
    place: Place = None
    const: str = None


@dataclass
class Stmt:
    kind: str  # 'assign' | 'setdisc' | 'nop'
    place: Place = None
    rv: tuple = None
    text: str = ''


@dataclass
class Term:
    kind: str
    data: dict = field(default_factory=dict)
    text: str = ''


@dataclass
class Block:
    stmts: list
    term: Term
    cleanup: bool = False


@dataclass
class Function:
    name: str
    crate: str
    nparams: int
    local_types: dict
    ret_type: str
    blocks: dict
    is_const: bool = False
    param_types: list = field(default_factory=list)
    span: tuple = (0, 0)


# ----------------------------------------------------------------------------
# place / operand parsing


_re_local = re.compile(r'_(\d+)')


def parse_place(s):
    s = s.strip()
    p, rest = _parse_place(s, 0)
    if rest != len(s):
        raise MirSyntax('trailing in place: %r' % s)
    return p


def _parse_place(s, i):
    """returns (Place, next index)"""
    if s[i] == '_':
        m = _re_local.match(s, i)
        if not m:
            raise MirSyntax('bad place %r' % s)
        base = Place(int(m.group(1)), ())
        i = m.end()
    elif s[i] == '(':
        if s.startswith('(*', i):
            inner, j = _parse_place(s, i + 2)
            if s[j] != ')':
                raise MirSyntax('bad deref %r' % s)
            base = Place(inner.local, inner.proj + (('deref',),))
            i = j + 1
        else:
            inner, j = _parse_place(s, i + 1)
            if s.startswith(' as ', j):
                k = match_close(s, i)
                name = s[j + 4:k]
                base = Place(inner.local, inner.proj + (('downcast', name),))
                i = k + 1
            elif s[j] == '.':
                m = re.compile(r'\.(\d+): ').match(s, j)
                if not m:
                    raise MirSyntax('bad field %r' % s)
                k = match_close(s, i)
                ty = s[m.end():k]
                base = Place(inner.local, inner.proj + (('field', int(m.group(1)), ty),))
                i = k + 1
            else:
                raise MirSyntax('bad paren place %r' % s[i:])
    else:
        raise MirSyntax('bad place start %r' % s[i:])
    # postfix index projections
    while i < len(s) and s[i] == '[':
        k = match_close(s, i)
        body = s[i + 1:k]
        m = re.fullmatch(r'_(\d+)', body)
        if m:
            el = ('index', int(m.group(1)))
        else:
            m = re.fullmatch(r'(-?)(\d+) of (\d+)', body)
            if m:
                el = ('constindex', int(m.group(2)), m.group(1) == '-', int(m.group(3)))
            else:
                m = re.fullmatch(r'(\d+):(-?)(\d*)', body)
                if m:
                    el = ('subslice', int(m.group(1)), int(m.group(3) or 0), m.group(2) == '-')
                else:
                    raise MirSyntax('bad index %r' % body)
        base = Place(base.local, base.proj + (el,))
        i = k + 1
    return base, i


def parse_operand(s):
    s = s.strip()
    if s.startswith('copy '):
        return Operand('copy', parse_place(s[5:]))
    if s.startswith('move '):
        return Operand('move', parse_place(s[5:]))
    if s.startswith('const '):
        return Operand('const', None, s[6:].strip())
    if s.startswith('/*tls*/'):
        return Operand('const', None, s)
    # function items / constructors passed as values
    return Operand('const', None, s)


BINOPS = {'Add', 'Sub', 'Mul', 'Div', 'Rem', 'BitAnd', 'BitOr', 'BitXor', 'Shl', 'Shr',
          'Eq', 'Ne', 'Lt', 'Le', 'Gt', 'Ge', 'Cmp', 'Offset',
          'AddWithOverflow', 'SubWithOverflow', 'MulWithOverflow',
          'AddUnchecked', 'SubUnchecked', 'MulUnchecked', 'ShlUnchecked', 'ShrUnchecked'}
UNOPS = {'Not', 'Neg', 'PtrMetadata'}

_re_call_like = re.compile(r'^([A-Za-z]+)\((.*)\)$', re.S)


def parse_rvalue(s):
    s = s.strip()
    if s.startswith(('copy ', 'move ', 'const ')):
        # could be a cast: `copy _1 as u8 (IntToInt)`
        m = re.match(r'^(.*?) as (.*) \((\w+(?:\(.*\))?)\)$', s, re.S)
        if m and not s.startswith('const "'):
            try:
                op = parse_operand(m.group(1))
                return ('cast', op, m.group(2), m.group(3))
            except MirSyntax:
                pass
        return ('use', parse_operand(s))
    if s.startswith('&raw const '):
        return ('ref', 'raw', parse_place(s[11:]))
    if s.startswith('&raw mut '):
        return ('ref', 'rawmut', parse_place(s[9:]))
    if s.startswith('&mut '):
        return ('ref', 'mut', parse_place(s[5:]))
    if s.startswith('&fake shallow '):
        return ('ref', 'fake', parse_place(s[14:]))
    if s.startswith('&'):
        return ('ref', 'shared', parse_place(s[1:]))
    if s.startswith('discriminant('):
        return ('discriminant', parse_place(s[13:-1]))
    if s.startswith('Len('):
        return ('len', parse_place(s[4:-1]))
    if s.startswith('CopyForDeref('):
        return ('use', Operand('copy', parse_place(s[13:-1])))
    m = _re_call_like.match(s)
    if m and m.group(1) in BINOPS:
        a, b = split_top(m.group(2))
        return ('binop', m.group(1), parse_operand(a), parse_operand(b))
    if m and m.group(1) in UNOPS:
        return ('unop', m.group(1), parse_operand(m.group(2)))
    if m and m.group(1) == 'ShallowInitBox':
        a = split_top(m.group(2))
        return ('use', parse_operand(a[0]))
    # aggregates
    if s.startswith('('):
        k = match_close(s, 0)
        if k == len(s) - 1:
            items = split_top(s[1:-1])
            items = [x for x in items if x != '']
            return ('tuple', [parse_operand(x) for x in items])
    if s.startswith('['):
        k = match_close(s, 0)
        if k == len(s) - 1:
            body = s[1:-1]
            parts = split_top(body, ';')
            if len(parts) == 2:
                return ('repeat', parse_operand(parts[0]), parts[1].strip())
            items = [x for x in split_top(body) if x != '']
            return ('array', [parse_operand(x) for x in items])
    # closure aggregate / struct aggregate / enum variant
    if s.startswith('{closure@') or s.startswith('{coroutine@') or s.startswith('{async'):
        k = match_close(s, 0)
        name = s[:k + 1]
        rest = s[k + 1:].strip()
        fields = []
        if rest.startswith('{'):
            inner = rest[1:match_close(rest, 0)]
            for item in split_top(inner):
                if not item:
                    continue
                fname, val = item.split(': ', 1)
                fields.append((fname.strip(), parse_operand(val)))
        return ('closure', name, fields)
    # Name { f: v, ... }
    m = re.match(r'^(.*?) \{(.*)\}$', s, re.S)
    if m and not m.group(1).endswith(('(', ',')):
        fields = []
        for item in split_top(m.group(2)):
            if not item:
                continue
            fname, val = item.split(': ', 1)
            fields.append((fname.strip(), parse_operand(val)))
        return ('adt', m.group(1).strip(), fields, True)
    # Name(args) -- tuple struct / tuple variant
    if s.endswith(')'):
        # find the opening paren matching the last ')'
        depth = 0
        i = len(s) - 1
        while i >= 0:
            if s[i] == ')':
                depth += 1
            elif s[i] == '(':
                depth -= 1
                if depth == 0:
                    break
            i -= 1
        name = s[:i]
        items = [x for x in split_top(s[i + 1:-1]) if x != '']
        return ('adt', name.strip(), [(str(n), parse_operand(x)) for n, x in enumerate(items)], False)
    # bare unit variant / unit struct
    if re.fullmatch(r"[A-Za-z_][\w:<>', &\[\];()]*", s):
        return ('adt', s, [], False)
    raise MirSyntax('bad rvalue %r' % s)


# ----------------------------------------------------------------------------
# terminators


_re_targets = re.compile(r' -> (\[.*\]|unwind .*|bb\d+)$', re.S)


def _bb(s):
    return int(s.strip()[2:])


def parse_terminator(s):
    s = s.strip().rstrip(';')
    if s == 'return':
        return Term('return', text=s)
    if s == 'unreachable':
        return Term('unreachable', text=s)
    if s.startswith('resume') or s.startswith('terminate') or s.startswith('abort'):
        return Term('resume', text=s)
    if s.startswith('goto -> '):
        return Term('goto', {'target': _bb(s[8:])}, s)
    if s.startswith('switchInt('):
        k = match_close(s, 9)
        op = parse_operand(s[10:k])
        tg = s[k + 1:].strip()
        assert tg.startswith('-> [')
        targets, otherwise = [], None
        for item in split_top(tg[4:-1]):
            v, b = item.split(': ')
            if v == 'otherwise':
                otherwise = _bb(b)
            else:
                targets.append((int(v), _bb(b)))
        return Term('switch', {'op': op, 'targets': targets, 'otherwise': otherwise}, s)
    if s.startswith('assert('):
        k = match_close(s, 6)
        args = split_top(s[7:k])
        cond = args[0]
        neg = False
        if cond.startswith('!'):
            neg = True
            cond = cond[1:]
        tg = s[k + 1:]
        m = re.search(r'success: (bb\d+)', tg)
        return Term('assert', {'cond': parse_operand(cond), 'neg': neg, 'msg': args[1] if len(args) > 1 else '',
                               'target': _bb(m.group(1))}, s)
    if s.startswith('drop('):
        k = match_close(s, 4)
        m = re.search(r'return: (bb\d+)', s[k:])
        return Term('drop', {'place': parse_place(s[5:k]), 'target': _bb(m.group(1))}, s)
    if s.startswith('falseEdge') or s.startswith('falseUnwind'):
        m = re.search(r'real: (bb\d+)', s)
        return Term('goto', {'target': _bb(m.group(1))}, s)
    # call: `dest = callee(args) -> [return: bbN, unwind ...]` or `-> unwind continue` (diverges)
    m = re.match(r'^(.*?) = (.*)$', s, re.S)
    if m:
        dest_s, rest = m.group(1), m.group(2)
        mt = re.search(r' -> (\[return: (bb\d+), unwind[^\]]*\]|unwind [a-z() ]+|bb\d+)$', rest)
        if not mt:
            raise MirSyntax('bad call terminator %r' % s)
        target = None
        if mt.group(2):
            target = _bb(mt.group(2))
        elif mt.group(1).startswith('bb'):
            target = _bb(mt.group(1))
        callpart = rest[:mt.start()]
        # split callee / args at the last top-level paren group
        assert callpart.endswith(')'), callpart
        depth = 0
        i = len(callpart) - 1
        in_str = False
        while i >= 0:
            ch = callpart[i]
            if ch == '"' and (i == 0 or callpart[i - 1] != '\\'):
                in_str = not in_str
            elif not in_str:
                if ch == ')':
                    depth += 1
                elif ch == '(':
                    depth -= 1
                    if depth == 0:
                        break
            i -= 1
        callee = callpart[:i].strip()
        args = [x for x in split_top(callpart[i + 1:-1]) if x != '']
        if callee.startswith(('copy ', 'move ')):
            callee_op = parse_operand(callee)
        else:
            callee_op = None
        return Term('call', {'dest': parse_place(dest_s), 'callee': callee, 'callee_op': callee_op,
                             'args': [parse_operand(a) for a in args], 'target': target}, s)
    raise MirSyntax('bad terminator %r' % s)


# ----------------------------------------------------------------------------
# file level


_re_fn = re.compile(r'^fn (.*)$')
_re_let = re.compile(r'^\s*let (?:mut )?_(\d+): (.*);$')
_re_bb = re.compile(r'^    bb(\d+)( \(cleanup\))?: \{$')


def _parse_header(line):
    # fn NAME(params) -> RET {
    body = line[3:]
    i = body.index('(')
    # names such as `<impl at ...>` have no parens; closure types in params do not either.
    k = match_close(body, i)
    name = body[:i]
    params = [p for p in split_top(body[i + 1:k]) if p]
    ptypes = []
    for p in params:
        m = re.match(r'_(\d+): (.*)$', p, re.S)
        ptypes.append(m.group(2))
    rest = body[k + 1:].strip()
    ret = '()'
    if rest.startswith('->'):
        ret = rest[2:].rstrip('{').strip()
    return name, ptypes, ret


def parse_file(path, crate):
    funcs = {}
    with open(path, encoding='utf-8', errors='replace') as f:
        lines = f.read().split('\n')
    i, n = 0, len(lines)
    while i < n:
        line = lines[i]
        is_fn = line.startswith('fn ')
        mconst = None
        if not is_fn and (line.startswith('const ') or line.startswith('static ')) and line.endswith('= {'):
            mconst = re.match(r'^(?:const|static(?: mut)?) (.*): (.*?) = \{$', line)
        if not (is_fn or mconst):
            i += 1
            continue
        start = i
        if is_fn:
            name, ptypes, ret = _parse_header(line)
        else:
            name, ptypes, ret = mconst.group(1), [], mconst.group(2)
        local_types = {}
        blocks = {}
        i += 1
        cur = None
        cur_stmts = None
        pending = None
        while i < n and lines[i] != '}':
            l = lines[i]
            m = _re_let.match(l)
            if m and cur is None:
                local_types[int(m.group(1))] = m.group(2)
            else:
                mb = _re_bb.match(l)
                if mb:
                    cur = int(mb.group(1))
                    cur_stmts = []
                    blocks[cur] = Block(cur_stmts, None, bool(mb.group(2)))
                elif cur is not None:
                    t = l.strip()
                    if t == '}':
                        cur = None
                    elif t:
                        # statements may span several lines only for string consts with newlines; join until ';'
                        if pending is not None:
                            t = pending + '\n' + t
                            pending = None
                        if not t.endswith(';'):
                            pending = t
                        else:
                            cur_stmts.append(t)
            i += 1
        # split terminators
        fn = Function(name, crate, len(ptypes), local_types, ret, {}, not is_fn, ptypes, (start, i))
        for idx, p in enumerate(ptypes):
            local_types.setdefault(idx + 1, p)
        fn._raw = blocks
        funcs.setdefault(name, []).append(fn)
        i += 1
    return funcs


def lower_function(fn):
    """parse statement text lazily (only for functions actually executed)."""
    if fn.blocks:
        return fn
    for bid, blk in fn._raw.items():
        stmts = []
        raw = blk.stmts
        if not raw:
            raise MirSyntax('empty block bb%d in %s' % (bid, fn.name))
        for t in raw[:-1]:
            stmts.append(parse_statement(t))
        blk2 = Block(stmts, parse_terminator(raw[-1]), blk.cleanup)
        fn.blocks[bid] = blk2
    return fn


def parse_statement(t):
    t = t.rstrip(';')
    if t.startswith(('StorageLive', 'StorageDead', 'nop', 'FakeRead', 'PlaceMention', 'AscribeUserType',
                     'Coverage', 'ConstEvalCounter', 'Retag', 'BackwardIncompatibleDropHint')):
        return Stmt('nop', text=t)
    if t.startswith('Deinit('):
        return Stmt('nop', text=t)
    if t.startswith('assume('):
        return Stmt('nop', text=t)
    m = re.match(r'^discriminant\((.*)\) = (\d+)$', t)
    if m:
        return Stmt('setdisc', parse_place(m.group(1)), ('disc', int(m.group(2))), t)
    # assignment: place = rvalue   (place never contains ' = ')
    j = t.index(' = ')
    return Stmt('assign', parse_place(t[:j]), parse_rvalue(t[j + 3:]), t)

"""num::{BigInt,BigUint,Ratio}: mathematical integers (z3 Int).  Trusted base: num-bigint / num-rational are exact.

BigInt/BigUint = Opaque('BigInt', (int term,));  Ratio<T> = Opaque('Ratio', (num, den)) kept unreduced with den > 0
(num-rational normalises the sign into the numerator; a zero denominator panics in Ratio::new / recip / division).
"""
import re
import z3

from .interp import (Agg, EnumV, Ptr, Opaque, UNIT, Ret, Panic, Unsupported, bv, simp, mk_some, mk_none, mk_option,
                     mk_ok, mk_err, fresh, to_bool)
from .summaries import summary, deref, _panic_fork

I = z3.IntSort()
TWO128 = 1 << 128


# wide_bitvectors: keep products / sums of machine integers as wide bit-vectors (good for comparisons of scaled sums);
# off: everything is a mathematical integer at once (good when the specification is an integer formula)
# symbolic_ops: multiplication / division of big integers stay uninterpreted function applications (with sign / zero
# axioms added per application), so that a formula kernel can be compared with its specification structurally
CONFIG = {'wide_bitvectors': True, 'symbolic_ops': False}

INT_MUL = z3.Function('int_mul', z3.IntSort(), z3.IntSort(), z3.IntSort())
INT_DIV_TRUNC = z3.Function('int_div_trunc', z3.IntSort(), z3.IntSort(), z3.IntSort())
INT_DIV_FLOOR = z3.Function('int_div_floor', z3.IntSort(), z3.IntSort(), z3.IntSort())
# numerator / denominator of a/b in lowest terms (num-rational reduces Ratio<u128> on construction)
RED_NUM = z3.Function('reduced_numer', z3.IntSort(), z3.IntSort(), z3.IntSort())
RED_DEN = z3.Function('reduced_denom', z3.IntSort(), z3.IntSort(), z3.IntSort())


# terms known to be non-negative by construction (conversions from unsigned machine integers and sums / products /
# quotients of such): sign normalisations and truncation-vs-floor case splits are skipped for them
_NN = {}


def mark_nn(t):
    _NN[t.get_id()] = t
    return t


def is_nn(t):
    if z3.is_int_value(t):
        return t.as_long() >= 0
    if z3.is_app(t) and t.decl().kind() == z3.Z3_OP_BV2INT:
        return True
    return t.get_id() in _NN


def imul(a, b):
    nn = is_nn(a) and is_nn(b)
    if not CONFIG['symbolic_ops']:
        t = a * b
        return mark_nn(t) if nn else t
    from .interp import G
    t = INT_MUL(a, b)
    G.add(z3.And(z3.Implies(z3.And(a >= 0, b >= 0), t >= 0), (t == 0) == z3.Or(a == 0, b == 0)))
    return mark_nn(t) if nn else t


def idiv_trunc(a, b):
    nn = is_nn(a) and is_nn(b)
    if not CONFIG['symbolic_ops']:
        t = (a / b) if nn else z3.If(z3.And(a >= 0, b > 0), a / b, trunc_div(a, b))
        return mark_nn(t) if nn else t
    from .interp import G
    t = INT_DIV_TRUNC(a, b)
    G.add(z3.Implies(z3.And(a >= 0, b > 0), t >= 0))
    return mark_nn(t) if nn else t


def idiv_floor(a, b):
    nn = is_nn(a) and is_nn(b)
    if not CONFIG['symbolic_ops']:
        t = a / b
        return mark_nn(t) if nn else t
    from .interp import G
    t = INT_DIV_FLOOR(a, b)
    G.add(z3.Implies(z3.And(a >= 0, b > 0), t >= 0))
    return mark_nn(t) if nn else t


def big(t):
    return Opaque('BigInt', (t,))


def ratio(n, d):
    return Opaque('Ratio', (n, d))


def bigbv(t):
    """a non-negative big integer still held as a (wide enough, never wrapping) bit-vector: keeps queries that only
    scale / add / compare machine integers inside the bit-vector theory"""
    return Opaque('BigBV', (t,))


def bvform(it, st, v):
    v = deref(it, st, v)
    if isinstance(v, Opaque) and v.kind == 'BigBV':
        return v.data[0]
    if isinstance(v, z3.ExprRef) and z3.is_bv(v):
        return v
    return None


def ival(it, st, v):
    v = deref(it, st, v)
    if isinstance(v, Opaque) and v.kind == 'BigBV':
        return z3.BV2Int(v.data[0], False)
    if isinstance(v, Opaque) and v.kind == 'BigInt':
        return v.data[0]
    if isinstance(v, z3.ExprRef) and z3.is_bv(v):
        return z3.BV2Int(v, False)
    raise Unsupported('expected BigInt, got %r' % (v,))


def rval(it, st, v):
    v = deref(it, st, v)
    if isinstance(v, Opaque) and v.kind == 'Ratio':
        return v.data
    raise Unsupported('expected Ratio, got %r' % (v,))


@summary(r'^<(num::)?(BigInt|BigUint) as From<(u8|u16|u32|u64|u128|usize)>>::from$')
def _big_from_unsigned(it, st, args, ctx):
    if not CONFIG['wide_bitvectors'] or CONFIG['symbolic_ops']:
        return big(z3.BV2Int(args[0], False))
    return bigbv(args[0])


@summary(r'^<(num::)?(BigInt) as From<(i8|i16|i32|i64|i128)>>::from$')
def _big_from_signed(it, st, args, ctx):
    a = simp(args[0])
    if z3.is_bv_value(a):
        return big(z3.IntVal(a.as_signed_long()))
    return big(z3.BV2Int(a, True))


@summary(r'^<(&)?(BigInt|BigUint) as (std::ops::)?(Mul|Add|Sub)(<.*>)?>::(mul|add|sub)$')
def _big_arith(it, st, args, ctx):
    xa, xb = bvform(it, st, args[0]), bvform(it, st, args[1])
    opn = ctx.callee.rsplit('::', 1)[1]
    if xa is not None and xb is not None and opn in ('mul', 'add') and xa.size() + xb.size() <= 512:
        w = xa.size() + xb.size() if opn == 'mul' else max(xa.size(), xb.size()) + 1
        ea, eb = z3.ZeroExt(w - xa.size(), xa), z3.ZeroExt(w - xb.size(), xb)
        return bigbv(ea * eb if opn == 'mul' else ea + eb)
    a, b = ival(it, st, args[0]), ival(it, st, args[1])
    op = ctx.callee.rsplit('::', 1)[1]
    if op == 'mul':
        return big(imul(a, b))
    if op == 'add':
        t = a + b
        return big(mark_nn(t) if (is_nn(a) and is_nn(b)) else t)
    r = a - b
    if 'BigUint' in ctx.callee:
        return _panic_fork(it, st, r >= 0, big(r), 'BigUint subtraction underflow', ctx)
    return big(r)


def trunc_div(a, b):
    """truncating division of mathematical integers (z3's `/` is floor for positive divisors)"""
    q = a / b
    return z3.If(z3.And(a < 0, a % b != 0), z3.If(b > 0, q + 1, q + 1), q)


@summary(r'^<(&)?(BigInt|BigUint) as (std::ops::)?Div(<.*>)?>::div$')
def _big_div(it, st, args, ctx):
    a, b = ival(it, st, args[0]), ival(it, st, args[1])
    # operands in these kernels are non-negative; truncation = floor there.  A negative operand is made explicit.
    return _panic_fork(it, st, b != 0, big(idiv_trunc(a, b)),
                       'attempt to divide by zero (BigInt)', ctx)


@summary(r'^(num::)?(BigInt|BigUint)::pow$')
def _big_pow(it, st, args, ctx):
    a = ival(it, st, args[0])
    e = simp(args[1])
    if not z3.is_bv_value(e):
        raise Unsupported('BigInt::pow with symbolic exponent')
    r = z3.IntVal(1)
    for _ in range(e.as_long()):
        r = imul(r, a)
    return big(r)


@summary(r'^(num::)?(BigInt|BigUint)::sqrt$|^<(BigInt|BigUint) as (num::integer::)?Roots>::sqrt$')
def _big_sqrt(it, st, args, ctx):
    a = ival(it, st, args[0])
    s = mark_nn(fresh('isqrt', I))
    outs = _panic_fork(it, st, z3.BoolVal(True) if is_nn(a) else a >= 0, big(s), 'sqrt of a negative BigInt', ctx)
    for s2, r in outs:
        if isinstance(r, Ret):
            s2.assume(z3.And(s >= 0, s * s <= a, a < (s + 1) * (s + 1)))
    return outs


@summary(r'^<(u8|u16|u32|u64|u128) as (num::integer::)?Roots>::sqrt$')
def _uint_sqrt(it, st, args, ctx):
    return isqrt_bv(deref(it, st, args[0]))  # Roots::sqrt takes &self


_ISQRT = {}


def isqrt_bv(a):
    """integer square root of an unsigned machine integer: a function symbol with its defining axioms (floor of the root)"""
    from .interp import G
    n = a.size()
    f = _ISQRT.get(n)
    if f is None:
        f = _ISQRT[n] = z3.Function('isqrt_u%d' % n, z3.BitVecSort(n), z3.BitVecSort(n))
    s = f(a)
    half = n // 2
    # s < 2^(n/2) so s*s cannot wrap; (s+1)^2 compared in 2n bits
    w = z3.ZeroExt(n, s) + 1
    G.add(z3.And(z3.ULT(s, bv(1 << half, n)), z3.ULE(s * s, a), z3.UGT(w * w, z3.ZeroExt(n, a))))
    return s


@summary(r'^(num::)?BigInt::to_biguint$')
def _to_biguint(it, st, args, ctx):
    a = ival(it, st, args[0])
    if is_nn(a):
        return mk_some(big(a))
    return mk_option(a >= 0, big(a))


@summary(r'^<&?(BigInt|BigUint) as TryInto<u128>>::try_into$')
def _big_try_into_u128(it, st, args, ctx):
    a = ival(it, st, args[0])
    ok = (a < TWO128) if is_nn(a) else z3.And(a >= 0, a < TWO128)
    return EnumV('Result', z3.If(ok, bv(0, 8), bv(1, 8)), {'Ok': (z3.Int2BV(a, 128),), 'Err': (Opaque('TryFromBigIntError'),)})


@summary(r'^<(BigInt|BigUint) as Clone>::clone$|^<Ratio<.*> as Clone>::clone$')
def _big_clone(it, st, args, ctx):
    return deref(it, st, args[0])


# ---- Ratio ---------------------------------------------------------------------------------------------------


def _ratio_new(it, st, n, d, ctx):
    # normalise the sign into the numerator so that den > 0 (as num-rational's reduce() does)
    if is_nn(d):
        return _panic_fork(it, st, d != 0, ratio(n, d), 'Ratio: denominator == 0', ctx)
    nn = z3.If(d < 0, -n, n)
    dd = z3.If(d < 0, -d, d)
    return _panic_fork(it, st, d != 0, ratio(nn, dd), 'Ratio: denominator == 0', ctx)


@summary(r'^(num::rational::)?Ratio::<(BigInt|BigUint)>::new$')
def _ratio_new_big(it, st, args, ctx):
    return _ratio_new(it, st, ival(it, st, args[0]), ival(it, st, args[1]), ctx)


@summary(r'^(num::rational::)?Ratio::<(u128|u64)>::new$')
def _ratio_new_uint(it, st, args, ctx):
    # Ratio<u128> keeps machine integers; numer()/denom() are only ever converted to BigInt by the callers here.
    # reduce() divides both by their gcd: value-preserving, so the pair is kept as mathematical integers.
    n, d = z3.BV2Int(args[0], False), z3.BV2Int(args[1], False)
    return _panic_fork(it, st, args[1] != 0, Opaque('RatioU', (n, d, args[0].size(), args[0], args[1])), 'Ratio: denominator == 0', ctx)


@summary(r'^(num::rational::)?Ratio::<(u128|u64)>::from_integer$')
def _ratio_uint_from_integer(it, st, args, ctx):
    v = args[0]
    one = z3.BitVecVal(1, v.size())
    return Opaque('RatioU', (z3.BV2Int(v, False), z3.IntVal(1), v.size(), v, one))


@summary(r'^<(num::rational::)?Ratio<(u128|u64)> as (num::traits::|num_traits::)?(CheckedMul)>::checked_mul$|^(num::rational::)?Ratio::<(u128|u64)>::checked_mul$')
def _ratio_uint_checked_mul(it, st, args, ctx):
    """machine-integer rationals: the product, or None when an intermediate (cross-reduced) product does not fit.  The cross
    reduction by gcds is not modelled: when the UNREDUCED products fit the result is Some(exact product); otherwise both
    Some(exact product) and None are explored (a counterexample that needs None only counts once the native replay confirms it)"""
    a, b = deref(it, st, args[0]), deref(it, st, args[1])
    bits = a.data[2]
    an, ad, bn, bd = a.data[3], a.data[4], b.data[3], b.data[4]
    wn = z3.ZeroExt(bits, an) * z3.ZeroExt(bits, bn)
    wd = z3.ZeroExt(bits, ad) * z3.ZeroExt(bits, bd)
    fits = simp(z3.And(z3.Extract(2 * bits - 1, bits, wn) == 0, z3.Extract(2 * bits - 1, bits, wd) == 0))
    outs = []
    if not z3.is_false(fits) and it.feasible(st, fits):
        s2 = st.fork()
        s2.assume(fits)
        pn, pd = z3.Extract(bits - 1, 0, wn), z3.Extract(bits - 1, 0, wd)
        outs.append((s2, Ret(mk_some(Opaque('RatioU', (z3.BV2Int(pn, False), z3.BV2Int(pd, False), bits, pn, pd))))))
    if not z3.is_true(fits) and it.feasible(st, z3.Not(fits)):
        s3 = st.fork()
        s3.assume(z3.Not(fits))
        outs.append((s3, Ret(mk_none())))
        # the reduced products may still fit: the exact quotient then (numerator / denominator as exact integers)
        s4 = st
        s4.assume(z3.Not(fits))
        qn = fresh('ratio_prod_n', z3.BitVecSort(bits))
        qd = fresh('ratio_prod_d', z3.BitVecSort(bits))
        s4.assume(z3.And(z3.BV2Int(qn, False) * a.data[1] * b.data[1] == z3.BV2Int(qd, False) * a.data[0] * b.data[0], qd != 0))
        outs.append((s4, Ret(mk_some(Opaque('RatioU', (z3.BV2Int(qn, False), z3.BV2Int(qd, False), bits, qn, qd))))))
    return outs


@summary(r'^(num::rational::)?Ratio::<(u128|u64)>::(to_integer|floor)$')
def _ratio_uint_to_integer(it, st, args, ctx):
    r = deref(it, st, args[0])
    n, d, bits = r.data[3], r.data[4], r.data[2]
    q = z3.UDiv(n, d)
    if ctx.callee.endswith('floor'):
        one = z3.BitVecVal(1, bits)
        return Opaque('RatioU', (z3.BV2Int(q, False), z3.IntVal(1), bits, q, one))
    return q


@summary(r'^(num::rational::)?Ratio::<(u128|u64)>::(numer|denom)$')
def _ratio_uint_parts(it, st, args, ctx):
    r = deref(it, st, args[0])
    n, d, bits = r.data[:3]
    # gcd-reduced parts: g fresh with n = g*n', d = g*d' -- callers only use the quotient n'/d', which equals n/d.
    which = 'numer' if ctx.callee.endswith('numer') else 'denom'
    if CONFIG['symbolic_ops']:
        # unreduced parts: the only consumer (multiply_frac) rebuilds the same rational from numer / denom, and
        # floor(x * n' / d') = floor(x * n / d) exactly when n'/d' = n/d; checks using this mode assert (on the MIR) that
        # Ratio<u128>::numer / denom are not used anywhere else
        return Ptr(st.alloc(r.data[3] if which == 'numer' else r.data[4]))
    tag = 'ratiou:' + n.sexpr() + '/' + d.sexpr()
    parts = st.notes.get(tag)
    if parts is None:
        g = fresh('gcd', I)
        n2, d2 = fresh('numer', I), fresh('denom', I)
        st.assume(z3.And(g >= 1, n == g * n2, d == g * d2, n2 >= 0, d2 >= 1, n2 <= n, d2 <= d))
        parts = (n2, d2)
        st.notes[tag] = parts
    t = parts[0] if which == 'numer' else parts[1]
    return Ptr(st.alloc(z3.Int2BV(t, bits)))


@summary(r'^<Ratio<(BigInt|BigUint)> as From<(BigInt|BigUint)>>::from$')
def _ratio_from_big(it, st, args, ctx):
    return ratio(ival(it, st, args[0]), z3.IntVal(1))


@summary(r'^<Ratio<(BigInt|BigUint)> as From<\((BigInt|BigUint), (BigInt|BigUint)\)>>::from$')
def _ratio_from_pair(it, st, args, ctx):
    t = deref(it, st, args[0])
    return _ratio_new(it, st, ival(it, st, t.fields[0]), ival(it, st, t.fields[1]), ctx)


@summary(r'^<(&)?Ratio<(BigInt|BigUint)> as (std::ops::)?(Mul|Div)(<.*>)?>::(mul|div)$')
def _ratio_muldiv(it, st, args, ctx):
    (an, ad), (bn, bd) = rval(it, st, args[0]), rval(it, st, args[1])
    if ctx.callee.endswith('mul'):
        return ratio(imul(an, bn), imul(ad, bd))
    n, d = imul(an, bd), imul(ad, bn)
    return _ratio_new(it, st, n, d, ctx)


@summary(r'^(num::rational::)?Ratio::<(BigInt|BigUint)>::recip$')
def _ratio_recip(it, st, args, ctx):
    n, d = rval(it, st, args[0])
    return _ratio_new(it, st, d, n, ctx)


@summary(r'^(num::rational::)?Ratio::<(BigInt|BigUint)>::floor$')
def _ratio_floor(it, st, args, ctx):
    n, d = rval(it, st, args[0])
    return ratio(idiv_floor(n, d), z3.IntVal(1))  # den > 0: z3 Int division is the floor


@summary(r'^(num::rational::)?Ratio::<(BigInt|BigUint)>::(numer|denom)$')
def _ratio_numer(it, st, args, ctx):
    n, d = rval(it, st, args[0])
    # only taken after floor() in these kernels (den == 1), where the reduced numerator is n itself
    if not (z3.is_int_value(simp(d)) and simp(d).as_long() == 1):
        raise Unsupported('Ratio::numer of a non-integral ratio')
    return Ptr(st.alloc(big(n if ctx.callee.endswith('numer') else d)))


@summary(r'^<&?(BigInt|BigUint) as (PartialOrd|Ord|PartialEq)(<.*>)?>::(partial_cmp|cmp|eq|ne|lt|le|gt|ge)$')
def _big_cmp(it, st, args, ctx):
    op = ctx.callee.rsplit('::', 1)[1]
    xa, xb = bvform(it, st, args[0]), bvform(it, st, args[1])
    if xa is not None and xb is not None:
        w = max(xa.size(), xb.size())
        ea, eb = z3.ZeroExt(w - xa.size(), xa), z3.ZeroExt(w - xb.size(), xb)
        if op in ('eq', 'ne', 'lt', 'le', 'gt', 'ge'):
            return {'eq': ea == eb, 'ne': ea != eb, 'lt': z3.ULT(ea, eb), 'le': z3.ULE(ea, eb), 'gt': z3.UGT(ea, eb),
                    'ge': z3.UGE(ea, eb)}[op]
        d = z3.If(z3.ULT(ea, eb), bv(-1, 8), z3.If(ea == eb, bv(0, 8), bv(1, 8)))
        o = EnumV('Ordering', d, {'Less': (), 'Equal': (), 'Greater': ()})
        return mk_some(o) if op == 'partial_cmp' else o
    a, b = ival(it, st, args[0]), ival(it, st, args[1])
    if op in ('eq', 'ne', 'lt', 'le', 'gt', 'ge'):
        return {'eq': a == b, 'ne': a != b, 'lt': a < b, 'le': a <= b, 'gt': a > b, 'ge': a >= b}[op]
    d = z3.If(a < b, bv(-1, 8), z3.If(a == b, bv(0, 8), bv(1, 8)))
    o = EnumV('Ordering', d, {'Less': (), 'Equal': (), 'Greater': ()})
    return mk_some(o) if op == 'partial_cmp' else o


@summary(r'^<(BigInt|BigUint) as (std::ops::)?(Mul|Add)<(u8|u16|u32|u64|u128)>>::(mul|add)$')
def _big_arith_prim(it, st, args, ctx):
    xa = bvform(it, st, args[0])
    if xa is not None:
        xb = args[1]
        w = xa.size() + xb.size() if ctx.callee.endswith('mul') else max(xa.size(), xb.size()) + 1
        ea, eb = z3.ZeroExt(w - xa.size(), xa), z3.ZeroExt(w - xb.size(), xb)
        return bigbv(ea * eb if ctx.callee.endswith('mul') else ea + eb)
    a = ival(it, st, args[0])
    b = z3.BV2Int(args[1], False)
    return big(a * b if ctx.callee.endswith('mul') else a + b)

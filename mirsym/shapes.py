"""Constructors for symbolic values of melstf / melstructs types (field orders are
checked against the struct tables read from the sources of the tree under check)."""
import z3

from .interp import Agg, EnumV, Opaque, UNINIT, bv, Inconclusive

NETIDS = {'Testnet': 1, 'Custom02': 2, 'Custom03': 3, 'Custom04': 4, 'Custom05': 5, 'Custom06': 6, 'Custom07': 7,
          'Custom08': 8, 'Mainnet': 0xff}
TXKINDS = {'DoscMint': 0x50, 'Faucet': 0xff, 'LiqDeposit': 0x52, 'LiqWithdraw': 0x53, 'Normal': 0x00, 'Stake': 0x10,
           'Swap': 0x51}

UNSEALED_FIELDS = ['network', 'height', 'history', 'coins', 'transactions', 'fee_pool', 'fee_multiplier', 'tips',
                   'dosc_speed', 'pools', 'stakes']
HEADER_FIELDS = ['network', 'previous', 'height', 'history_hash', 'coins_hash', 'transactions_hash', 'fee_pool',
                 'fee_multiplier', 'dosc_speed', 'pools_hash', 'stakes_hash']
TX_FIELDS = ['kind', 'inputs', 'outputs', 'fee', 'covenants', 'data', 'sigs']
COINDATA_FIELDS = ['covhash', 'value', 'denom', 'additional_data']
STAKEDOC_FIELDS = ['pubkey', 'e_start', 'e_post_end', 'syms_staked']
POOLSTATE_FIELDS = ['lefts', 'rights', 'price_accum', 'liqs']


def check_layout(adts):
    """the field orders hard-wired above must match the sources of the tree under check"""
    exp = {'UnsealedState': UNSEALED_FIELDS, 'Header': HEADER_FIELDS, 'Transaction': TX_FIELDS,
           'CoinData': COINDATA_FIELDS, 'StakeDoc': STAKEDOC_FIELDS, 'PoolState': POOLSTATE_FIELDS,
           'CoinDataHeight': ['coin_data', 'height'], 'CoinID': ['txhash', 'index'],
           'ProposerAction': ['fee_multiplier_delta', 'reward_dest'], 'PoolKey': ['left', 'right']}
    for name, fields in exp.items():
        adt = adts.get(name)
        if adt is None or [f[0] for f in adt.fields] != fields:
            raise Inconclusive('layout of %s changed: %s' % (name, adt and adt.fields))
    for name, tab in (('NetID', NETIDS), ('TxKind', TXKINDS)):
        adt = adts.get(name)
        got = {v[0]: v[1] for v in adt.variants}
        if got != tab:
            raise Inconclusive('discriminants of %s changed: %s' % (name, got))


def sym_enum_unit(ty, name, table, pc):
    """symbolic fieldless enum; adds the validity constraint to pc"""
    d = z3.BitVec(name, 8)
    pc.append(z3.Or([d == bv(v, 8) for v in table.values()]))
    return EnumV(ty, d, {k: () for k in table}), d


def sym_netid(name, pc):
    return sym_enum_unit('NetID', name, NETIDS, pc)


def sym_txkind(name, pc):
    return sym_enum_unit('TxKind', name, TXKINDS, pc)


def hashval(term):
    return Agg('HashVal', [term])


def sym_hash(name):
    t = z3.BitVec(name, 256)
    return hashval(t), t


def txhash(term):
    return Agg('TxHash', [hashval(term)])


def address(term):
    return Agg('Address', [hashval(term)])


def coinvalue(term):
    return Agg('CoinValue', [term])


def blockheight(term):
    return Agg('BlockHeight', [term])


def sym_denom(name, pc=None):
    """symbolic Denom: Mel=0 Sym=1 Erg=2 NewCustom=3 Custom(TxHash)=4"""
    d = z3.BitVec(name + '_tag', 8)
    h = z3.BitVec(name + '_custom', 256)
    if pc is not None:
        pc.append(z3.ULE(d, bv(4, 8)))
    return EnumV('Denom', d, {'Mel': (), 'Sym': (), 'Erg': (), 'NewCustom': (), 'Custom': (txhash(h),)}), d, h


def denom(name, h=None):
    if name == 'Custom':
        return EnumV('Denom', 4, {'Custom': (txhash(h),)})
    return EnumV('Denom', {'Mel': 0, 'Sym': 1, 'Erg': 2, 'NewCustom': 3}[name], {name: ()})


def coinid(txh_term, idx_term):
    return Agg('CoinID', [txhash(txh_term), idx_term])


def sym_coinid(name):
    h = z3.BitVec(name + '_txhash', 256)
    i = z3.BitVec(name + '_index', 8)
    return coinid(h, i), h, i


def unsealed(**kw):
    fields = [kw.get(f, UNINIT) for f in UNSEALED_FIELDS]
    return Agg('UnsealedState', fields)


def header(**kw):
    return Agg('Header', [kw.get(f, UNINIT) for f in HEADER_FIELDS])


def sym_header(prefix, pc):
    net, netd = sym_netid(prefix + '_network', pc)
    vals = {'network': net}
    terms = {'network': netd}
    for f in HEADER_FIELDS[1:]:
        if f in ('previous', 'history_hash', 'coins_hash', 'transactions_hash', 'pools_hash', 'stakes_hash'):
            v, t = sym_hash('%s_%s' % (prefix, f))
        elif f == 'height':
            t = z3.BitVec('%s_%s' % (prefix, f), 64)
            v = blockheight(t)
        elif f == 'fee_pool':
            t = z3.BitVec('%s_%s' % (prefix, f), 128)
            v = coinvalue(t)
        else:
            t = z3.BitVec('%s_%s' % (prefix, f), 128)
            v = t
        vals[f] = v
        terms[f] = t
    return header(**vals), terms


class SymBytesData(dict):
    """abstract byte string: identified by `id` (equal ids <=> equal bytes), with a symbolic length"""

    def sym_eq(self, other):
        return self['id'] == other['id']

    def sym_ite(self, c, other):
        return SymBytesData(id=z3.If(c, self['id'], other['id']), len=z3.If(c, self['len'], other['len']))

    def flatten(self, out):
        out.append(self['id'])

    def length(self):
        return self['len']

    def __hash__(self):
        return id(self)


def sym_bytes(name, pc=None, maxlen=None):
    ident = z3.BitVec(name + '_id', 256)
    ln = z3.BitVec(name + '_len', 64)
    if pc is not None:
        pc.append(z3.ULE(ln, maxlen if maxlen is not None else (1 << 32)))
        # identity encodes short lengths, so that an id equal to a concrete short string's id has that length
        pc.append(z3.Extract(255, 248, ident) == z3.If(z3.ULT(ln, 32), z3.Extract(7, 0, ln), z3.BitVecVal(0xff, 8)))
    return Opaque('SymBytes', SymBytesData(id=ident, len=ln))


def concrete_bytes_as_sym(agg):
    """a concrete byte string (< 32 bytes) in the SymBytes representation: id = len || content"""
    bs = []
    for f in agg.fields:
        f = z3.simplify(f)
        if not z3.is_bv_value(f):
            return None
        bs.append(f.as_long())
    if len(bs) >= 32:
        return None
    val = (len(bs) << 248) | int.from_bytes(bytes(bs), 'big')
    return Opaque('SymBytes', SymBytesData(id=z3.BitVecVal(val, 256), len=z3.BitVecVal(len(bs), 64)))


def sym_coindata(name, pc):
    den, dt, dh = sym_denom(name + '_denom', pc)
    v = z3.BitVec(name + '_value', 128)
    cov = z3.BitVec(name + '_covhash', 256)
    cd = Agg('CoinData', [address(cov), coinvalue(v), den, sym_bytes(name + '_adata', pc)])
    return cd, {'covhash': cov, 'value': v, 'denom_tag': dt, 'denom_custom': dh}


def sym_value(ty, name, st):
    """arbitrary value of a melstructs type; validity constraints go to st.pc"""
    pc = st.pc
    if ty == 'CoinDataHeight':
        cd, _ = sym_coindata(name, pc)
        return Agg('CoinDataHeight', [cd, blockheight(z3.BitVec(name + '_height', 64))])
    if ty == 'CoinData':
        return sym_coindata(name, pc)[0]
    if ty == 'u64':
        return z3.BitVec(name, 64)
    if ty == 'u128':
        return z3.BitVec(name, 128)
    if ty == 'PoolState':
        return Agg('PoolState', [z3.BitVec('%s_%s' % (name, f), 128) for f in POOLSTATE_FIELDS])
    if ty == 'Header':
        return sym_header(name, pc)[0]
    if ty == 'CoinID':
        return sym_coinid(name)[0]
    if ty == 'StakeDoc':
        return Agg('StakeDoc', [Agg('Ed25519PK', [z3.BitVec(name + '_pubkey', 256)]), z3.BitVec(name + '_e_start', 64),
                                z3.BitVec(name + '_e_post_end', 64), coinvalue(z3.BitVec(name + '_syms', 128))])
    if ty.startswith('(') and ty.endswith(')'):
        from .mirparse import split_top
        parts = [p for p in split_top(ty[1:-1]) if p]
        return Agg('tuple', [sym_value(_norm_ty(p), '%s_%d' % (name, i), st) for i, p in enumerate(parts)])
    if ty in ('u32', 'u8', 'u16'):
        return z3.BitVec(name, int(ty[1:]))
    if ty == 'HashVal':
        return hashval(z3.BitVec(name, 256))
    if ty in ('TxHash', 'Address'):
        return Agg(ty, [hashval(z3.BitVec(name, 256))])
    if ty in ('Vec<u8>', 'Bytes', 'bytes::Bytes'):
        return sym_bytes(name, pc)
    if ty == 'Denom':
        return sym_denom(name, pc)[0]
    if ty == 'PoolKey':
        return Agg('PoolKey', [sym_denom(name + '_left', pc)[0], sym_denom(name + '_right', pc)[0]])
    raise Inconclusive('no symbolic constructor for type ' + ty)


def _norm_ty(p):
    p = p.strip()
    if p in ('Vec<u8>', 'bytes::Bytes', 'Bytes'):
        return 'Vec<u8>'
    return p.split('::')[-1]

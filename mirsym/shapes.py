"""Constructors for symbolic values of melstf / melstructs types (field orders are
checked against the struct tables read from the sources of the tree under check)."""
import z3

from .interp import Agg, EnumV, Opaque, UNINIT, bv, Inconclusive

NETIDS = {'Testnet': 1, 'Custom02': 2, 'Custom03': 3, 'Custom04': 4, 'Custom05': 5, 'Custom06': 6, 'Custom07': 7,
          'Custom08': 8, 'Mainnet': 0xff}
TXKINDS = {'DoscMint': 0x50, 'Faucet': 0xff, 'LiqDeposit': 0x52, 'LiqWithdraw': 0x53, 'Normal': 0x00, 'Stake': 0x10,
           'Swap': 0x51}

UNSEALED_FIELDS = ['network', 'height', 'history', 'coins', 'transactions', 'fee_pool', 'fee_multiplier', 'tips',
                   'dosc_speed', 'pools', 'stakes']
HEADER_FIELDS = ['network', 'previous', 'height', 'history_hash', 'coins_hash', 'transactions_hash', 'fee_pool',
                 'fee_multiplier', 'dosc_speed', 'pools_hash', 'stakes_hash']
TX_FIELDS = ['kind', 'inputs', 'outputs', 'fee', 'covenants', 'data', 'sigs']
COINDATA_FIELDS = ['covhash', 'value', 'denom', 'additional_data']
STAKEDOC_FIELDS = ['pubkey', 'e_start', 'e_post_end', 'syms_staked']
POOLSTATE_FIELDS = ['lefts', 'rights', 'price_accum', 'liqs']


def check_layout(adts):
    """the field orders hard-wired above must match the sources of the tree under check"""
    exp = {'UnsealedState': UNSEALED_FIELDS, 'Header': HEADER_FIELDS, 'Transaction': TX_FIELDS,
           'CoinData': COINDATA_FIELDS, 'StakeDoc': STAKEDOC_FIELDS, 'PoolState': POOLSTATE_FIELDS,
           'CoinDataHeight': ['coin_data', 'height'], 'CoinID': ['txhash', 'index'],
           'ProposerAction': ['fee_multiplier_delta', 'reward_dest'], 'PoolKey': ['left', 'right']}
    for name, fields in exp.items():
        adt = adts.get(name)
        if adt is None or [f[0] for f in adt.fields] != fields:
            raise Inconclusive('layout of %s changed: %s' % (name, adt and adt.fields))
    for name, tab in (('NetID', NETIDS), ('TxKind', TXKINDS)):
        adt = adts.get(name)
        got = {v[0]: v[1] for v in adt.variants}
        if got != tab:
            raise Inconclusive('discriminants of %s changed: %s' % (name, got))


def sym_enum_unit(ty, name, table, pc):
    """symbolic fieldless enum; adds the validity constraint to pc"""
    d = z3.BitVec(name, 8)
    pc.append(z3.Or([d == bv(v, 8) for v in table.values()]))
    return EnumV(ty, d, {k: () for k in table}), d


def sym_netid(name, pc):
    return sym_enum_unit('NetID', name, NETIDS, pc)


def sym_txkind(name, pc):
    return sym_enum_unit('TxKind', name, TXKINDS, pc)


def hashval(term):
    return Agg('HashVal', [term])


def sym_hash(name):
    t = z3.BitVec(name, 256)
    return hashval(t), t


def txhash(term):
    return Agg('TxHash', [hashval(term)])


def address(term):
    return Agg('Address', [hashval(term)])


def coinvalue(term):
    return Agg('CoinValue', [term])


def blockheight(term):
    return Agg('BlockHeight', [term])


def sym_denom(name, pc=None):
    """symbolic Denom: Mel=0 Sym=1 Erg=2 NewCustom=3 Custom(TxHash)=4"""
    d = z3.BitVec(name + '_tag', 8)
    h = z3.BitVec(name + '_custom', 256)
    if pc is not None:
        pc.append(z3.ULE(d, bv(4, 8)))
    return EnumV('Denom', d, {'Mel': (), 'Sym': (), 'Erg': (), 'NewCustom': (), 'Custom': (txhash(h),)}), d, h


def denom(name, h=None):
    if name == 'Custom':
        return EnumV('Denom', 4, {'Custom': (txhash(h),)})
    return EnumV('Denom', {'Mel': 0, 'Sym': 1, 'Erg': 2, 'NewCustom': 3}[name], {name: ()})


def coinid(txh_term, idx_term):
    return Agg('CoinID', [txhash(txh_term), idx_term])


def sym_coinid(name):
    h = z3.BitVec(name + '_txhash', 256)
    i = z3.BitVec(name + '_index', 8)
    return coinid(h, i), h, i


def unsealed(**kw):
    fields = [kw.get(f, UNINIT) for f in UNSEALED_FIELDS]
    return Agg('UnsealedState', fields)


def header(**kw):
    return Agg('Header', [kw.get(f, UNINIT) for f in HEADER_FIELDS])


def sym_header(prefix, pc):
    net, netd = sym_netid(prefix + '_network', pc)
    vals = {'network': net}
    terms = {'network': netd}
    for f in HEADER_FIELDS[1:]:
        if f in ('previous', 'history_hash', 'coins_hash', 'transactions_hash', 'pools_hash', 'stakes_hash'):
            v, t = sym_hash('%s_%s' % (prefix, f))
        elif f == 'height':
            t = z3.BitVec('%s_%s' % (prefix, f), 64)
            v = blockheight(t)
        elif f == 'fee_pool':
            t = z3.BitVec('%s_%s' % (prefix, f), 128)
            v = coinvalue(t)
        else:
            t = z3.BitVec('%s_%s' % (prefix, f), 128)
            v = t
        vals[f] = v
        terms[f] = t
    return header(**vals), terms

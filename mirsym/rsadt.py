"""Reads `struct` / `enum` items and `impl` headers from Rust sources (regex level).

MIR prints struct fields by index and enum variants by name / discriminant value;
the tables that connect the two are regenerated from the source files of the tree
under check on every run.
"""
import re
import os
import glob

_re_item = re.compile(r'^\s*(?:pub(?:\([a-z]+\))? )?(struct|enum) (\w+)')


def _strip_comments(src):
    src = re.sub(r'//[^\n]*', '', src)
    src = re.sub(r'/\*.*?\*/', '', src, flags=re.S)
    return src


def _split_top(s, sep=','):
    out, depth, cur = [], 0, []
    i = 0
    while i < len(s):
        c = s[i]
        if c in '([{<':
            depth += 1
        elif c in ')]}':
            depth -= 1
        elif c == '>' and not (i > 0 and s[i - 1] in '-='):
            depth -= 1
        if c == sep and depth == 0:
            out.append(''.join(cur).strip())
            cur = []
        else:
            cur.append(c)
        i += 1
    t = ''.join(cur).strip()
    if t:
        out.append(t)
    return out


def _strip_attrs(s):
    # remove #[...] attributes (balanced brackets)
    out = []
    i = 0
    while i < len(s):
        if s.startswith('#[', i):
            depth = 0
            j = i + 1
            while j < len(s):
                if s[j] == '[':
                    depth += 1
                elif s[j] == ']':
                    depth -= 1
                    if depth == 0:
                        break
                j += 1
            i = j + 1
        else:
            out.append(s[i])
            i += 1
    return ''.join(out)


class Adt:
    def __init__(self, name, kind):
        self.name = name
        self.kind = kind  # 'struct' | 'enum'
        self.fields = []  # struct: [(name, type)]
        self.variants = []  # enum: [(name, disc, [(fname, type)])]
        self.file = None
        self.line = 0

    def variant(self, name):
        for v in self.variants:
            if v[0] == name:
                return v
        raise KeyError('%s::%s' % (self.name, name))

    def variant_by_disc(self, d):
        for v in self.variants:
            if v[1] == d:
                return v
        return None

    def __repr__(self):
        return 'Adt(%s %s %s)' % (self.kind, self.name, self.fields or [v[:2] for v in self.variants])


def _parse_fields(body, tuple_like):
    body = _strip_attrs(body)
    fields = []
    for n, item in enumerate(_split_top(body)):
        item = item.strip()
        if not item:
            continue
        item = re.sub(r'^pub(\([a-z ]+\))? ', '', item)
        if tuple_like:
            fields.append((str(n), item))
        else:
            fname, ty = item.split(':', 1)
            fields.append((fname.strip(), ty.strip()))
    return fields


def parse_source(path, adts, impls):
    try:
        raw = open(path, encoding='utf-8').read()
    except OSError:
        return
    lines = raw.split('\n')
    src = _strip_comments(raw)
    # items
    for m in re.finditer(r'(?m)^[ \t]*(?:pub(?:\([a-z]+\))? )?(struct|enum) (\w+)\s*(<[^>{;(]*>)?\s*([({;])', src):
        kind, name, _, opener = m.groups()
        adt = Adt(name, kind)
        adt.file = path
        adt.line = src.count('\n', 0, m.start()) + 1
        if opener == ';':
            pass
        else:
            close = {'(': ')', '{': '}'}[opener]
            depth, j = 0, m.end() - 1
            while j < len(src):
                if src[j] == opener:
                    depth += 1
                elif src[j] == close:
                    depth -= 1
                    if depth == 0:
                        break
                j += 1
            body = src[m.end():j]
            if kind == 'struct':
                adt.fields = _parse_fields(body, opener == '(')
            else:
                nxt = 0
                for item in _split_top(body):
                    if re.search(r'#\[cfg\(feature', item):
                        continue  # feature-gated variant: the verified build has no cargo features enabled
                    item = _strip_attrs(item).strip()
                    if not item:
                        continue
                    mv = re.match(r'^(\w+)\s*(?:(\(.*\))|(\{.*\}))?\s*(?:=\s*(.+))?$', item, re.S)
                    if not mv:
                        continue
                    vname, tup, rec, disc = mv.groups()
                    if disc is not None:
                        nxt = int(disc.strip().replace('_', ''), 0)
                    fields = []
                    if tup:
                        fields = _parse_fields(tup[1:-1], True)
                    elif rec:
                        fields = _parse_fields(rec[1:-1], False)
                    adt.variants.append((vname, nxt, fields))
                    nxt += 1
        adts.setdefault(name, adt)
    # impl headers, keyed by (file, line)
    for ln, l in enumerate(lines, 1):
        s = l.strip()
        if s.startswith('impl'):
            # join continuation lines until '{'
            k = ln
            hdr = s
            while '{' not in hdr and k < len(lines):
                hdr += ' ' + lines[k].strip()
                k += 1
            hdr = hdr.split('{')[0]
            hdr = re.sub(r'^impl\s*(<.*?>)?\s*', '', _drop_generics_prefix(hdr))
            hdr = hdr.split(' where ')[0].strip()
            trait = None
            if ' for ' in hdr:
                trait, ty = hdr.split(' for ', 1)
                trait = base_ident(trait)
            else:
                ty = hdr
            impls[(path, ln)] = (base_ident(ty), trait)
        elif s.startswith('#[derive') or (s and impls.get('_in_derive')):
            pass
    # derives: span starts at the `derive(` list entry's line; the target is the next struct/enum item
    item_lines = sorted((a.line, a.name) for a in adts.values() if a.file == path)
    impls.setdefault('_items', {})[path] = item_lines


def _drop_generics_prefix(hdr):
    # `impl<C: ContentAddrStore> Foo<C>` -> `impl Foo<C>`
    if hdr.startswith('impl<'):
        depth = 0
        for i, c in enumerate(hdr):
            if c == '<':
                depth += 1
            elif c == '>' and hdr[i - 1] != '-':
                depth -= 1
                if depth == 0:
                    return 'impl ' + hdr[i + 1:].strip()
    return hdr


def base_ident(ty):
    """`&mut state::UnsealedState<C>` -> `UnsealedState`; `[u8]` -> `[u8]`"""
    ty = ty.strip()
    while True:
        if ty.startswith('&'):
            ty = ty[1:].strip()
            if ty.startswith("'"):
                ty = ty.split(' ', 1)[1] if ' ' in ty else ty
            if ty.startswith('mut '):
                ty = ty[4:]
            continue
        if ty.startswith('dyn '):
            ty = ty[4:]
            continue
        break
    if ty.startswith('[') or ty.startswith('('):
        return ty
    # cut generics
    depth = 0
    out = []
    for i, c in enumerate(ty):
        if c == '<':
            depth += 1
        elif c == '>' and ty[i - 1] != '-':
            depth -= 1
        elif depth == 0:
            out.append(c)
    t = ''.join(out)
    return t.split('::')[-1].strip()


class AdtTable:
    BUILTIN = {
        'Option': [('None', 0, []), ('Some', 1, [('0', 'T')])],
        'Result': [('Ok', 0, [('0', 'T')]), ('Err', 1, [('0', 'E')])],
        'ControlFlow': [('Continue', 0, [('0', 'C')]), ('Break', 1, [('0', 'B')])],
        'Ordering': [('Less', -1, []), ('Equal', 0, []), ('Greater', 1, [])],
        'Cow': [('Borrowed', 0, [('0', 'B')]), ('Owned', 1, [('0', 'O')])],
        'Level': [('Error', 1, []), ('Warn', 2, []), ('Info', 3, []), ('Debug', 4, []), ('Trace', 5, [])],
        'LevelFilter': [('Off', 0, []), ('Error', 1, []), ('Warn', 2, []), ('Info', 3, []), ('Debug', 4, []),
                        ('Trace', 5, [])],
        'Infallible': [],
    }

    def __init__(self, roots):
        self.adts = {}
        self.impls = {}
        for r in roots:
            for p in sorted(glob.glob(os.path.join(r, '**', '*.rs'), recursive=True)):
                if '/target/' in p:
                    continue
                parse_source(p, self.adts, self.impls)
        for name, vs in self.BUILTIN.items():
            a = Adt(name, 'enum')
            a.variants = vs
            self.adts[name] = a

    def get(self, name):
        return self.adts.get(name)

    def impl_self(self, path, line):
        """Self type (and trait) of the impl block / derive whose span starts at path:line"""
        hit = self.impls.get((path, line))
        if hit:
            return hit
        # derive: next item at or after this line
        for (ln, name) in self.impls.get('_items', {}).get(path, []):
            if ln >= line:
                return (name, 'derive')
        return (None, None)

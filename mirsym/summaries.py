"""Library summaries (DESIGN §3).  Each entry: regex over the callee text -> python model.
A model receives (interp, state, args, ctx) and returns a value, a Ret/Panic, or a list
of (state, Ret|Panic) when it forks.  Every summary that fires is recorded in evidence.
"""
import re
import z3

from .interp import (Agg, EnumV, Ptr, Opaque, UNIT, UNINIT, Ret, Panic, Unsupported, bv, int_info, int_cast, simp,
                     mk_some, mk_none, mk_option, mk_ok, mk_err, mk_enum, val_eq, ite_val, to_bool, is_variant,
                     disc_term, fresh, strip_ref, elem_type)

SUMMARIES = []


def summary(pattern):
    rx = re.compile(pattern)

    def deco(f):
        SUMMARIES.append((rx, f))
        return f

    return deco


def deref(it, st, v):
    """follow pointers until a non-pointer value"""
    while isinstance(v, Ptr):
        v = it.load(st, v)
    return v


def ite_st(it, st, c, a, b):
    """ite that also handles two shared references: the result points to a fresh cell holding the ite of the
    referents (sound for read-only use, which is what `&T` results of lookups are)"""
    if isinstance(a, Ptr) and isinstance(b, Ptr) and not (a.cell == b.cell and a.path == b.path):
        c = simp(to_bool(c))
        if z3.is_true(c):
            return a
        if z3.is_false(c):
            return b
        return Ptr(st.alloc(ite_st(it, st, c, it.load(st, a), it.load(st, b))))
    return ite_val(c, a, b)


def self_int_type(ctx):
    """`core::num::<impl u128>::saturating_add` -> 'u128'"""
    m = re.search(r'<impl (\w+)>', ctx.callee)
    if m:
        return m.group(1)
    m = re.match(r'^<(\w+) as ', ctx.callee)
    if m:
        return m.group(1)
    return None


# ---------------------------------------------------------------------------
# logging / formatting: no-ops (formatting is not the subject of any property)


@summary(r'^<(log::)?Level as PartialOrd<(log::)?LevelFilter>>::le$')
def _log_le(it, st, args, ctx):
    return z3.BoolVal(False)


@summary(r'^(log::)?max_level$')
def _max_level(it, st, args, ctx):
    return mk_enum('LevelFilter', 'Off')


@summary(r'^log::__private_api::|^core::fmt::rt::Argument|^Arguments::<|^std::fmt::Arguments|^format\(|^std::fmt::format|^alloc::fmt::format')
def _fmt_noop(it, st, args, ctx):
    return Opaque('fmt')


@summary(r'^(std::time::)?Instant::now$|^Instant::elapsed$|Instant::elapsed$')
def _instant(it, st, args, ctx):
    return Opaque('instant')


# ---------------------------------------------------------------------------
# integers


def _int_method(name):
    return r'^core::num::<impl \w+>::' + name + r'$'


@summary(r'^<\w+ as Ord>::(max|min)$')
def _ord_maxmin(it, st, args, ctx):
    a, b = args
    ty = self_int_type(ctx)
    info = int_info(ty)
    if info is None:
        # derive(Ord) on a newtype over an unsigned integer (CoinValue, BlockHeight): order of the wrapped integer
        if isinstance(a, Agg) and isinstance(b, Agg) and len(a.fields) == 1 and len(b.fields) == 1 and \
                isinstance(a.fields[0], z3.ExprRef) and z3.is_bv(a.fields[0]) and ty in ('CoinValue', 'BlockHeight'):
            lt = z3.ULT(a.fields[0], b.fields[0])
            pick_b = lt if ctx.callee.endswith('max') else z3.Not(lt)
            # Ord::max returns the second argument on ties, Ord::min the first
            if ctx.callee.endswith('max'):
                pick_b = z3.ULE(a.fields[0], b.fields[0])
            else:
                pick_b = z3.ULT(b.fields[0], a.fields[0])
            return Agg(a.ty, [z3.If(pick_b, b.fields[0], a.fields[0])])
        return NotImplemented
    lt = (a < b) if info[1] else z3.ULT(a, b)
    if ctx.callee.endswith('max'):
        return z3.If(lt, b, a)
    return z3.If(lt, a, b)


@summary(_int_method('unsigned_abs'))
def _unsigned_abs(it, st, args, ctx):
    a = args[0]
    return z3.If(a < 0, -a, a)


@summary(_int_method('saturating_add'))
def _sat_add(it, st, args, ctx):
    a, b = args
    bits, signed = int_info(self_int_type(ctx))
    if signed:
        raise Unsupported('signed saturating_add')
    r = a + b
    return z3.If(z3.ULT(r, a), bv((1 << bits) - 1, bits), r)


@summary(_int_method('saturating_sub'))
def _sat_sub(it, st, args, ctx):
    a, b = args
    bits, signed = int_info(self_int_type(ctx))
    if signed:
        raise Unsupported('signed saturating_sub')
    return z3.If(z3.ULT(a, b), bv(0, bits), a - b)


@summary(_int_method('saturating_mul'))
def _sat_mul(it, st, args, ctx):
    a, b = args
    bits, signed = int_info(self_int_type(ctx))
    if signed:
        raise Unsupported('signed saturating_mul')
    ok = z3.BVMulNoOverflow(a, b, False)
    return z3.If(ok, a * b, bv((1 << bits) - 1, bits))


@summary(_int_method('checked_(add|sub|mul)'))
def _checked(it, st, args, ctx):
    a, b = args
    bits, signed = int_info(self_int_type(ctx))
    if signed:
        raise Unsupported('signed checked op')
    if 'checked_add' in ctx.callee:
        ok, r = z3.BVAddNoOverflow(a, b, False), a + b
    elif 'checked_sub' in ctx.callee:
        ok, r = z3.UGE(a, b), a - b
    else:
        ok, r = z3.BVMulNoOverflow(a, b, False), a * b
    return mk_option(ok, r)


@summary(_int_method('overflowing_add'))
def _ovf_add(it, st, args, ctx):
    a, b = args
    return Agg('tuple', [a + b, z3.Not(z3.BVAddNoOverflow(a, b, False))])


@summary(_int_method('wrapping_(add|sub|mul)'))
def _wrapping(it, st, args, ctx):
    a, b = args
    if 'add' in ctx.callee:
        return a + b
    if 'sub' in ctx.callee:
        return a - b
    return a * b


@summary(_int_method('pow'))
def _pow(it, st, args, ctx):
    a, e = args
    bits, signed = int_info(self_int_type(ctx))
    a, e = simp(a), simp(e)
    if z3.is_bv_value(a) and a.as_long() == 2 and not signed:
        # 2^e: overflow (panic with overflow checks) iff e >= bits
        e2 = int_cast(e, False, bits) if e.size() < bits else e
        ok = z3.ULT(e, bv(bits, e.size()))
        outs = []
        if it.feasible(st, z3.Not(ok)):
            f = st.fork()
            f.assume(z3.Not(ok))
            outs.append((f, Panic('attempt to multiply with overflow (pow)', ctx.fn.name)))
        if it.feasible(st, ok):
            st.assume(ok)
            outs.append((st, Ret(bv(1, bits) << e2)))
        return outs
    if z3.is_bv_value(e):
        r = bv(1, bits)
        for _ in range(e.as_long()):
            r = r * a
        return r
    raise Unsupported('pow with symbolic base and exponent')


@summary(_int_method('(to|from)_(be|le)_bytes'))
def _int_bytes(it, st, args, ctx):
    bits, _ = int_info(self_int_type(ctx))
    n = bits // 8
    big = '_be_' in ctx.callee
    if '::to_' in ctx.callee:
        a = args[0]
        bs = [z3.Extract(8 * i + 7, 8 * i, a) for i in range(n)]  # little endian order
        if big:
            bs.reverse()
        return Agg('array', [simp(b) for b in bs])
    arr = deref(it, st, args[0])
    bs = list(arr.fields)
    if not big:
        bs.reverse()
    return simp(z3.Concat(*bs)) if len(bs) > 1 else bs[0]


@summary(_int_method('leading_zeros'))
def _lz(it, st, args, ctx):
    a = args[0]
    bits = a.size()
    r = bv(bits, 32)
    for i in range(bits):
        r = z3.If(z3.Extract(i, i, a) == 1, bv(bits - 1 - i, 32), r)
    return r


@summary(r'^<(u8|u16|u32|u64|u128|usize|i8|i16|i32|i64|i128) as (std::convert::)?(From|Into)<(\w+)>>::(from|into)$')
def _int_from(it, st, args, ctx):
    m = re.match(r'^<(\w+) as (?:std::convert::)?(From|Into)<(\w+)>>', ctx.callee)
    a, kind, b = m.groups()
    src, dst = (b, a) if kind == 'From' else (a, b)
    si, di = int_info(src), int_info(dst)
    if not si or not di:
        if src == 'bool':
            return z3.If(args[0], bv(1, di[0]), bv(0, di[0]))
        return NotImplemented
    return int_cast(args[0], si[1], di[0])


@summary(r'^<&?(u8|u16|u32|u64|u128|usize) as (std::ops::)?(Add|Sub|Mul)(<&?\w+>)?>::(add|sub|mul)$')
def _int_ref_arith(it, st, args, ctx):
    a, b = deref(it, st, args[0]), deref(it, st, args[1])
    op = ctx.callee.rsplit('::', 1)[1]
    if op == 'add':
        ok, r = z3.BVAddNoOverflow(a, b, False), a + b
    elif op == 'sub':
        ok, r = z3.UGE(a, b), a - b
    else:
        ok, r = z3.BVMulNoOverflow(a, b, False), a * b
    outs = []
    if it.feasible(st, z3.Not(ok)):
        f = st.fork()
        f.assume(z3.Not(ok))
        outs.append((f, Panic('attempt to %s with overflow' % op, ctx.fn.name)))
    if it.feasible(st, ok):
        st.assume(ok)
        outs.append((st, Ret(r)))
    return outs


@summary(r'^<(u8|u16|u32|u64|u128|usize|i8|i16|i32|i64|i128|bool) as (PartialEq|PartialOrd|Ord)(<\w+>)?>::(eq|ne|lt|le|gt|ge|cmp)$')
def _int_cmp(it, st, args, ctx):
    a, b = deref(it, st, args[0]), deref(it, st, args[1])
    m = re.match(r'^<(\w+) as', ctx.callee)
    op = ctx.callee.rsplit('::', 1)[1]
    ty = m.group(1)
    opmap = {'eq': 'Eq', 'ne': 'Ne', 'lt': 'Lt', 'le': 'Le', 'gt': 'Gt', 'ge': 'Ge', 'cmp': 'Cmp'}
    return it.binop(opmap[op], a, b, ty, ty)


# ---------------------------------------------------------------------------
# Option / Result / Try plumbing


def _enum_arg(it, st, v):
    v = deref(it, st, v)
    if not isinstance(v, EnumV):
        raise Unsupported('expected enum, got %r' % (v,))
    return v


def fork_enum(it, st, e, names):
    """fork on the variant of enum e; returns [(state, variant name)]"""
    out = []
    live = []
    for n in names:
        c = simp(is_variant(e, n))
        if z3.is_false(c):
            continue
        live.append((n, c))
    if len(live) == 1 and z3.is_true(live[0][1]):
        return [(st, live[0][0])]
    feas = [(n, c) for n, c in live if it.feasible(st, c)]
    for i, (n, c) in enumerate(feas):
        s2 = st if i == len(feas) - 1 else st.fork()
        s2.assume(c)
        out.append((s2, n))
    return out


@summary(r'^<(std::)?(result::)?Result<.*> as (std::ops::)?Try>::branch$')
def _result_branch(it, st, args, ctx):
    r = _enum_arg(it, st, args[0])
    outs = []
    for s2, n in fork_enum(it, st, r, ['Ok', 'Err']):
        if n == 'Ok':
            outs.append((s2, Ret(mk_enum('ControlFlow', 'Continue', (r.payloads['Ok'][0],)))))
        else:
            outs.append((s2, Ret(mk_enum('ControlFlow', 'Break', (mk_err(r.payloads['Err'][0]),)))))
    return outs


@summary(r'^<(std::)?(option::)?Option<.*> as (std::ops::)?Try>::branch$')
def _option_branch(it, st, args, ctx):
    r = _enum_arg(it, st, args[0])
    outs = []
    for s2, n in fork_enum(it, st, r, ['Some', 'None']):
        if n == 'Some':
            outs.append((s2, Ret(mk_enum('ControlFlow', 'Continue', (r.payloads['Some'][0],)))))
        else:
            outs.append((s2, Ret(mk_enum('ControlFlow', 'Break', (mk_none(),)))))
    return outs


@summary(r'^<(std::)?(result::)?Result<.*> as (std::ops::)?FromResidual<.*>>::from_residual$')
def _result_from_residual(it, st, args, ctx):
    r = _enum_arg(it, st, args[0])
    return mk_err(r.payloads['Err'][0])


@summary(r'^<(std::)?(option::)?Option<.*> as (std::ops::)?FromResidual<.*>>::from_residual$')
def _option_from_residual(it, st, args, ctx):
    return mk_none()


def _panic_fork(it, st, ok_cond, value, msg, ctx):
    outs = []
    ok_cond = simp(to_bool(ok_cond))
    if not z3.is_true(ok_cond) and it.feasible(st, z3.Not(ok_cond)):
        f = st.fork()
        f.assume(z3.Not(ok_cond))
        outs.append((f, Panic(msg, ctx.fn.name if ctx.fn else '')))
    if z3.is_true(ok_cond) or it.feasible(st, ok_cond):
        st.assume(ok_cond)
        outs.append((st, Ret(value)))
    return outs


@summary(r'Option::<.*>::(unwrap|expect)(::<.*>)?$')
def _option_unwrap(it, st, args, ctx):
    o = _enum_arg(it, st, args[0])
    if 'Some' not in o.payloads:
        return Panic('called `Option::unwrap()` on a `None` value', ctx.fn.name)
    return _panic_fork(it, st, is_variant(o, 'Some'), o.payloads['Some'][0],
                       'called `Option::unwrap()` on a `None` value', ctx)


@summary(r'Result::<.*>::(unwrap|expect)(::<.*>)?$')
def _result_unwrap(it, st, args, ctx):
    o = _enum_arg(it, st, args[0])
    if 'Ok' not in o.payloads:
        return Panic('called `Result::unwrap()` on an `Err` value', ctx.fn.name)
    return _panic_fork(it, st, is_variant(o, 'Ok'), o.payloads['Ok'][0],
                       'called `Result::unwrap()` on an `Err` value', ctx)


@summary(r'Option::<.*>::unwrap_or(::<.*>)?$')
def _option_unwrap_or(it, st, args, ctx):
    o = _enum_arg(it, st, args[0])
    if 'Some' not in o.payloads:
        return args[1]
    return ite_st(it, st, simp(is_variant(o, 'Some')), o.payloads['Some'][0], args[1])


@summary(r'Result::<.*>::unwrap_or(::<.*>)?$')
def _result_unwrap_or(it, st, args, ctx):
    o = _enum_arg(it, st, args[0])
    if 'Ok' not in o.payloads:
        return args[1]
    return ite_val(simp(is_variant(o, 'Ok')), o.payloads['Ok'][0], args[1])


@summary(r'Option::<.*>::unwrap_or_default(::<.*>)?$')
def _option_unwrap_or_default(it, st, args, ctx):
    o = _enum_arg(it, st, args[0])
    d = default_value(it, ctx.dest_ty)
    if 'Some' not in o.payloads:
        return d
    return ite_val(simp(is_variant(o, 'Some')), o.payloads['Some'][0], d)


@summary(r'Result::<.*>::unwrap_or_default(::<.*>)?$')
def _result_unwrap_or_default(it, st, args, ctx):
    o = _enum_arg(it, st, args[0])
    d = default_value(it, ctx.dest_ty)
    if 'Ok' not in o.payloads:
        return d
    return ite_val(simp(is_variant(o, 'Ok')), o.payloads['Ok'][0], d)


@summary(r'Option::<.*>::(is_some|is_none)(::<.*>)?$')
def _option_is(it, st, args, ctx):
    o = _enum_arg(it, st, args[0])
    c = is_variant(o, 'Some')
    return simp(c if ctx.callee.endswith('is_some') else z3.Not(c))


@summary(r'Result::<.*>::(is_ok|is_err)(::<.*>)?$')
def _result_is(it, st, args, ctx):
    o = _enum_arg(it, st, args[0])
    c = is_variant(o, 'Ok')
    return simp(c if ctx.callee.endswith('is_ok') else z3.Not(c))


@summary(r'Option::<.*>::ok_or(::<.*>)?$')
def _option_ok_or(it, st, args, ctx):
    o = _enum_arg(it, st, args[0])
    c = simp(is_variant(o, 'Some'))
    pl = {'Err': (args[1],)}
    if 'Some' in o.payloads:
        pl['Ok'] = o.payloads['Some']
    if z3.is_true(c):
        return mk_ok(o.payloads['Some'][0])
    if z3.is_false(c):
        return mk_err(args[1])
    return EnumV('Result', z3.If(c, bv(0, 8), bv(1, 8)), pl)


@summary(r'Result::<.*>::ok(::<.*>)?$')
def _result_ok(it, st, args, ctx):
    o = _enum_arg(it, st, args[0])
    c = simp(is_variant(o, 'Ok'))
    if 'Ok' not in o.payloads:
        return mk_none()
    return mk_option(c, o.payloads['Ok'][0])


@summary(r'Option::<.*>::(copied|cloned)(::<.*>)?$')
def _option_copied(it, st, args, ctx):
    o = _enum_arg(it, st, args[0])
    if 'Some' not in o.payloads:
        return mk_none()
    inner = deref(it, st, o.payloads['Some'][0])
    return EnumV('Option', o.disc, {'Some': (inner,), 'None': ()})


@summary(r'Option::<.*>::as_ref(::<.*>)?$')
def _option_as_ref(it, st, args, ctx):
    o = _enum_arg(it, st, args[0])
    if 'Some' not in o.payloads:
        return mk_none()
    cell = st.alloc(o.payloads['Some'][0])
    return EnumV('Option', o.disc, {'Some': (Ptr(cell),), 'None': ()})


def _map_enum(it, st, args, ctx, enum_ty, hit, miss_keep):
    """Option::map / Result::map / map_err: call closure on the `hit` variant"""
    o = _enum_arg(it, st, args[0])
    outs = []
    other = [n for n in o.payloads if n != hit] or ([] if enum_ty == 'Option' else [])
    names = ['Some', 'None'] if enum_ty == 'Option' else ['Ok', 'Err']
    for s2, n in fork_enum(it, st, o, names):
        if n == hit:
            for s3, r in it.call_closure(s2, args[1], [o.payloads[hit][0]], ctx):
                if isinstance(r, Panic):
                    outs.append((s3, r))
                else:
                    outs.append((s3, Ret(mk_enum(enum_ty, hit, (r.v,)))))
        else:
            outs.append((s2, Ret(mk_enum(enum_ty, n, o.payloads.get(n, ())))))
    return outs


@summary(r'Option::<.*>::map::<')
def _option_map(it, st, args, ctx):
    return _map_enum(it, st, args, ctx, 'Option', 'Some', None)


@summary(r'Result::<.*>::map::<')
def _result_map(it, st, args, ctx):
    return _map_enum(it, st, args, ctx, 'Result', 'Ok', None)


@summary(r'Result::<.*>::map_err::<')
def _result_map_err(it, st, args, ctx):
    return _map_enum(it, st, args, ctx, 'Result', 'Err', None)


@summary(r'Option::<.*>::map_or::<|Result::<.*>::map_or::<')
def _enum_map_or(it, st, args, ctx):
    """map_or(default, f): f(payload) for Some / Ok, the default otherwise"""
    o = _enum_arg(it, st, args[0])
    good = 'Some' if o.ty == 'Option' else 'Ok'
    other = 'None' if o.ty == 'Option' else 'Err'
    outs = []
    for s2, n in fork_enum(it, st, o, [good, other]):
        if n == good:
            outs.extend(it.call_closure(s2, args[2], [o.payloads[good][0]], ctx))
        else:
            outs.append((s2, Ret(args[1])))
    return outs


@summary(r'Option::<.*>::map_or_else::<')
def _option_map_or_else(it, st, args, ctx):
    o = _enum_arg(it, st, args[0])
    outs = []
    for s2, n in fork_enum(it, st, o, ['Some', 'None']):
        if n == 'Some':
            outs.extend(it.call_closure(s2, args[2], [o.payloads['Some'][0]], ctx))
        else:
            outs.extend(it.call_closure(s2, args[1], [], ctx))
    return outs


@summary(r'Option::<.*>::unwrap_or_else::<')
def _option_unwrap_or_else(it, st, args, ctx):
    o = _enum_arg(it, st, args[0])
    outs = []
    for s2, n in fork_enum(it, st, o, ['Some', 'None']):
        if n == 'Some':
            outs.append((s2, Ret(o.payloads['Some'][0])))
        else:
            outs.extend(it.call_closure(s2, args[1], [], ctx))
    return outs


@summary(r'Result::<.*>::unwrap_or_else::<')
def _result_unwrap_or_else(it, st, args, ctx):
    o = _enum_arg(it, st, args[0])
    outs = []
    for s2, n in fork_enum(it, st, o, ['Ok', 'Err']):
        if n == 'Ok':
            outs.append((s2, Ret(o.payloads['Ok'][0])))
        else:
            outs.extend(it.call_closure(s2, args[1], [o.payloads['Err'][0]], ctx))
    return outs


@summary(r'^bool::then_some::<|^core::bool::<impl bool>::then_some::<')
def _then_some(it, st, args, ctx):
    return mk_option(args[0], args[1])


# ---------------------------------------------------------------------------
# defaults / clones / conversions


def default_value(it, ty):
    ty = ty.strip()
    info = int_info(ty)
    if info:
        return bv(0, info[0])
    if ty == 'bool':
        return z3.BoolVal(False)
    b = ty.split('<')[0].split('::')[-1]
    if b in ('CoinValue',):
        return Agg('CoinValue', [bv(0, 128)])
    if b == 'BlockHeight':
        return Agg('BlockHeight', [bv(0, 64)])
    if b == 'HashVal':
        return Agg('HashVal', [bv(0, 256)])
    if b in ('TxHash', 'Address'):
        return Agg(b, [Agg('HashVal', [bv(0, 256)])])
    if b == 'Bytes' or ty in ('&[u8]', '&[u8; 0]'):
        return Agg('Vec', [])
    if b == 'Vec':
        return Agg('Vec', [])
    m = re.match(r'^\[(u8|u16|u32|u64); (\d+)\]$', ty)
    if m:
        return Agg('array', [bv(0, int(m.group(1)[1:]))] * int(m.group(2)))
    raise Unsupported('default value of ' + ty)


@summary(r'^<.* as (std::default::)?Default>::default$')
def _default(it, st, args, ctx):
    m = re.match(r'^<(.*) as (?:std::default::)?Default>::default$', ctx.callee)
    try:
        return default_value(it, m.group(1))
    except Unsupported:
        return NotImplemented


@summary(r'^<.* as (std::clone::)?Clone>::clone$')
def _clone(it, st, args, ctx):
    return deref(it, st, args[0]) if isinstance(args[0], Ptr) else args[0]


@summary(r'^<.* as (std::ops::)?Deref(Mut)?>::deref(_mut)?$|^<.* as AsRef<.*>>::as_ref$|^<.* as Borrow<.*>>::borrow$|^Vec::<.*>::as_slice$')
def _deref(it, st, args, ctx):
    # Vec<T> -> [T], Bytes -> [u8], Cow -> T: all share the representation of the underlying sequence
    if re.match(r'^<(dashmap::)?(mapref::one::)?(Ref|RefMut)<', ctx.callee) and isinstance(args[0], Ptr):
        v = it.load(st, args[0])  # a map reference guard is modelled as the pointer to the entry's value
        if isinstance(v, Ptr):
            return v
    return args[0]


@summary(r'^<.* as (std::convert::)?(Into|From)<.*>>::(into|from)$')
def _into(it, st, args, ctx):
    m = re.match(r'^<(.*) as (?:std::convert::)?(Into|From)<(.*)>>::', ctx.callee)
    a, kind, b = m.group(1), m.group(2), m.group(3)
    src, dst = (b, a) if kind == 'From' else (a, b)
    v = args[0]
    sb, db = src.split('<')[0].split('::')[-1], dst.split('<')[0].split('::')[-1]
    if sb == db:
        return v
    wrap = {'CoinValue', 'BlockHeight', 'TxHash', 'Address'}
    if db in wrap and isinstance(v, (z3.ExprRef, Agg)) and not (isinstance(v, Agg) and v.ty == db):
        return Agg(db, [v])
    if sb in wrap and isinstance(v, Agg):
        return v.fields[0]
    if db in ('Bytes', 'Vec') and sb in ('Vec', 'Bytes', '&[u8]', '[u8]'):
        return deref(it, st, v) if isinstance(v, Ptr) else v
    return NotImplemented


# ---------------------------------------------------------------------------
# comparison traits: provided methods in terms of the required ones


@summary(r'^<(u8|u16|u32|u64|u128|usize|i8|i16|i32|i64|i128) as PartialOrd>::partial_cmp$')
def _int_partial_cmp(it, st, args, ctx):
    a, b = deref(it, st, args[0]), deref(it, st, args[1])
    ty = re.match(r'^<(\w+) as', ctx.callee).group(1)
    return mk_some(it.binop('Cmp', a, b, ty, ty))


def _ordering_of(v):
    """Ordering EnumV (or Option<Ordering>) -> (is_some, disc term signed 8 bit)"""
    if v.ty == 'Option':
        inner = v.payloads['Some'][0]
        return is_variant(v, 'Some'), disc_term(inner)
    return z3.BoolVal(True), disc_term(v)


@summary(r'^<.* as PartialOrd(<.*>)?>::(lt|le|gt|ge)$')
def _partial_ord_default(it, st, args, ctx):
    m = re.match(r'^<(.*) as PartialOrd(<.*>)?>::(lt|le|gt|ge)$', ctx.callee)
    ty, op = m.group(1), m.group(3)
    sub = type('C', (), {})()
    sub.__dict__.update(ctx.__dict__)
    sub.callee = '<%s as PartialOrd>::partial_cmp' % ty
    outs = []
    for s2, r in it.call(st, sub.callee, args, sub):
        if isinstance(r, Panic):
            outs.append((s2, r))
            continue
        some, d = _ordering_of(r.v)
        if op == 'lt':
            c = d == bv(-1, 8)
        elif op == 'le':
            c = z3.Or(d == bv(-1, 8), d == bv(0, 8))
        elif op == 'gt':
            c = d == bv(1, 8)
        else:
            c = z3.Or(d == bv(1, 8), d == bv(0, 8))
        outs.append((s2, Ret(simp(z3.And(some, c)))))
    return outs


@summary(r'^<.* as PartialEq(<.*>)?>::ne$')
def _partial_eq_ne(it, st, args, ctx):
    m = re.match(r'^<(.*) as PartialEq(<.*>)?>::ne$', ctx.callee)
    sub = type('C', (), {})()
    sub.__dict__.update(ctx.__dict__)
    sub.callee = '<%s as PartialEq>::eq' % m.group(1)
    outs = []
    for s2, r in it.call(st, sub.callee, args, sub):
        outs.append((s2, r if isinstance(r, Panic) else Ret(simp(z3.Not(r.v)))))
    return outs


@summary(r'^<.* as Ord>::cmp$')
def _ord_cmp_via_partial(it, st, args, ctx):
    return NotImplemented


@summary(r'^<(tmelcrypt::)?(HashVal|Ed25519PK) as PartialEq>::eq$')
def _hashval_eq(it, st, args, ctx):
    return simp(val_eq(deref(it, st, args[0]), deref(it, st, args[1])))


@summary(r'^core::str::<impl str>::as_bytes$')
def _str_as_bytes(it, st, args, ctx):
    s = deref(it, st, args[0])
    if isinstance(s, Opaque) and s.kind == 'str':
        return Ptr(st.alloc(Agg('bytes', [bv(b, 8) for b in s.data.encode('utf-8')])))
    raise Unsupported('as_bytes of %r' % (s,))


@summary(r'^<(u8|u16|u32|u64|u128|usize) as (std::ops::)?(Add|Sub|Mul)Assign(<&?\w+>)?>::(add|sub|mul)_assign$')
def _int_op_assign(it, st, args, ctx):
    a, b = it.load(st, args[0]), deref(it, st, args[1])
    op = ctx.callee.rsplit('::', 1)[1].split('_')[0]
    if op == 'add':
        ok, r = z3.BVAddNoOverflow(a, b, False), a + b
    elif op == 'sub':
        ok, r = z3.UGE(a, b), a - b
    else:
        ok, r = z3.BVMulNoOverflow(a, b, False), a * b
    outs = []
    ok = simp(ok)
    if not z3.is_true(ok) and it.feasible(st, z3.Not(ok)):
        f = st.fork()
        f.assume(z3.Not(ok))
        outs.append((f, Panic('attempt to %s with overflow' % op, ctx.fn.name)))
    if z3.is_true(ok) or it.feasible(st, ok):
        st.assume(ok)
        it.store(st, args[0], r)
        outs.append((st, Ret(UNIT)))
    return outs


@summary(r'^<.* as (std::ops::)?(Fn|FnMut|FnOnce)<.*>>::(call|call_mut|call_once)$')
def _fn_call(it, st, args, ctx):
    clo = args[0]
    tup = args[1]
    probe = clo
    while isinstance(probe, Ptr):
        probe = st.heap.get(probe.cell, UNINIT) if not probe.path else it.load(st, probe)
    if probe is UNINIT:
        # a zero-sized (capture-less) closure is never written by MIR: its identity is in the callee's type
        m = re.match(r'^<(\{closure@[^}]*\}) as ', ctx.callee)
        if not m:
            raise Unsupported('call through an uninitialised callee: ' + ctx.callee)
        clo = Agg(m.group(1), [])
    return it.call_closure(st, clo, list(tup.fields), ctx)


@summary(r'^<(u8|u16|u32|u64|u128|usize) as (std::ops::)?(Div|Rem)(<.*>)?>::(div|rem)$')
def _int_div_trait(it, st, args, ctx):
    a, b = deref(it, st, args[0]), deref(it, st, args[1])
    r = z3.UDiv(a, b) if ctx.callee.endswith('div') else z3.URem(a, b)
    return _panic_fork(it, st, b != 0, r, 'attempt to divide by zero', ctx)


# ---------------------------------------------------------------------------
# more of core::num (so that ordinary refactorings of integer code stay inside the encoding)


def _range_fits(v, src_signed, src_bits, dst_signed, dst_bits):
    """condition under which the mathematical value of v (src type) is representable in the dst type"""
    conds = []
    if src_signed and not dst_signed:
        conds.append(v >= 0)
    # upper bound
    dst_max = (1 << (dst_bits - 1)) - 1 if dst_signed else (1 << dst_bits) - 1
    src_max = (1 << (src_bits - 1)) - 1 if src_signed else (1 << src_bits) - 1
    if dst_max < src_max:
        conds.append((v <= bv(dst_max, src_bits)) if src_signed else z3.ULE(v, bv(dst_max, src_bits)))
    if src_signed and dst_signed and dst_bits < src_bits:
        conds.append(v >= bv(-(1 << (dst_bits - 1)), src_bits))
    return z3.And(*conds) if conds else z3.BoolVal(True)


@summary(r'^<(u8|u16|u32|u64|u128|usize|i8|i16|i32|i64|i128) as (std::convert::)?(TryFrom|TryInto)<(\w+)>>::(try_from|try_into)$')
def _int_try_from(it, st, args, ctx):
    m = re.match(r'^<(\w+) as (?:std::convert::)?(TryFrom|TryInto)<(\w+)>>', ctx.callee)
    a, kind, b = m.groups()
    src, dst = (b, a) if kind == 'TryFrom' else (a, b)
    si, di = int_info(src), int_info(dst)
    if not si or not di:
        return NotImplemented
    v = args[0]
    ok = simp(_range_fits(v, si[1], si[0], di[1], di[0]))
    val = int_cast(v, si[1], di[0])
    if z3.is_true(ok):
        return mk_ok(val)
    return EnumV('Result', z3.If(ok, bv(0, 8), bv(1, 8)), {'Ok': (val,), 'Err': (Opaque('TryFromIntError'),)})


@summary(_int_method('abs'))
def _abs(it, st, args, ctx):
    a = args[0]
    bits = a.size()
    mn = bv(1 << (bits - 1), bits)
    # `-self` inside abs inherits the caller's overflow checks (#[rustc_inherit_overflow_checks]); the MIR under check is
    # built with overflow checks on
    return _panic_fork(it, st, a != mn, z3.If(a < 0, -a, a), 'attempt to negate with overflow', ctx)


@summary(_int_method('wrapping_abs'))
def _wrapping_abs(it, st, args, ctx):
    a = args[0]
    return z3.If(a < 0, -a, a)


@summary(_int_method('checked_abs'))
def _checked_abs(it, st, args, ctx):
    a = args[0]
    bits = a.size()
    return mk_option(a != bv(1 << (bits - 1), bits), z3.If(a < 0, -a, a))


@summary(_int_method('abs_diff'))
def _abs_diff(it, st, args, ctx):
    a, b = args
    bits, signed = int_info(self_int_type(ctx))
    lt = (a < b) if signed else z3.ULT(a, b)
    return z3.If(lt, b - a, a - b)


@summary(_int_method('(is_negative|is_positive|signum)'))
def _sign_tests(it, st, args, ctx):
    a = args[0]
    if ctx.callee.endswith('is_negative'):
        return a < 0
    if ctx.callee.endswith('is_positive'):
        return a > 0
    bits = a.size()
    return z3.If(a < 0, bv(-1, bits), z3.If(a == 0, bv(0, bits), bv(1, bits)))


@summary(_int_method('wrapping_neg'))
def _wrapping_neg(it, st, args, ctx):
    return -args[0]


@summary(_int_method('checked_(div|rem)'))
def _checked_divrem(it, st, args, ctx):
    a, b = args
    bits, signed = int_info(self_int_type(ctx))
    if signed:
        raise Unsupported('signed checked_div')
    r = z3.UDiv(a, b) if ctx.callee.endswith('div') else z3.URem(a, b)
    return mk_option(b != 0, r)


@summary(_int_method('overflowing_(sub|mul)'))
def _ovf_submul(it, st, args, ctx):
    a, b = args
    bits, signed = int_info(self_int_type(ctx))
    if signed:
        raise Unsupported('signed overflowing op')
    if ctx.callee.endswith('sub'):
        return Agg('tuple', [a - b, z3.ULT(a, b)])
    return Agg('tuple', [a * b, z3.Not(z3.BVMulNoOverflow(a, b, False))])


@summary(_int_method('(count_ones|trailing_zeros|is_power_of_two)'))
def _bit_counts(it, st, args, ctx):
    a = args[0]
    bits = a.size()
    if ctx.callee.endswith('count_ones'):
        r = bv(0, 32)
        for i in range(bits):
            r = r + z3.ZeroExt(31, z3.Extract(i, i, a))
        return r
    if ctx.callee.endswith('trailing_zeros'):
        r = bv(bits, 32)
        for i in reversed(range(bits)):
            r = z3.If(z3.Extract(i, i, a) == 1, bv(i, 32), r)
        return r
    return z3.And(a != 0, (a & (a - 1)) == 0)


@summary(_int_method('clamp') + r'|^<\w+ as Ord>::clamp$')
def _clamp(it, st, args, ctx):
    a, lo, hi = args
    info = int_info(self_int_type(ctx))
    if info is None:
        return NotImplemented
    lt = (lambda x, y: x < y) if info[1] else z3.ULT
    return _panic_fork(it, st, z3.Not(lt(hi, lo)), z3.If(lt(a, lo), lo, z3.If(lt(hi, a), hi, a)), 'assertion failed: min <= max', ctx)


# ---------------------------------------------------------------------------
# explicit panics (`assert!`, `panic!`, `unreachable!`): the path ends in a Panic outcome


@summary(r'^(core::panicking::)?(panic|panic_fmt|panic_display|panic_str|panic_explicit|unreachable_display)(::<.*>)?$|'
         r'^(core::panicking::)?assert_failed(::<.*>)?$|^std::rt::begin_panic(::<.*>)?$')
def _explicit_panic(it, st, args, ctx):
    msg = 'explicit panic'
    try:
        a0 = args[0]
        if isinstance(a0, Ptr):
            v = it.load(st, a0)
            if isinstance(v, Opaque) and v.kind == 'Str':
                msg = str(v.data[0])
            elif isinstance(v, Agg) and all(z3.is_bv_value(simp(x)) for x in v.fields):
                msg = bytes(simp(x).as_long() for x in v.fields).decode('utf-8', 'replace')
    except Exception:
        pass
    return [(st, Panic(msg, ctx.fn.name if ctx.fn else ''))]


# ---------------------------------------------------------------------------
# std::mem


@summary(r'^(std|core)::mem::replace::<')
def _mem_replace(it, st, args, ctx):
    old = it.load(st, args[0])
    it.store(st, args[0], args[1])
    return old


@summary(r'^(std|core)::mem::take::<')
def _mem_take(it, st, args, ctx):
    old = it.load(st, args[0])
    ty = re.search(r'mem::take::<(.*)>$', ctx.callee).group(1)
    it.store(st, args[0], default_value(it, ty))
    return old


@summary(r'^(std|core)::mem::swap::<')
def _mem_swap(it, st, args, ctx):
    a, b = it.load(st, args[0]), it.load(st, args[1])
    it.store(st, args[0], b)
    it.store(st, args[1], a)
    return UNIT


# ---- process-wide state behind Lazy / Mutex / RwLock: the wrappers are transparent, the contents are an arbitrary input ----

@summary(r'^<(once_cell::sync::|once_cell::unsync::|std::sync::)?(Lazy|LazyLock|LazyCell)<.*> as (std::ops::)?Deref>::deref$|'
         r'^(once_cell::sync::|std::sync::)?(Lazy|LazyLock)::<.*>::force$')
def _lazy_deref(it, st, args, ctx):
    return args[0]


@summary(r'^(parking_lot::)?(lock_api::)?(Mutex|RwLock)::<.*>::(lock|read|write|upgradable_read)$')
def _mutex_lock(it, st, args, ctx):
    """parking_lot: the guard is a handle on the protected value (single-threaded exploration: no contention, no poisoning)"""
    return args[0]


@summary(r'^<(parking_lot::)?(lock_api::)?(MutexGuard|RwLockReadGuard|RwLockWriteGuard|MappedMutexGuard)<.*> as (std::ops::)?Deref(Mut)?>::deref(_mut)?$|'
         r'^<(dashmap::)?(mapref::one::)?(Ref|RefMut)<.*> as (std::ops::)?Deref(Mut)?>::deref(_mut)?$|^(dashmap::)?(mapref::one::)?(Ref|RefMut)::<.*>::value(_mut)?$')
def _guard_deref(it, st, args, ctx):
    g = args[0]
    v = it.load(st, g) if isinstance(g, Ptr) else g
    return v if isinstance(v, Ptr) else g

"""Summaries for melstf's non-std dependencies that kernels touch: imbl maps (StakeSet, TransactionSet),
covenant decode/execute/weight as uninterpreted functions (their real code is the subject of C10-C12),
MelPoW verification, string formatting of hashes."""
import re
import z3

from .interp import (Agg, EnumV, Ptr, Opaque, UNIT, UNINIT, Ret, Panic, Unsupported, bv, simp, mk_some, mk_none,
                     mk_option, mk_ok, mk_err, mk_enum, val_eq, ite_val, to_bool, is_variant, fresh)
from .summaries import summary, deref, fork_enum, _panic_fork
from .collections import MapM, map_of, map_lookup, _mk_mapiter, mk_iter, IterM
from . import models as M

B256 = z3.BitVecSort(256)


# ---- imbl::HashMap / OrdMap share the association-list model -----------------------------------------------

@summary(r'^(imbl::)?(HashMap|OrdMap)::<.*>::(get)::<')
def _imbl_get(it, st, args, ctx):
    mm = map_of(it, st, args[0])
    key = deref(it, st, args[1])
    found, val = map_lookup(mm, key)
    if val is None:
        return mk_none()
    return mk_option(found, Ptr(st.alloc(val)))


@summary(r'^(imbl::)?(HashMap|OrdMap)::<.*>::(contains_key)::<')
def _imbl_contains(it, st, args, ctx):
    mm = map_of(it, st, args[0])
    found, _ = map_lookup(mm, deref(it, st, args[1]))
    return found


@summary(r'^(imbl::)?(HashMap|OrdMap)::<.*>::insert$')
def _imbl_insert(it, st, args, ctx):
    mm = map_of(it, st, args[0])
    found, old = map_lookup(mm, args[1])
    it.store(st, args[0], Opaque('Map', mm.insert(args[1], args[2])))
    return mk_none() if old is None else mk_option(found, old)


@summary(r'^(imbl::)?(HashMap|OrdMap)::<.*>::is_empty$')
def _imbl_is_empty(it, st, args, ctx):
    mm = map_of(it, st, args[0])
    return simp(z3.Not(z3.Or([g for _, _, g in mm.entries]))) if mm.entries else z3.BoolVal(True)


@summary(r'^<(imbl::)?(HashMap|OrdMap)<.*> as (Clone|Default)>::(clone|default)$')
def _imbl_clone(it, st, args, ctx):
    if ctx.callee.endswith('default'):
        return Opaque('Map', MapM(ordered='OrdMap' in ctx.callee))
    return deref(it, st, args[0])


@summary(r'^(imbl::)?HashMap::<.*>::retain::<')
def _imbl_retain(it, st, args, ctx):
    """keeps entries for which the closure holds.  Entries are (key, value) with symbolic keep-conditions: a dropped
    entry becomes a tombstone (value kept, `live` false) -- modelled by filtering with forks (<= 2^n paths)."""
    mm = map_of(it, st, args[0])
    work = [(st, 0, [])]
    outs = []
    while work:
        s, i, kept = work.pop()
        if i == len(mm.entries):
            it.store(s, args[0], Opaque('Map', MapM(kept, mm.ordered)))
            outs.append((s, Ret(UNIT)))
            continue
        k, v, g0 = mm.entries[i]
        kc, vc = s.alloc(k), s.alloc(v)
        for s2, r in it.call_closure(s, args[1], [Ptr(kc), Ptr(vc)], ctx):
            if isinstance(r, Panic):
                outs.append((s2, r))
                continue
            c = simp(to_bool(r.v))
            if not z3.is_false(c) and it.feasible(s2, c):
                s3 = s2 if z3.is_true(c) else s2.fork()
                s3.assume(c)
                work.append((s3, i + 1, kept + [(k, s3.heap[vc], g0)]))
            if not z3.is_true(c) and it.feasible(s2, z3.Not(c)):
                s2.assume(z3.Not(c))
                work.append((s2, i + 1, list(kept)))
    return outs


# ---- TransactionSet ----------------------------------------------------------------------------------------
# (its own MIR is inlined: imbl::OrdMap insert / values / keys are the calls that reach here)

@summary(r'^<TransactionSet as Default>::default$|^<state::txset::TransactionSet as Default>::default$')
def _txset_default(it, st, args, ctx):
    return Agg('TransactionSet', [Opaque('Map', MapM(ordered=True))])


# ---- strings of hashes (faucet grandfathering) -------------------------------------------------------------

@summary(r'^<(melstructs::)?TxHash as ToString>::to_string$')
def _txhash_to_string(it, st, args, ctx):
    v = deref(it, st, args[0])
    return Opaque('HexString', (v.fields[0].fields[0],))


@summary(r'^<(std::string::)?String as PartialEq<&str>>::eq$')
def _string_eq(it, st, args, ctx):
    a = deref(it, st, args[0])
    b = deref(it, st, args[1])
    if isinstance(a, Opaque) and a.kind == 'HexString' and isinstance(b, Opaque) and b.kind == 'str':
        try:
            val = int(b.data, 16)
        except ValueError:
            return z3.BoolVal(False)
        if len(b.data) != 64:
            return z3.BoolVal(False)
        return a.data[0] == bv(val, 256)
    raise Unsupported('string equality %r == %r' % (a, b))


# ---- covenants as uninterpreted functions (C04 uses these; C10-C12 verify the real code) ---------------------

COV_DECODES = z3.Function('cov_decodes', B256, z3.BoolSort())
COV_WEIGHT = z3.Function('cov_weight', B256, z3.BitVecSort(128))
COV_EXEC = z3.Function('cov_exec_true', B256, B256, B256, z3.BoolSort())  # (script id, tx id, env id) -> truthy
COV_RAN = z3.Function('cov_ran', B256, B256, B256, z3.BoolSort())  # (script id, tx id, env id) -> returned a value


def bytes_id(it, st, b):
    b = deref(it, st, b)
    if isinstance(b, Opaque) and b.kind == 'SymBytes':
        return b.data['id']
    if isinstance(b, Agg):
        return M._hash_of_bytes(it, st, 'bytesid', b)
    if isinstance(b, Opaque) and b.kind == 'Ser':
        return M._hash_of_bytes(it, st, 'bytesid', b)
    raise Unsupported('bytes id of %r' % (b,))


@summary(r'^(melvm::)?covenant_weight_from_bytes$')
def _cov_weight(it, st, args, ctx):
    return COV_WEIGHT(bytes_id(it, st, args[0]))


@summary(r'^(melvm::)?Covenant::from_bytes$')
def _cov_from_bytes(it, st, args, ctx):
    bid = bytes_id(it, st, args[0])
    ok = COV_DECODES(bid)
    return EnumV('Result', z3.If(ok, bv(0, 8), bv(1, 8)), {'Ok': (Opaque('Covenant', (bid,)),), 'Err': (Opaque('DecodeError'),)})


@summary(r'^(melvm::)?Covenant::to_ops$')
def _cov_to_ops(it, st, args, ctx):
    cov = deref(it, st, args[0])
    return Opaque('CovOps', (cov.data[0],))


@summary(r'^(melvm::)?Covenant::weight$')
def _cov_weight_method(it, st, args, ctx):
    cov = deref(it, st, args[0])
    return COV_WEIGHT(cov.data[0])


@summary(r'^(melvm::)?Covenant::hash$')
def _cov_hash_method(it, st, args, ctx):
    # decode . encode is the identity on decodable covenants (C12): the hash of the re-encoded covenant is the hash of
    # the bytes it was decoded from
    cov = deref(it, st, args[0])
    from .shapes import address
    return address(M.hash_apply(st, 'single:symbytes', [cov.data[0]]))


@summary(r'^(melvm::)?Covenant::execute$')
def _cov_execute(it, st, args, ctx):
    cov = deref(it, st, args[0])
    tx = deref(it, st, args[1])
    env = args[2]
    txid = M._hash_of_bytes(it, st, 'exec-tx', M.ser('Transaction', tx))
    envid = M._hash_of_bytes(it, st, 'exec-env', M.ser('Env', env))
    st.events.append(('cov_execute', cov.data[0], tx, env))
    truthy = COV_EXEC(cov.data[0], txid, envid)
    # Some(value) whose into_bool() is `truthy`, or None: both folded into one Option<Value-as-bool>
    # whether execution returns a value at all: like the verdict, a function of (script, transaction, environment)
    ran = COV_RAN(cov.data[0], txid, envid)
    return EnumV('Option', z3.If(ran, bv(1, 8), bv(0, 8)), {'Some': (Opaque('VmValue', (z3.And(truthy, ran),)),), 'None': ()})


@summary(r'^(melvm::)?Value::into_bool$')
def _value_into_bool(it, st, args, ctx):
    v = deref(it, st, args[0])
    if isinstance(v, Opaque) and v.kind == 'VmValue':
        return v.data[0]
    return NotImplemented


# ---- MelPoW ------------------------------------------------------------------------------------------------

POW_VALID = z3.Function('melpow_verify', B256, B256, z3.BitVecSort(64), z3.BitVecSort(8), z3.BoolSort())
POW_PARSES = z3.Function('melpow_parses', B256, z3.BoolSort())


@summary(r'^(melpow::)?Proof::from_bytes$')
def _proof_from_bytes(it, st, args, ctx):
    bid = bytes_id(it, st, args[0])
    return mk_option(POW_PARSES(bid), Opaque('Proof', (bid,)))


@summary(r'^(melpow::)?Proof::verify::<')
def _proof_verify(it, st, args, ctx):
    proof = deref(it, st, args[0])
    puzzle = deref(it, st, args[1])
    diff = args[2]
    pz = puzzle.fields[0] if isinstance(puzzle, Agg) and puzzle.ty == 'HashVal' else M._hash_of_bytes(it, st, 'puzzle', puzzle)
    which = 1 if 'Tip910' in ctx.callee else 0
    st.events.append(('pow_verify', proof.data[0], pz, diff, which))
    d64 = diff if diff.size() == 64 else z3.ZeroExt(64 - diff.size(), diff)
    return POW_VALID(proof.data[0], pz, d64, bv(which, 8))


# ---- DOSC inflator table (a memoised recurrence over the height): uninterpreted, bounded ---------------------

INFLATOR = z3.Function('microergs_per_dosc', z3.BitVecSort(64), z3.BitVecSort(128))


@summary(r'^(melmint::)?microergs_per_dosc$')
def _microergs(it, st, args, ctx):
    h = deref(it, st, args[0])
    h = h.fields[0] if isinstance(h, Agg) else h
    v = INFLATOR(h)
    # starts at 10^6 and grows by max(1, v/2e6) per block: >= 10^6 always; < 2^100 for heights < 10^8 (P-HEIGHT)
    st.assume_fact(z3.And(z3.UGE(v, 1000000), z3.ULT(v, 1 << 100)))
    return v


# ---- signatures ----------------------------------------------------------------------------------------------

SIG_VALID = z3.Function('ed25519_valid', B256, B256, B256, z3.BoolSort())  # (public key, message id, signature id)


@summary(r'^(tmelcrypt::)?Ed25519PK::verify$')
def _ed_verify(it, st, args, ctx):
    pk = deref(it, st, args[0])
    msg = deref(it, st, args[1])
    sig = deref(it, st, args[2])
    msg_id = msg.fields[0] if isinstance(msg, Agg) and msg.ty == 'HashVal' else bytes_id(it, st, msg)
    sig_id = bytes_id(it, st, sig)
    st.events.append(('sig_verify', pk.fields[0], msg_id, sig_id))
    return SIG_VALID(pk.fields[0], msg_id, sig_id)


@summary(r'^<(tmelcrypt::)?HashVal as (std::ops::)?Deref>::deref$')
def _hashval_deref(it, st, args, ctx):
    return args[0]

"""Models of hashing, stdcode serialisation and novasmt trees (DESIGN §3).

* hashes: per-domain uninterpreted z3 functions made injective quantifier-free by
  inverse functions (instantiated at every application), with pairwise disjoint ranges
  through a domain tag function  -> assumption A-HASH.
* stdcode: `Ser(ty, value, present)` = the byte string `ser_ty(value)` when `present`, the
  empty string otherwise; deserialising a `Ser` of the same type returns the value
  -> assumption A-CODEC.
* novasmt::Tree: association list of (key term, byte value) over a lazily-sampled
  arbitrary base; two base reads at possibly-equal keys are tied by congruence axioms.
"""
import re
import z3

from .interp import (Agg, EnumV, Ptr, Opaque, UNIT, UNINIT, Ret, Panic, Unsupported, bv, simp, mk_some, mk_none,
                     mk_option, mk_ok, mk_err, mk_enum, val_eq, ite_val, to_bool, is_variant, fresh, disc_term)
from .summaries import summary, deref, default_value

B256 = z3.BitVecSort(256)
DOM = z3.Function('hash_domain', B256, z3.IntSort())
_dom_ids = {}
_hash_fns = {}


def flatten(v, out=None):
    """z3 leaf terms of a structured value, in field order (enum: disc then payload leaves of every variant present)"""
    if out is None:
        out = []
    if isinstance(v, Agg):
        for f in v.fields:
            flatten(f, out)
    elif isinstance(v, EnumV):
        out.append(disc_term(v))
        for name in sorted(v.payloads):
            for f in v.payloads[name]:
                flatten(f, out)
    elif isinstance(v, Opaque):
        fl = getattr(v.data, 'flatten', None)
        if fl:
            fl(out)
        elif isinstance(v.data, tuple):
            for f in v.data:
                if isinstance(f, (Agg, EnumV, Opaque, z3.ExprRef)):
                    flatten(f, out)
        elif v.kind == 'str':
            pass
        else:
            raise Unsupported('flatten opaque %s' % v.kind)
    elif isinstance(v, z3.ExprRef):
        out.append(v)
    elif v is UNINIT:
        raise Unsupported('flatten of uninitialised value')
    elif isinstance(v, (int, bool)):
        out.append(z3.IntVal(int(v)))
    return out


def hash_apply(st, domain, leaves):
    """injective-by-construction hash application; facts are added to the state's path condition"""
    key = (domain, tuple(l.sort().sexpr() for l in leaves))
    if key not in _hash_fns:
        idx = len(_hash_fns) + 1
        name = 'H%d_%s' % (idx, re.sub(r'\W', '_', domain))
        sorts = [l.sort() for l in leaves]
        f = z3.Function(name, *(sorts + [B256]))
        invs = [z3.Function('%s_inv%d' % (name, i), B256, s) for i, s in enumerate(sorts)]
        _hash_fns[key] = (f, invs, idx)
    f, invs, idx = _hash_fns[key]
    if not leaves:
        t = z3.Const('H%d_const' % idx, B256)
    else:
        t = f(*leaves)
    tag = 'hash:' + t.sexpr()
    if tag not in st.notes:
        st.notes[tag] = True
        st.assume(DOM(t) == idx)
        for inv, l in zip(invs, leaves):
            st.assume(inv(t) == l)
    return t


def hash_domain_of(term):
    """domain string of a hash term built by hash_apply (syntactic)"""
    if z3.is_app(term):
        name = term.decl().name()
        for (domain, _), (f, invs, idx) in _hash_fns.items():
            if f.name() == name or name == 'H%d_const' % idx:
                return domain
    return None


# ---------------------------------------------------------------------------
# byte strings


class Ser:
    """bytes = ser_ty(value) if present else empty"""

    def __init__(self, ty, value, present=True):
        self.ty = ty
        self.value = value
        self.present = to_bool(present) if not isinstance(present, bool) else z3.BoolVal(present)

    def sym_eq(self, other):
        return z3.And(self.present == other.present,
                      z3.Implies(self.present, val_eq(self.value, other.value))) if self.ty == other.ty else z3.BoolVal(False)

    def sym_ite(self, c, other):
        if self.ty != other.ty:
            raise Unsupported('ite of Ser %s / %s' % (self.ty, other.ty))
        return Ser(self.ty, ite_val(c, self.value, other.value), z3.If(c, self.present, other.present))

    def flatten(self, out):
        out.append(z3.If(self.present, z3.IntVal(1), z3.IntVal(0)))
        flatten(self.value, out)

    def __repr__(self):
        return 'Ser(%s,%r,%s)' % (self.ty, self.value, self.present)


def ser(ty, value, present=True):
    return Opaque('Ser', Ser(ty, value, present))


EMPTY_BYTES = Agg('Vec', [])


def type_base(ty):
    ty = ty.strip()
    while ty.startswith('&'):
        ty = ty[1:].strip()
        if ty.startswith('mut '):
            ty = ty[4:]
    m = re.match(r'^\((.*)\)$', ty)
    if m:
        return 'tuple'
    return ty.split('<')[0].split('::')[-1]


def bytes_is_empty(it, st, b):
    b = deref(it, st, b)
    if isinstance(b, Agg):
        return z3.BoolVal(len(b.fields) == 0)
    if isinstance(b, Opaque) and b.kind == 'Ser':
        return z3.Not(b.data.present)
    if isinstance(b, Opaque) and b.kind == 'SymBytes':
        return b.data['len'] == 0
    raise Unsupported('is_empty of %r' % (b,))


def bytes_len(it, st, b):
    b = deref(it, st, b)
    if isinstance(b, Agg):
        return bv(len(b.fields), 64)
    if isinstance(b, Opaque) and b.kind == 'Ser':
        tag = 'serlen:' + str(id(b.data))
        n = st.notes.get(tag)
        if n is None:
            n = fresh('serlen', z3.BitVecSort(64))
            st.notes[tag] = n
            st.assume(z3.If(b.data.present, z3.And(z3.UGT(n, 0), z3.ULT(n, 1 << 32)), n == 0))
        return n
    if isinstance(b, Opaque) and b.kind == 'SymBytes':
        return b.data['len']
    raise Unsupported('len of %r' % (b,))


@summary(r'^core::slice::<impl \[u8\]>::is_empty$|^Bytes::is_empty$|^Vec::<u8>::is_empty$')
def _bytes_is_empty(it, st, args, ctx):
    return simp(bytes_is_empty(it, st, args[0]))


@summary(r'^core::slice::<impl \[u8\]>::len$|^Bytes::len$|^Vec::<u8>::len$')
def _bytes_len(it, st, args, ctx):
    return bytes_len(it, st, args[0])


@summary(r'^<.* as (stdcode::)?StdcodeSerializeExt>::stdcode$')
def _stdcode(it, st, args, ctx):
    ty = re.match(r'^<(.*) as (?:stdcode::)?StdcodeSerializeExt>::stdcode$', ctx.callee).group(1)
    return ser(type_base(ty), deref(it, st, args[0]))


@summary(r'^stdcode::serialize::<')
def _serialize(it, st, args, ctx):
    ty = re.match(r'^stdcode::serialize::<(.*)>$', ctx.callee).group(1)
    return mk_ok(ser(type_base(ty), deref(it, st, args[0])))


@summary(r'^stdcode::deserialize::<')
def _deserialize(it, st, args, ctx):
    ty = type_base(re.match(r'^stdcode::deserialize::<(.*)>$', ctx.callee).group(1))
    b = deref(it, st, args[0])
    if isinstance(b, Opaque) and b.kind == 'Ser':
        if b.data.ty == ty:
            # empty input fails to decode
            err = Opaque('BincodeError')
            ok = simp(b.data.present)
            if z3.is_true(ok):
                return mk_ok(b.data.value)
            return EnumV('Result', z3.If(ok, bv(0, 8), bv(1, 8)), {'Ok': (b.data.value,), 'Err': (err,)})
        raise Unsupported('deserialize::<%s> of Ser(%s)' % (ty, b.data.ty))
    hook = it.deser_hooks.get(ty) if hasattr(it, 'deser_hooks') else None
    if hook:
        return hook(it, st, b, ctx)
    raise Unsupported('deserialize::<%s> of %r' % (ty, b))


def _hash_of_bytes(it, st, domain, b):
    b = deref(it, st, b)
    if isinstance(b, Opaque) and b.kind == 'Ser':
        leaves = flatten(b.data.value)
        if not z3.is_true(simp(b.data.present)):
            leaves = [z3.If(b.data.present, z3.IntVal(1), z3.IntVal(0))] + leaves
        return hash_apply(st, '%s:%s' % (domain, b.data.ty), leaves)
    if isinstance(b, Agg):
        if b.ty == 'HashVal':
            return hash_apply(st, domain + ':hashval', [b.fields[0]])
        leaves = flatten(b)
        return hash_apply(st, '%s:bytes%d' % (domain, len(leaves)), leaves)
    if isinstance(b, z3.ExprRef):
        return hash_apply(st, domain + ':' + b.sort().sexpr().replace(' ', ''), [b])
    if isinstance(b, Opaque) and b.kind == 'SymBytes':
        return hash_apply(st, domain + ':symbytes', [b.data['id']])
    raise Unsupported('hash of %r' % (b,))


@summary(r'^(tmelcrypt::)?hash_single::<')
def _hash_single(it, st, args, ctx):
    return Agg('HashVal', [_hash_of_bytes(it, st, 'single', args[0])])


@summary(r'^<.* as (tmelcrypt::)?Hashable>::hash$')
def _hashable_hash(it, st, args, ctx):
    return Agg('HashVal', [_hash_of_bytes(it, st, 'single', args[0])])


@summary(r'^(tmelcrypt::)?hash_keyed::<')
def _hash_keyed(it, st, args, ctx):
    k = deref(it, st, args[0])
    if isinstance(k, Agg) and all(z3.is_bv_value(simp(x)) for x in k.fields):
        ks = bytes(simp(x).as_long() for x in k.fields).decode('latin1')
        dom = 'keyed[%s]' % ks
        return Agg('HashVal', [_hash_of_bytes(it, st, dom, args[1])])
    # symbolic key: hash over both
    kb = _hash_of_bytes(it, st, 'keyed-key', k)
    vb = _hash_of_bytes(it, st, 'keyed-val', args[1])
    return Agg('HashVal', [hash_apply(st, 'keyed2', [kb, vb])])


# ---------------------------------------------------------------------------
# novasmt::Tree


class TreeModel:
    """entries newest-last; base: name of the arbitrary initial tree (None = empty tree)"""

    def __init__(self, base, entries=(), value_types=None, reads=None):
        self.base = base
        self.entries = tuple(entries)
        self.value_types = value_types or {}

    def with_entry(self, k, v):
        return TreeModel(self.base, self.entries + ((k, v),), self.value_types)

    def flatten(self, out):
        raise Unsupported('flatten of a tree (use root_hash)')

    def __repr__(self):
        return 'Tree(%s,+%d)' % (self.base, len(self.entries))


def tree(base, value_types):
    return Opaque('Tree', TreeModel(base, (), value_types))


def base_read(it, st, tm, key):
    """value of the arbitrary initial tree at `key` (lazily sampled, congruence-closed)"""
    if tm.base is None:
        return EMPTY_BYTES
    dom = hash_domain_of(key)
    vty = None
    for pat, ty in tm.value_types.items():
        if dom is not None and re.search(pat, dom):
            vty = ty
            break
    if vty is None:
        raise Unsupported('tree %s read at key of unknown domain %s (%s)' % (tm.base, dom, key.sexpr()[:80]))
    tag = 'base:%s' % tm.base
    reads = st.notes.get(tag, ())
    for (k2, v2) in reads:
        if k2.eq(key):
            return v2
    n = len(reads)
    present = z3.Bool('%s_present_%d' % (tm.base, n))
    val = it.sym_value(vty, '%s_val_%d' % (tm.base, n), st)
    v = ser(vty, val, present)
    for (k2, v2) in reads:
        if hash_domain_of(k2) == dom:
            st.assume(z3.Implies(k2 == key, v2.data.sym_eq(v.data)))
    st.notes[tag] = reads + ((key, v),)
    hook = it.base_read_hooks.get(tm.base) if hasattr(it, 'base_read_hooks') else None
    if hook:
        hook(it, st, key, dom, v)
    return v


def tree_get(it, st, tm, key):
    v = base_read(it, st, tm, key)
    kd = hash_domain_of(key)
    for (k, val) in tm.entries:
        d2 = hash_domain_of(k)
        if kd is not None and d2 is not None and kd != d2:
            continue  # A-HASH: ranges of different hash domains are disjoint (the DOM facts are in the pc as well)
        c = simp(k == key)
        if z3.is_true(c):
            v = val
        elif z3.is_false(c):
            continue
        else:
            v = _ite_bytes(c, val, v)
    return v


def _as_ser(b, ty):
    if isinstance(b, Opaque) and b.kind == 'Ser':
        return b.data
    if isinstance(b, Agg) and len(b.fields) == 0 and ty is not None:
        return None
    return None


def _ite_bytes(c, a, b):
    if isinstance(a, Opaque) and a.kind == 'Ser' and isinstance(b, Agg) and not b.fields:
        return ser(a.data.ty, a.data.value, z3.And(c, a.data.present))
    if isinstance(b, Opaque) and b.kind == 'Ser' and isinstance(a, Agg) and not a.fields:
        return ser(b.data.ty, b.data.value, z3.And(z3.Not(c), b.data.present))
    return ite_val(c, a, b)


def key_term(it, st, k):
    k = deref(it, st, k)
    if isinstance(k, Agg) and k.ty == 'HashVal':
        k = k.fields[0]
    if isinstance(k, z3.ExprRef) and k.sort() == B256:
        return k
    raise Unsupported('tree key %r' % (k,))


@summary(r'^(novasmt::)?Tree::<.*>::get$')
def _tree_get(it, st, args, ctx):
    t = deref(it, st, args[0])
    return tree_get(it, st, t.data, key_term(it, st, args[1]))


@summary(r'^(novasmt::)?Tree::<.*>::insert$')
def _tree_insert(it, st, args, ctx):
    t = deref(it, st, args[0])
    k = key_term(it, st, args[1])
    v = deref(it, st, args[2])
    it.store(st, args[0], Opaque('Tree', t.data.with_entry(k, v)))
    st.events.append(('tree_insert', t.data.base, k, v))
    return UNIT


@summary(r'^<(novasmt::)?Tree<.*> as Clone>::clone$')
def _tree_clone(it, st, args, ctx):
    return deref(it, st, args[0])


def tree_extensional_eq(it, st, ta, tb):
    """z3 Bool: both trees (same base) agree on every key either of them wrote"""
    if ta.base != tb.base:
        raise Unsupported('comparing trees over different bases')
    keys = []
    for k, _ in ta.entries + tb.entries:
        if not any(k.eq(k2) for k2 in keys):
            keys.append(k)
    conj = []
    for k in keys:
        va, vb = tree_get(it, st, ta, k), tree_get(it, st, tb, k)
        conj.append(bytes_eq(va, vb))
    return z3.And(conj) if conj else z3.BoolVal(True)


def bytes_eq(a, b):
    if isinstance(a, Agg) and isinstance(b, Agg):
        return val_eq(a, b)
    if isinstance(a, Opaque) and a.kind == 'Ser' and isinstance(b, Opaque) and b.kind == 'Ser':
        return a.data.sym_eq(b.data)
    if isinstance(a, Opaque) and a.kind == 'Ser' and isinstance(b, Agg):
        return z3.Not(a.data.present) if not b.fields else z3.BoolVal(False)
    if isinstance(b, Opaque) and b.kind == 'Ser' and isinstance(a, Agg):
        return z3.Not(b.data.present) if not a.fields else z3.BoolVal(False)
    return val_eq(a, b)


ROOT = {}


@summary(r'^(novasmt::)?Tree::<.*>::root_hash$')
def _tree_root(it, st, args, ctx):
    """root = uninterpreted function of the tree contents; here: a fresh term per (base, entries) identity,
    made a function of contents by the harness when it compares two trees extensionally."""
    t = deref(it, st, args[0])
    tm = t.data
    key = (tm.base, tuple((k.sexpr(), id(v)) for k, v in tm.entries))
    r = ROOT.get(key)
    if r is None:
        r = fresh('root_%s' % tm.base, B256)
        ROOT[key] = r
        it.roots.append((r, tm)) if hasattr(it, 'roots') else None
    return r

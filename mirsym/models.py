"""Models of hashing, stdcode serialisation and novasmt trees (DESIGN §3).

* hashes: per-domain uninterpreted z3 functions made injective quantifier-free by
  inverse functions (instantiated at every application), with pairwise disjoint ranges
  through a domain tag function  -> assumption A-HASH.
* stdcode: `Ser(ty, value, present)` = the byte string `ser_ty(value)` when `present`, the
  empty string otherwise; deserialising a `Ser` of the same type returns the value
  -> assumption A-CODEC.
* novasmt::Tree: association list of (key term, byte value) over a lazily-sampled
  arbitrary base; two base reads at possibly-equal keys are tied by congruence axioms.
"""
import re
import z3

from .interp import G
from .interp import (Agg, EnumV, Ptr, Opaque, UNIT, UNINIT, Ret, Panic, Unsupported, bv, simp, mk_some, mk_none,
                     mk_option, mk_ok, mk_err, mk_enum, val_eq, ite_val, to_bool, is_variant, fresh, disc_term)
from .summaries import summary, deref, default_value

B256 = z3.BitVecSort(256)
DOM = z3.Function('hash_domain', B256, z3.IntSort())
_atomic_terms = {}
_dom_ids = {}
_hash_fns = {}


def flatten(v, out=None):
    """z3 leaf terms of a structured value, in field order (enum: disc then payload leaves of every variant present)"""
    if out is None:
        out = []
    if isinstance(v, Agg):
        for f in v.fields:
            flatten(f, out)
    elif isinstance(v, EnumV):
        out.append(disc_term(v))
        for name in sorted(v.payloads):
            for f in v.payloads[name]:
                flatten(f, out)
    elif isinstance(v, Opaque):
        fl = getattr(v.data, 'flatten', None)
        if fl:
            fl(out)
        elif isinstance(v.data, tuple):
            for f in v.data:
                if isinstance(f, (Agg, EnumV, Opaque, z3.ExprRef)):
                    flatten(f, out)
        elif v.kind == 'str':
            pass
        else:
            raise Unsupported('flatten opaque %s' % v.kind)
    elif isinstance(v, z3.ExprRef):
        out.append(v)
    elif v is UNINIT:
        raise Unsupported('flatten of uninitialised value')
    elif isinstance(v, (int, bool)):
        out.append(z3.IntVal(int(v)))
    return out


def lift_ite(t, cap=24):
    """alternatives [(guard, atom)] of a term that is a tree of top-level if-then-else nodes"""
    t = simp(t) if not z3.is_app_of(t, z3.Z3_OP_ITE) else t
    out = []

    def walk(x, guards):
        if len(out) > cap:
            return
        if z3.is_app_of(x, z3.Z3_OP_ITE):
            c, a, b = x.arg(0), x.arg(1), x.arg(2)
            walk(a, guards + [c])
            walk(b, guards + [z3.Not(c)])
        else:
            out.append((z3.And(guards) if guards else z3.BoolVal(True), x))
    walk(t, [])
    if len(out) > cap:
        return [(z3.BoolVal(True), t)]
    # merge alternatives with syntactically equal atoms
    merged = []
    for g, a in out:
        for i, (g2, a2) in enumerate(merged):
            if a2.eq(a):
                merged[i] = (z3.Or(g2, g), a2)
                break
        else:
            merged.append((g, a))
    return merged


def hash_apply(st, domain, leaves):
    """injective-by-construction hash application; facts are added to the state's path condition"""
    if domain in getattr(G, 'atomic_domains', ()):
        # abstraction for harnesses that assume the hashed objects pairwise different: one atomic symbol per object
        mk = 'atomic:%s:%s' % (domain, '|'.join(l.sexpr() for l in leaves))
        t = G.memo.get(mk)
        if t is None:
            t = z3.BitVec('H_%s_%d' % (re.sub(r'\W', '_', domain), len([k for k in G.memo if k.startswith('atomic:')])), 256)
            for k2, t2 in list(G.memo.items()):
                if k2.startswith('atomic:%s:' % domain):
                    G.declare_distinct(t, t2)
            G.memo[mk] = t
            _atomic_terms[t.sexpr()] = domain
            akey = (domain, ('atomic',))
            if akey not in _hash_fns:
                idx0 = len(_hash_fns) + 1
                _hash_fns[akey] = (z3.Function('H%d_atomic_%s' % (idx0, re.sub(r'\W', '_', domain)), B256, B256), [], idx0)
            G.add(DOM(t) == _hash_fns[akey][2])
        return t
    key = (domain, tuple(l.sort().sexpr() for l in leaves))
    if key not in _hash_fns:
        idx = len(_hash_fns) + 1
        name = 'H%d_%s' % (idx, re.sub(r'\W', '_', domain))
        sorts = [l.sort() for l in leaves]
        f = z3.Function(name, *(sorts + [B256]))
        invs = [z3.Function('%s_inv%d' % (name, i), B256, s) for i, s in enumerate(sorts)]
        _hash_fns[key] = (f, invs, idx)
    f, invs, idx = _hash_fns[key]
    if not leaves:
        t = z3.Const('H%d_const' % idx, B256)
    else:
        t = f(*leaves)
    tag = 'hash:' + t.sexpr()
    if tag not in G.memo:
        G.memo[tag] = True
        G.add(DOM(t) == idx)
        for inv, l in zip(invs, leaves):
            G.add(inv(t) == l)
    return t


def _hash_decl_names():
    return {f.name(): dom for (dom, _), (f, invs, idx) in _hash_fns.items()}


def hash_eq(a, b):
    """equality of two terms with A-HASH applied as a rewrite: applications of the same hash function are equal iff
    their arguments are; applications of different hash functions are never equal; declared-distinct terms differ"""
    if a.eq(b):
        return z3.BoolVal(True)
    if not (z3.is_bv(a) and z3.is_bv(b)) or a.sort() != b.sort():
        return a == b
    if z3.is_bv_value(a) and z3.is_bv_value(b):
        return z3.BoolVal(a.as_long() == b.as_long())
    if a.size() == 256 and z3.is_app(a) and z3.is_app(b):
        names = _hash_decl_names()
        na, nb = a.decl().name(), b.decl().name()
        if na in names and nb in names:
            if na != nb or a.num_args() != b.num_args():
                return z3.BoolVal(False)
            parts = [hash_eq(a.arg(i), b.arg(i)) for i in range(a.num_args())]
            if any(z3.is_false(p) for p in parts):
                return z3.BoolVal(False)
            parts = [p for p in parts if not z3.is_true(p)]
            return z3.And(parts) if parts else z3.BoolVal(True)
    if G.distinct and (a.sexpr(), b.sexpr()) in G.distinct:
        return z3.BoolVal(False)
    if a.size() == 256:
        da, db = hash_domain_of(a), hash_domain_of(b)
        if da is not None and db is not None and da != db:
            return z3.BoolVal(False)
    return a == b


import mirsym.interp as _interp_mod
_interp_mod.LEAF_EQ = hash_eq


def hash_domain_of(term):
    """domain string of a hash term built by hash_apply (syntactic)"""
    if z3.is_app(term):
        name = term.decl().name()
        if term.num_args() == 0 and term.sexpr() in _atomic_terms:
            return _atomic_terms[term.sexpr()]
        for (domain, _), (f, invs, idx) in _hash_fns.items():
            if f.name() == name or name == 'H%d_const' % idx:
                return domain
    return None


# ---------------------------------------------------------------------------
# byte strings


class Ser:
    """bytes = ser_ty(value) if present else empty"""

    def __init__(self, ty, value, present=True):
        self.ty = ty
        self.value = value
        self.present = to_bool(present) if not isinstance(present, bool) else z3.BoolVal(present)

    def sym_eq(self, other):
        return z3.And(self.present == other.present,
                      z3.Implies(self.present, val_eq(self.value, other.value))) if self.ty == other.ty else z3.BoolVal(False)

    def sym_ite(self, c, other):
        if self.ty != other.ty:
            raise Unsupported('ite of Ser %s / %s' % (self.ty, other.ty))
        return Ser(self.ty, ite_val(c, self.value, other.value), z3.If(c, self.present, other.present))

    def flatten(self, out):
        out.append(z3.If(self.present, z3.IntVal(1), z3.IntVal(0)))
        flatten(self.value, out)

    def __repr__(self):
        return 'Ser(%s,%r,%s)' % (self.ty, self.value, self.present)


def ser(ty, value, present=True):
    return Opaque('Ser', Ser(ty, value, present))


EMPTY_BYTES = Agg('Vec', [])


def type_base(ty):
    ty = ty.strip()
    while ty.startswith('&'):
        ty = ty[1:].strip()
        if ty.startswith('mut '):
            ty = ty[4:]
    m = re.match(r'^\((.*)\)$', ty)
    if m:
        return 'tuple'
    return ty.split('<')[0].split('::')[-1]


def bytes_is_empty(it, st, b):
    b = deref(it, st, b)
    if isinstance(b, Agg):
        return z3.BoolVal(len(b.fields) == 0)
    if isinstance(b, Opaque) and b.kind == 'Ser':
        return z3.Not(b.data.present)
    if isinstance(b, Opaque) and b.kind == 'SymBytes':
        return b.data['len'] == 0
    raise Unsupported('is_empty of %r' % (b,))


def bytes_len(it, st, b):
    b = deref(it, st, b)
    if isinstance(b, Agg):
        return bv(len(b.fields), 64)
    if isinstance(b, Opaque) and b.kind == 'Ser':
        tag = 'serlen:' + b.data.ty + ':' + '|'.join(x.sexpr() for x in flatten(b.data.value))
        n = G.memo.get(tag)
        if n is None:
            n = fresh('serlen', z3.BitVecSort(64))
            G.memo[tag] = n
            G.add(z3.If(b.data.present, z3.And(z3.UGT(n, 0), z3.ULT(n, 1 << 32)), n == 0))
        return n
    if isinstance(b, Opaque) and b.kind == 'SymBytes':
        return b.data['len']
    raise Unsupported('len of %r' % (b,))


@summary(r'^core::slice::<impl \[u8\]>::is_empty$|^Bytes::is_empty$|^Vec::<u8>::is_empty$')
def _bytes_is_empty(it, st, args, ctx):
    return simp(bytes_is_empty(it, st, args[0]))


@summary(r'^core::slice::<impl \[u8\]>::len$|^Bytes::len$|^Vec::<u8>::len$')
def _bytes_len(it, st, args, ctx):
    return bytes_len(it, st, args[0])


def runtime_type(v):
    """type name of a value as seen by the codec model (generic MIR only knows `K` / `V`)"""
    if isinstance(v, Agg):
        return v.ty
    if isinstance(v, EnumV):
        return v.ty
    if isinstance(v, z3.ExprRef) and z3.is_bv(v):
        return 'u%d' % v.size()
    if isinstance(v, Opaque):
        return v.kind
    return 'unknown'


@summary(r'^<.* as (stdcode::)?StdcodeSerializeExt>::stdcode$')
def _stdcode(it, st, args, ctx):
    v = deref(it, st, args[0])
    return ser(runtime_type(v), v)


@summary(r'^stdcode::serialize::<')
def _serialize(it, st, args, ctx):
    v = deref(it, st, args[0])
    return mk_ok(ser(runtime_type(v), v))


@summary(r'^stdcode::deserialize::<')
def _deserialize(it, st, args, ctx):
    ty = type_base(re.match(r'^stdcode::deserialize::<(.*)>$', ctx.callee).group(1))
    b = deref(it, st, args[0])
    if isinstance(b, Opaque) and b.kind == 'Ser':
        if b.data.ty == ty or re.fullmatch(r'[A-Z]', ty) or (ty == 'u64' and b.data.ty == 'u64'):
            # empty input fails to decode
            err = Opaque('BincodeError')
            ok = simp(b.data.present)
            if z3.is_true(ok):
                return mk_ok(b.data.value)
            return EnumV('Result', z3.If(ok, bv(0, 8), bv(1, 8)), {'Ok': (b.data.value,), 'Err': (err,)})
        raise Unsupported('deserialize::<%s> of Ser(%s)' % (ty, b.data.ty))
    hook = it.deser_hooks.get(ty) if hasattr(it, 'deser_hooks') else None
    if hook:
        return hook(it, st, b, ctx)
    if isinstance(b, Opaque) and b.kind == 'SymBytes':
        full = re.match(r'^stdcode::deserialize::<(.*)>$', ctx.callee).group(1)
        return deser_symbytes(it, st, full, b)
    raise Unsupported('deserialize::<%s> of %r' % (ty, b))


class State_for_symvalue:
    """collects the validity constraints sym_value() emits for a value that lives in the global initial state"""

    def __init__(self):
        self.pc = []


def deser_symbytes(it, st, full_ty, b):
    """decoding arbitrary bytes: an arbitrary Result that is a function of the bytes' identity"""
    ident = b.data['id']
    tag = 'deser:' + full_ty
    reads = G.memo.setdefault(tag, [])
    for (i2, ok2, v2) in reads:
        if i2.eq(ident):
            ok, val = ok2, v2
            break
    else:
        n = len(reads)
        nm = re.sub(r'\W+', '_', full_ty)
        ok = fresh('decodes_%s_%d' % (nm, n), z3.BoolSort())
        holder = State_for_symvalue()
        val = it.sym_value(full_ty if full_ty.startswith('(') else type_base(full_ty), 'decoded_%s_%d' % (nm, next(_deser_ctr)), holder)
        for c in holder.pc:
            G.add(c)
        for (i2, ok2, v2) in reads:
            G.add(z3.Implies(i2 == ident, z3.And(ok2 == ok, val_eq(v2, val))))
        reads.append((ident, ok, val))
    # keep the per-state view used by the scenario builder
    st.notes[tag] = tuple(reads)
    return EnumV('Result', z3.If(ok, bv(0, 8), bv(1, 8)), {'Ok': (val,), 'Err': (Opaque('BincodeError'),)})


import itertools as _it
_deser_ctr = _it.count()


def _hash_of_bytes(it, st, domain, b):
    b = deref(it, st, b)
    if isinstance(b, Opaque) and b.kind == 'Ser':
        leaves = flatten(b.data.value)
        if not z3.is_true(simp(b.data.present)):
            leaves = [z3.If(b.data.present, z3.IntVal(1), z3.IntVal(0))] + leaves
        return hash_apply(st, '%s:%s' % (domain, b.data.ty), leaves)
    if isinstance(b, Agg):
        if b.ty == 'HashVal':
            return hash_apply(st, domain + ':hashval', [b.fields[0]])
        leaves = flatten(b)
        return hash_apply(st, '%s:bytes%d' % (domain, len(leaves)), leaves)
    if isinstance(b, z3.ExprRef):
        return hash_apply(st, domain + ':' + b.sort().sexpr().replace(' ', ''), [b])
    if isinstance(b, Opaque) and b.kind == 'SymBytes':
        return hash_apply(st, domain + ':symbytes', [b.data['id']])
    raise Unsupported('hash of %r' % (b,))


@summary(r'^(tmelcrypt::)?hash_single::<')
def _hash_single(it, st, args, ctx):
    return Agg('HashVal', [_hash_of_bytes(it, st, 'single', args[0])])


@summary(r'^<.* as (tmelcrypt::)?Hashable>::hash$')
def _hashable_hash(it, st, args, ctx):
    return Agg('HashVal', [_hash_of_bytes(it, st, 'single', args[0])])


@summary(r'^(tmelcrypt::)?hash_keyed::<')
def _hash_keyed(it, st, args, ctx):
    k = deref(it, st, args[0])
    if isinstance(k, Agg) and all(z3.is_bv_value(simp(x)) for x in k.fields):
        ks = bytes(simp(x).as_long() for x in k.fields).decode('latin1')
        dom = 'keyed[%s]' % ks
        return Agg('HashVal', [_hash_of_bytes(it, st, dom, args[1])])
    # symbolic key: hash over both
    kb = _hash_of_bytes(it, st, 'keyed-key', k)
    vb = _hash_of_bytes(it, st, 'keyed-val', args[1])
    return Agg('HashVal', [hash_apply(st, 'keyed2', [kb, vb])])


# ---------------------------------------------------------------------------
# novasmt::Tree


class TreeModel:
    """entries newest-last: (key term, byte value, guard); an entry only counts when its guard holds (guards come
    from joining states).  base: name of the arbitrary initial tree (None = empty tree)"""

    def __init__(self, base, entries=(), value_types=None, reads=None):
        self.base = base
        self.entries = tuple(e if len(e) == 3 else (e[0], e[1], z3.BoolVal(True)) for e in entries)
        self.value_types = value_types or {}

    def with_entry(self, k, v, g=None):
        g = z3.BoolVal(True) if g is None else g
        return TreeModel(self.base, self.entries + ((k, v, g),), self.value_types)

    def sym_ite(self, c, other):
        if self.base != other.base:
            raise Unsupported('ite of trees over different bases')
        p = 0
        while p < len(self.entries) and p < len(other.entries) and self.entries[p] is other.entries[p]:
            p += 1
        ents = list(self.entries[:p])
        for (k, v, g) in self.entries[p:]:
            ents.append((k, v, simp(z3.And(c, g))))
        for (k, v, g) in other.entries[p:]:
            ents.append((k, v, simp(z3.And(z3.Not(c), g))))
        return TreeModel(self.base, ents, self.value_types)

    def flatten(self, out):
        raise Unsupported('flatten of a tree (use root_hash)')

    def __repr__(self):
        return 'Tree(%s,+%d)' % (self.base, len(self.entries))


def tree(base, value_types):
    return Opaque('Tree', TreeModel(base, (), value_types))


import itertools as _itertools
_base_ctr = _itertools.count()


def base_read(it, st, tm, key):
    """value of the arbitrary initial tree at `key` (lazily sampled, congruence-closed)"""
    if tm.base is None:
        return EMPTY_BYTES
    dom = hash_domain_of(key)
    vty = None
    for pat, ty in tm.value_types.items():
        if dom is not None and re.search(pat, dom):
            vty = ty
            break
    if vty is None:
        raise Unsupported('tree %s read at key of unknown domain %s (%s)' % (tm.base, dom, key.sexpr()[:80]))
    tag = 'base:%s' % tm.base
    reads = G.memo.setdefault(tag, [])
    for (k2, v2) in reads:
        if k2.eq(key):
            _note_read(st, tag, k2, v2)
            return v2
    n = next(_base_ctr)
    present = z3.Bool('%s_present_%d' % (tm.base, n))
    holder = State_for_symvalue()
    val = it.sym_value(vty, '%s_val_%d' % (tm.base, n), holder)
    for c in holder.pc:
        G.add(c)
    v = ser(vty, val, present)
    for (k2, v2) in list(reads):
        pair_axioms(it, st, tm.base, (k2, v2), (key, v))
    reads.append((key, v))
    _note_read(st, tag, key, v)
    hook = it.base_single_hooks.get(tm.base) if hasattr(it, 'base_single_hooks') else None
    if hook:
        hook(it, st, key, dom, v)
    hook = it.base_read_hooks.get(tm.base) if hasattr(it, 'base_read_hooks') else None
    if hook:
        hook(it, st, key, dom, v)
    return v


def _note_read(st, tag, key, v):
    """per-state record of which entries of the initial tree this path looked at (for the scenario builder)"""
    cur = st.notes.get(tag, ())
    if not any(k.eq(key) for k, _ in cur):
        st.notes[tag] = cur + ((key, v),)


def all_base_reads(base):
    return list(G.memo.get('base:%s' % base, []))


def pair_axioms(it, st, base, r1, r2):
    """facts tying two lazily sampled entries of the same arbitrary tree: congruence, plus the harness' invariant"""
    (k1, v1), (k2, v2) = r1, r2
    if hash_domain_of(k1) == hash_domain_of(k2):
        ke = simp(hash_eq(k1, k2))
        if not z3.is_false(ke):
            G.add(z3.Implies(ke, v1.data.sym_eq(v2.data)))
    hook = it.base_pair_hooks.get(base) if hasattr(it, 'base_pair_hooks') else None
    if hook:
        hook(it, st, r1, r2)


def tree_get(it, st, tm, key):
    v = base_read(it, st, tm, key)
    kd = hash_domain_of(key)
    for (k, val, g) in tm.entries:
        d2 = hash_domain_of(k)
        if kd is not None and d2 is not None and kd != d2:
            continue  # A-HASH: ranges of different hash domains are disjoint (the DOM facts are in the pc as well)
        c = simp(z3.And(g, hash_eq(k, key)))
        if z3.is_true(c):
            v = val
        elif z3.is_false(c):
            continue
        else:
            v = _ite_bytes(c, val, v)
    return v


def _as_ser(b, ty):
    if isinstance(b, Opaque) and b.kind == 'Ser':
        return b.data
    if isinstance(b, Agg) and len(b.fields) == 0 and ty is not None:
        return None
    return None


def _ite_bytes(c, a, b):
    if isinstance(a, Opaque) and a.kind == 'Ser' and isinstance(b, Agg) and not b.fields:
        return ser(a.data.ty, a.data.value, z3.And(c, a.data.present))
    if isinstance(b, Opaque) and b.kind == 'Ser' and isinstance(a, Agg) and not a.fields:
        return ser(b.data.ty, b.data.value, z3.And(z3.Not(c), b.data.present))
    return ite_val(c, a, b)


def key_term(it, st, k):
    k = deref(it, st, k)
    if isinstance(k, Agg) and k.ty == 'HashVal':
        k = k.fields[0]
    if isinstance(k, z3.ExprRef) and k.sort() == B256:
        return k
    raise Unsupported('tree key %r' % (k,))


@summary(r'^(novasmt::)?Tree::<.*>::get$')
def _tree_get(it, st, args, ctx):
    t = deref(it, st, args[0])
    return tree_get(it, st, t.data, key_term(it, st, args[1]))


@summary(r'^(novasmt::)?Tree::<.*>::insert$')
def _tree_insert(it, st, args, ctx):
    t = deref(it, st, args[0])
    k = key_term(it, st, args[1])
    v = deref(it, st, args[2])
    it.store(st, args[0], Opaque('Tree', t.data.with_entry(k, v)))
    st.events.append(('tree_insert', t.data.base, k, v))
    return UNIT


@summary(r'^<(novasmt::)?Tree<.*> as Clone>::clone$')
def _tree_clone(it, st, args, ctx):
    return deref(it, st, args[0])


def tree_extensional_eq(it, st, ta, tb):
    """z3 Bool: both trees (same base) agree on every key either of them wrote"""
    if ta.base != tb.base:
        raise Unsupported('comparing trees over different bases')
    keys = []
    for k, _, _g in ta.entries + tb.entries:
        if not any(k.eq(k2) for k2 in keys):
            keys.append(k)
    conj = []
    for k in keys:
        va, vb = tree_get(it, st, ta, k), tree_get(it, st, tb, k)
        conj.append(bytes_eq(va, vb))
    return z3.And(conj) if conj else z3.BoolVal(True)


def bytes_eq(a, b):
    if isinstance(a, Agg) and isinstance(b, Agg):
        return val_eq(a, b)
    if isinstance(a, Opaque) and a.kind == 'Ser' and isinstance(b, Opaque) and b.kind == 'Ser':
        return a.data.sym_eq(b.data)
    if isinstance(a, Opaque) and a.kind == 'Ser' and isinstance(b, Agg):
        return z3.Not(a.data.present) if not b.fields else z3.BoolVal(False)
    if isinstance(b, Opaque) and b.kind == 'Ser' and isinstance(a, Agg):
        return z3.Not(b.data.present) if not a.fields else z3.BoolVal(False)
    return val_eq(a, b)


ROOT = {}


@summary(r'^(novasmt::)?Tree::<.*>::root_hash$')
def _tree_root(it, st, args, ctx):
    """root = uninterpreted function of the tree contents; here: a fresh term per (base, entries) identity,
    made a function of contents by the harness when it compares two trees extensionally."""
    t = deref(it, st, args[0])
    tm = t.data
    key = (tm.base, tuple((k.sexpr(), id(v), g.sexpr()) for k, v, g in tm.entries))
    r = ROOT.get(key)
    if r is None:
        r = fresh('root_%s' % tm.base, B256)
        ROOT[key] = r
        it.roots.append((r, tm)) if hasattr(it, 'roots') else None
    return r


@summary(r'^(novasmt::)?Database::<.*>::get_tree$')
def _db_get_tree(it, st, args, ctx):
    """content-addressed store: the tree whose root hash is the argument (only roots this run has seen)"""
    root = args[1]
    while isinstance(root, Ptr):
        root = it.load(st, root)
    if isinstance(root, Agg) and root.ty == 'HashVal':
        root = root.fields[0]
    if isinstance(root, Agg) and root.ty in ('array', 'bytes') and len(root.fields) == 32:
        root = simp(z3.Concat(*root.fields))
    root_s = simp(root)
    if z3.is_bv_value(root_s) and root_s.as_long() == 0:
        return mk_some(Opaque('Tree', TreeModel(None, (), {})))  # the all-zero root is the empty tree
    for (r, tm) in getattr(it, 'roots', []):
        if r.eq(root):
            st.events.append(('get_tree', r))
            return mk_some(Opaque('Tree', tm))
    raise Unsupported('Database::get_tree of a root no tree of this run hashes to: %s' % root.sexpr()[:80])


@summary(r'^(novasmt::)?Database::<.*>::new$')
def _db_new(it, st, args, ctx):
    return Opaque('Database')


@summary(r'^<(novasmt::)?InMemoryCas as Default>::default$')
def _cas_default(it, st, args, ctx):
    return Opaque('InMemoryCas')


@summary(r'^(novasmt::)?Tree::<.*>::get_with_proof$')
def _tree_get_with_proof(it, st, args, ctx):
    t = deref(it, st, args[0])
    k = key_term(it, st, args[1])
    v = tree_get(it, st, t.data, k)
    st.events.append(('get_with_proof', t.data.base, k))
    return Agg('tuple', [v, Opaque('FullProof', (t.data.base, k))])

"""mirsym core: bounded symbolic execution of rustc MIR over z3 terms.

Values are immutable trees (Agg / EnumV / Ptr / Opaque / z3 terms); a State owns a
heap (cell -> value), a path condition and an event log, and is forked at every
symbolic branch.  Callees are resolved to (1) harness overrides, (2) MIR bodies of any
dumped crate (inlined), (3) library summaries; anything else raises Unsupported and
the check ends *inconclusive*.
"""
import re
import itertools
import time
import z3

from . import mirparse as mp
from .rsadt import base_ident


class Unsupported(Exception):
    pass


class Inconclusive(Exception):
    pass


# ----------------------------------------------------------------------------
# values


class Agg:
    __slots__ = ('ty', 'fields')

    def __init__(self, ty, fields):
        self.ty = ty
        self.fields = tuple(fields)

    def __repr__(self):
        return '%s%r' % (self.ty, self.fields)


class EnumV:
    """disc: python int (concrete) or z3 BV8 term (symbolic); payloads: {variant name: tuple}"""
    __slots__ = ('ty', 'disc', 'payloads')

    def __init__(self, ty, disc, payloads):
        self.ty = ty
        self.disc = disc
        self.payloads = dict(payloads)

    def __repr__(self):
        return '%s#%s%r' % (self.ty, self.disc, self.payloads)


class Ptr:
    __slots__ = ('cell', 'path', 'meta')

    def __init__(self, cell, path=(), meta=None):
        self.cell = cell
        self.path = tuple(path)
        self.meta = meta

    def __repr__(self):
        return 'Ptr(%d,%r)' % (self.cell, self.path)


class Opaque:
    __slots__ = ('kind', 'data')

    def __init__(self, kind, data=None):
        self.kind = kind
        self.data = data

    def __repr__(self):
        return 'Opaque(%s,%r)' % (self.kind, self.data)


class _Uninit:
    def __repr__(self):
        return 'UNINIT'


UNINIT = _Uninit()
UNIT = Agg('()', ())


class Ret:
    def __init__(self, v):
        self.v = v


class Panic:
    def __init__(self, msg, where=''):
        self.msg = msg
        self.where = where

    def __repr__(self):
        return 'Panic(%s @ %s)' % (self.msg, self.where)


_cell_counter = itertools.count(1)
_fresh_counter = itertools.count(1)


def fresh(prefix, sort):
    return z3.Const('%s!%d' % (prefix, next(_fresh_counter)), sort)


class GlobalFacts:
    """unconditional truths about the symbolic inputs of the current harness run (hash axioms, invariants and
    congruence of the lazily sampled initial state, codec facts).  They are not path dependent, so they live outside
    the path conditions and are added to every solver query."""

    def __init__(self):
        self.reset()

    def reset(self):
        self.facts = []
        self.version = 0
        self.memo = {}
        self.atomic_domains = set()
        self.distinct = set()  # pairs of term texts the harness declares different (e.g. hashes of different txs)

    def declare_distinct(self, a, b):
        self.distinct.add((a.sexpr(), b.sexpr()))
        self.distinct.add((b.sexpr(), a.sexpr()))
        self.add(a != b)

    def add(self, c):
        if z3.is_true(c):
            return
        self.facts.append(c)
        self.version += 1


G = GlobalFacts()

_REF_EQ_RX = re.compile(r"^<&(?:'\w+ )?(.+?) as PartialEq(?:<&(?:'\w+ )?(.+)>)?>::(eq|ne)$")


class State:
    __slots__ = ('heap', 'pc', 'events', 'counters', 'notes', 'facts', 'models')

    def __init__(self):
        self.heap = {}
        self.pc = []
        self.models = []  # cached solver models that satisfy the whole pc (feasibility shortcuts)
        self.facts = []  # unconditional truths about the inputs (hash axioms, sampled-state invariants): kept by joins
        self.events = []
        self.counters = {}
        self.notes = {}

    def fork(self):
        s = State()
        s.heap = dict(self.heap)
        s.pc = list(self.pc)
        s.events = list(self.events)
        s.counters = dict(self.counters)
        s.notes = dict(self.notes)
        s.facts = list(self.facts)
        s.models = list(self.models)
        return s

    def alloc(self, v=UNINIT):
        c = next(_cell_counter)
        self.heap[c] = v
        return c

    def _filter_models(self, cond):
        if self.models:
            self.models = [m for m in self.models if z3.is_true(m.eval(cond, model_completion=True))]

    def assume(self, cond):
        if not z3.is_true(cond):
            self.pc.append(cond)
            self._filter_models(cond)

    def assume_fact(self, cond):
        """a fact about the symbolic inputs that holds on every path (never path-dependent)"""
        if not z3.is_true(cond):
            G.add(cond)
            self._filter_models(cond)

    def count(self, key, n=1):
        self.counters[key] = self.counters.get(key, 0) + n


# ----------------------------------------------------------------------------
# type helpers

INT_TYPES = {'u8': (8, False), 'u16': (16, False), 'u32': (32, False), 'u64': (64, False), 'u128': (128, False),
             'usize': (64, False), 'i8': (8, True), 'i16': (16, True), 'i32': (32, True), 'i64': (64, True),
             'i128': (128, True), 'isize': (64, True), 'char': (32, False)}


def int_info(ty):
    ty = ty.strip()
    return INT_TYPES.get(ty)


def strip_ref(ty):
    ty = ty.strip()
    if ty.startswith('&'):
        ty = ty[1:].lstrip()
        if ty.startswith("'"):
            ty = ty.split(' ', 1)[1]
        if ty.startswith('mut '):
            ty = ty[4:]
        return ty
    if ty.startswith('*const '):
        return ty[7:]
    if ty.startswith('*mut '):
        return ty[5:]
    if ty.startswith('Box<') or ty.startswith('std::boxed::Box<'):
        return ty[ty.index('<') + 1:-1]
    return ty


def elem_type(ty):
    ty = ty.strip()
    if ty.startswith('['):
        inner = ty[1:-1]
        parts = mp.split_top(inner, ';')
        return parts[0]
    m = re.match(r'^(?:std::vec::)?Vec<(.*)>$', ty)
    if m:
        return mp.split_top(m.group(1))[0]
    return '?'


def bv(val, bits):
    return z3.BitVecVal(val, bits)


def is_concrete(e):
    return isinstance(e, int) or z3.is_bv_value(e) or z3.is_true(e) or z3.is_false(e) or z3.is_int_value(e)


def simp(e):
    return z3.simplify(e)


def to_bool(v):
    if isinstance(v, bool):
        return z3.BoolVal(v)
    return v


# ----------------------------------------------------------------------------
# structural helpers over values


def val_eq(a, b):
    """structural equality as a z3 Bool"""
    if isinstance(a, Agg) and isinstance(b, Agg):
        if len(a.fields) != len(b.fields):
            return z3.BoolVal(False)
        return z3.And([val_eq(x, y) for x, y in zip(a.fields, b.fields)]) if a.fields else z3.BoolVal(True)
    if isinstance(a, EnumV) and isinstance(b, EnumV):
        da, db = disc_term(a), disc_term(b)
        conj = [da == db]
        for name in set(a.payloads) & set(b.payloads):
            pa, pb = a.payloads[name], b.payloads[name]
            if pa or pb:
                dv = a._discof(name) if hasattr(a, '_discof') else None
                conj.append(z3.Implies(_is_variant(a, name), z3.And([val_eq(x, y) for x, y in zip(pa, pb)])))
        return z3.And(conj)
    if isinstance(a, Opaque) and a.kind == 'SymBytes' and isinstance(b, Agg):
        from .shapes import concrete_bytes_as_sym
        b2 = concrete_bytes_as_sym(b)
        if b2 is not None:
            return val_eq(a, b2)
    if isinstance(b, Opaque) and b.kind == 'SymBytes' and isinstance(a, Agg):
        return val_eq(b, a)
    if isinstance(a, Opaque) and isinstance(b, Opaque):
        if a.kind != b.kind:
            return z3.BoolVal(False)
        eq = getattr(a.data, 'sym_eq', None)
        if eq:
            return eq(b.data)
        if isinstance(a.data, tuple) and isinstance(b.data, tuple) and len(a.data) == len(b.data):
            return z3.And([val_eq(x, y) for x, y in zip(a.data, b.data)]) if a.data else z3.BoolVal(True)
        return z3.BoolVal(a.data == b.data)
    if isinstance(a, Ptr) and isinstance(b, Ptr):
        return z3.BoolVal(a.cell == b.cell and a.path == b.path)
    if isinstance(a, (int, bool)) and isinstance(b, (int, bool)):
        return z3.BoolVal(a == b)
    if a is UNINIT or b is UNINIT:
        return z3.BoolVal(a is b)
    if isinstance(a, str) or isinstance(b, str) or isinstance(a, bytes) or isinstance(b, bytes):
        return z3.BoolVal(a == b)
    if LEAF_EQ is not None and isinstance(a, z3.ExprRef) and isinstance(b, z3.ExprRef):
        return LEAF_EQ(a, b)
    return a == b


LEAF_EQ = None  # set by models: equality of leaves that applies hash injectivity / disjointness as a rewrite

_ADTS = None  # set by Interp


def variant_disc(ty, name):
    return _ADTS.get(ty).variant(name)[1]


def disc_term(e):
    if isinstance(e.disc, int):
        return z3.BitVecVal(e.disc, 8)
    return e.disc


def _is_variant(e, name):
    d = variant_disc(e.ty, name)
    if isinstance(e.disc, int):
        return z3.BoolVal(e.disc == d)
    return e.disc == z3.BitVecVal(d, 8)


def is_variant(e, name):
    return _is_variant(e, name)


def ite_val(c, a, b):
    """structural if-then-else; shapes must agree"""
    if z3.is_true(c):
        return a
    if z3.is_false(c):
        return b
    if a is b:
        return a
    if isinstance(a, Agg) and isinstance(b, Agg) and len(a.fields) == len(b.fields):
        return Agg(a.ty, [ite_val(c, x, y) for x, y in zip(a.fields, b.fields)])
    if isinstance(a, EnumV) and isinstance(b, EnumV):
        disc = z3.If(c, disc_term(a), disc_term(b))
        disc = simp(disc)
        if z3.is_bv_value(disc):
            disc = disc.as_signed_long() if a.ty == 'Ordering' else disc.as_long()
        pl = {}
        for name in set(a.payloads) | set(b.payloads):
            if name in a.payloads and name in b.payloads:
                pl[name] = tuple(ite_val(c, x, y) for x, y in zip(a.payloads[name], b.payloads[name]))
            else:
                pl[name] = a.payloads.get(name, b.payloads.get(name))
        return EnumV(a.ty, disc, pl)
    if isinstance(a, Opaque) and isinstance(b, Opaque) and a.kind == b.kind:
        ite = getattr(a.data, 'sym_ite', None)
        if ite:
            return Opaque(a.kind, ite(c, b.data))
        if isinstance(a.data, tuple) and isinstance(b.data, tuple) and len(a.data) == len(b.data):
            return Opaque(a.kind, tuple(ite_val(c, x, y) for x, y in zip(a.data, b.data)))
        if a.data == b.data:
            return a
    if a is UNINIT:
        return b
    if b is UNINIT:
        return a
    if isinstance(a, Opaque) and a.kind == 'SymBytes' and isinstance(b, Agg):
        from .shapes import concrete_bytes_as_sym
        b2 = concrete_bytes_as_sym(b)
        if b2 is not None:
            return ite_val(c, a, b2)
    if isinstance(b, Opaque) and b.kind == 'SymBytes' and isinstance(a, Agg):
        from .shapes import concrete_bytes_as_sym
        a2 = concrete_bytes_as_sym(a)
        if a2 is not None:
            return ite_val(c, a2, b)
    if isinstance(a, Ptr) and isinstance(b, Ptr) and a.cell == b.cell and a.path == b.path:
        return a
    if isinstance(a, (z3.ExprRef,)) and isinstance(b, (z3.ExprRef,)):
        return z3.If(c, a, b)
    if isinstance(a, (int, bool, str, bytes)) and a == b:
        return a
    raise Unsupported('ite over mismatching shapes: %r / %r' % (a, b))


def mk_enum(ty, variant, fields=()):
    return EnumV(ty, variant_disc(ty, variant), {variant: tuple(fields)})


def mk_some(v):
    return mk_enum('Option', 'Some', (v,))


def mk_none():
    return mk_enum('Option', 'None')


def mk_option(cond, v):
    """Option that is Some(v) iff cond"""
    cond = simp(to_bool(cond))
    if z3.is_true(cond):
        return mk_some(v)
    if z3.is_false(cond):
        return mk_none()
    return EnumV('Option', z3.If(cond, bv(1, 8), bv(0, 8)), {'Some': (v,), 'None': ()})


def mk_ok(v):
    return mk_enum('Result', 'Ok', (v,))


def mk_err(v):
    return mk_enum('Result', 'Err', (v,))


# ----------------------------------------------------------------------------


class Ctx:
    def __init__(self, interp, fn, dest_ty, arg_tys, callee):
        self.interp = interp
        self.fn = fn
        self.dest_ty = dest_ty
        self.arg_tys = arg_tys
        self.callee = callee


class Interp:
    def __init__(self, funcs, consts, adts, summaries, solver_timeout_ms=60000, unwind=40):
        global _ADTS
        _ADTS = adts
        self.funcs = funcs  # name -> [Function]
        self.consts = consts
        self.adts = adts
        self.summaries = summaries  # list of (compiled regex, fn)
        self.overrides = []  # harness-specific, same shape, tried first
        self.unwind = unwind
        self.timeout = solver_timeout_ms
        self.stats = {'blocks': 0, 'calls': 0, 'solver_calls': 0, 'solver_s': 0.0, 'forks': 0, 'paths': 0}
        self.functions_encoded = set()
        self.summaries_used = set()
        self._index()
        self.max_depth = 200
        self.trace = False

    # ---- function index -----------------------------------------------------
    def _index(self):
        self.by_last = {}
        self.closures = {}
        self.fn_self = {}
        for name, lst in self.funcs.items():
            for fn in lst:
                last = self._last_seg(name)
                self.by_last.setdefault(last, []).append(fn)
                if fn.param_types and '{closure@' in fn.param_types[0] and '{closure#' in name.split('::')[-1]:
                    m = re.search(r'\{closure@([^}]*)\}', fn.param_types[0])
                    self.closures[m.group(1)] = fn
                fn.self_ty, fn.trait = self._impl_self_of(fn)

    @staticmethod
    def _last_seg(name):
        # strip trailing generics, take last path segment not inside <>
        segs = Interp._segments(name)
        return segs[-1]

    @staticmethod
    def _segments(name):
        segs, depth, cur = [], 0, []
        i = 0
        while i < len(name):
            c = name[i]
            if c in '<([{':
                depth += 1
            elif c in ')]}' or (c == '>' and name[i - 1] not in '-='):
                depth -= 1
            if depth == 0 and name.startswith('::', i):
                segs.append(''.join(cur))
                cur = []
                i += 2
                continue
            cur.append(c)
            i += 1
        segs.append(''.join(cur))
        while len(segs) > 1 and segs[-1].startswith('<') and not segs[-1].startswith('<impl at'):
            segs.pop()  # trailing turbofish, e.g. `weight::<impl Fn(&[u8]) -> u128>`
        # drop turbofish segments like `<C>`
        segs = [s for s in segs if not (s.startswith('<') and s.endswith('>') and ' as ' not in s and 'impl' not in s)]
        return segs

    def _impl_self_of(self, fn):
        m = None
        for m in re.finditer(r'<impl at ([^:>]+):(\d+):\d+: \d+:\d+>', fn.name):
            pass
        if not m:
            return (None, None)
        path, line = m.group(1), int(m.group(2))
        if not path.startswith('/'):
            path = self.src_root + '/' + path if hasattr(self, 'src_root') else path
        return self.adts.impl_self(self._abs(path), line)

    def _abs(self, path):
        if path.startswith('/'):
            return path
        import os
        return os.environ.get('VERIF_REPO', '/repo') + '/' + path

    def resolve(self, callee, nargs, cur_fn):
        """callee text at a call site -> Function or None"""
        c = callee.strip()
        self_ty, trait = None, None
        if re.match(r'^(core|std|alloc|stdcode|tmelcrypt|novasmt|bytes|num|rayon|imbl|hex|log|serde|bincode|ethnum|'
                    r'catvec|melpow|tap|parking_lot|once_cell|blake3|genawaiter|dashmap|smallvec)::', c):
            return None
        if c.startswith('<'):
            k = mp.match_close(c, 0)
            inner = c[1:k]
            rest = c[k + 1:]
            parts = inner.rsplit(' as ', 1)
            self_ty = base_ident(parts[0])
            if len(parts) == 2:
                trait = base_ident(parts[1])
            segs = self._segments(rest.lstrip(':'))
            method = segs[-1]
        else:
            segs = self._segments(c)
            method = segs[-1]
            if len(segs) >= 2:
                prev = segs[-2]
                mi = re.match(r'^<impl (.*)>$', prev)
                if mi:
                    self_ty = base_ident(mi.group(1))
                else:
                    self_ty = base_ident(prev)
                    if self_ty and not (self_ty[0].isupper() or self_ty.startswith('[')):
                        # previous segment is a module or a function (closures)
                        self_ty = None
        method = re.sub(r'::<.*$', '', method)
        cands = self.by_last.get(method, [])
        if '{closure#' in method:
            # closure bodies are addressed through their parent path
            cands = [f for f in cands if self._segments(f.name)[-2:] == segs[-2:]] or cands
        cands = [f for f in cands if f.nparams == nargs and not f.is_const]
        if not cands:
            return None
        if self_ty:
            m = [f for f in cands if f.self_ty == self_ty]
            if trait and len(m) > 1:
                m2 = [f for f in m if f.trait == trait or (f.trait == 'derive')]
                if m2:
                    m = m2
            if not m:
                return None
            cands = m
        else:
            cands = [f for f in cands if '<impl at' not in f.name]
            if not cands:
                return None
        if len(cands) == 1:
            return cands[0]
        if len(cands) > 1:
            # same crate as the caller first
            same = [f for f in cands if cur_fn is not None and f.crate == cur_fn.crate]
            if len(same) == 1:
                return same[0]
            raise Unsupported('ambiguous callee %s -> %s' % (callee, [f.name[-80:] for f in cands][:6]))
        return None

    # ---- solver -------------------------------------------------------------
    def check_sat(self, pc, extra=None, timeout=None, want_model=False):
        """incremental: one solver whose assertion stack mirrors the current path-condition prefix"""
        t0 = time.time()
        if self._inc is None or self._inc_nfacts > len(G.facts) or self._inc_gid != id(G.facts):
            self._inc = z3.Solver()
            self._inc_stack = []
            self._inc_nfacts = 0
            self._inc_gid = id(G.facts)
        if self._inc_nfacts < len(G.facts):
            # new global facts go to the base level: drop the path-condition scopes, add, let them be re-pushed
            if self._inc_stack:
                self._inc.pop(len(self._inc_stack))
                del self._inc_stack[:]
            for c in G.facts[self._inc_nfacts:]:
                self._inc.add(c)
            self._inc_nfacts = len(G.facts)
        s = self._inc
        stack = self._inc_stack
        n = 0
        while n < len(stack) and n < len(pc) and stack[n] is pc[n]:
            n += 1
        if n < len(stack):
            s.pop(len(stack) - n)
            del stack[n:]
        for c in pc[n:]:
            s.push()
            s.add(c)
            stack.append(c)
        s.set('timeout', timeout or self.timeout)
        s.push()
        if extra is not None:
            s.add(extra)
        r = s.check()
        reason = s.reason_unknown() if r == z3.unknown else ''
        model = s.model() if (want_model and r == z3.sat) else None
        s.pop()
        self.stats['solver_calls'] += 1
        dt = time.time() - t0
        self.stats['solver_s'] += dt
        if self.trace_solver:
            self.trace_solver.append((round(dt, 3), len(pc), str(r), str(extra)[:100].replace('\n', ' ')))
        if r == z3.unknown:
            raise Inconclusive('solver returned unknown (%s) during path exploration' % reason)
        if model is not None:
            return model
        return r == z3.sat

    _inc = None
    _inc_version = -1
    _inc_nfacts = 0
    _inc_gid = 0

    def feasible(self, st, cond):
        cond = simp(to_bool(cond))
        if z3.is_true(cond):
            return True
        if z3.is_false(cond):
            return False
        if self.lazy:
            return True
        if self.lazy_rx is not None and self._fn_stack and self.lazy_rx.search(self._fn_stack[-1]):
            return True
        for m in st.models:
            if z3.is_true(m.eval(cond, model_completion=True)):
                self.stats['model_hits'] = self.stats.get('model_hits', 0) + 1
                return True
        if self.arith_feasibility:
            from . import intify
            res, payload, _ = intify.solve(list(st.pc) + list(G.facts) + [cond], 1500, quick=True)
            self.stats['feas_int'] = self.stats.get('feas_int', 0) + 1
            if res == 'unsat':
                return False
            if res == 'sat':
                return True
            if payload and 'not in the integer fragment' not in str(payload):
                # undecided non-linear query: keep the branch (over-approximates the explored paths; obligations re-decide)
                self.stats['feas_unknown'] = self.stats.get('feas_unknown', 0) + 1
                return True
        try:
            t0 = time.time()
            key = self._fn_stack[-1][-50:] if self._fn_stack else '?'
            r = self.check_sat(st.pc, cond, timeout=self.feas_timeout, want_model=True)
            e = self.feas_by_fn.setdefault(key, [0, 0.0])
            e[0] += 1
            e[1] += time.time() - t0
            if r is not False and r is not True:
                if len(st.models) < 6:
                    st.models.append(r)
                return True
            return r
        except Inconclusive:
            try:
                r = self.check_sat(st.pc, cond, timeout=self.feas_timeout * 12)
                self.stats['feas_retry'] = self.stats.get('feas_retry', 0) + 1
                return bool(r) if isinstance(r, bool) else True
            except Inconclusive:
                pass
            # undecided within the feasibility budget: keep the branch.  This only over-approximates the
            # set of explored paths; obligations re-decide reachability with the full budget.
            self.stats['feas_unknown'] = self.stats.get('feas_unknown', 0) + 1
            return True

    feas_timeout = 400
    arith_feasibility = False  # set by checks whose kernels mix machine integers with num::BigInt

    trace_solver = None
    lazy = False  # lazy mode: branches are pruned only syntactically; infeasible paths carry an unsat pc

    # ---- memory -------------------------------------------------------------
    def read_path(self, v, path, st=None):
        for el in path:
            k = el[0]
            if v is UNINIT:
                raise Unsupported('read through uninitialised value at %r' % (path,))
            if k == 'f':
                if isinstance(v, Agg):
                    v = v.fields[el[1]]
                elif isinstance(v, Opaque) and hasattr(v.data, 'field'):
                    v = v.data.field(el[1])
                else:
                    raise Unsupported('field %r of %r' % (el, v))
            elif k == 'v':
                if not isinstance(v, EnumV):
                    raise Unsupported('downcast of non-enum %r' % (v,))
                if el[1] not in v.payloads:
                    raise Unsupported('downcast %s to absent payload %s' % (v, el[1]))
                v = Agg('variant', v.payloads[el[1]])
            elif k == 'i':
                idx = el[1]
                if not isinstance(v, Agg):
                    if isinstance(v, Opaque) and hasattr(v.data, 'index'):
                        v = v.data.index(idx)
                        continue
                    raise Unsupported('index into %r' % (v,))
                if isinstance(idx, int):
                    v = v.fields[idx]
                else:
                    idx = simp(idx)
                    if z3.is_bv_value(idx):
                        v = v.fields[idx.as_long()]
                    else:
                        if not v.fields:
                            raise Unsupported('symbolic index into empty sequence')
                        acc = v.fields[-1]
                        for j in range(len(v.fields) - 2, -1, -1):
                            acc = ite_val(idx == bv(j, idx.size()), v.fields[j], acc)
                        v = acc
            elif k == 'sub':
                a, b = el[1], el[2]
                v = Agg(v.ty, v.fields[a:len(v.fields) - b if el[3] else b])
            else:
                raise Unsupported('path elem %r' % (el,))
        return v

    def write_path(self, v, path, new):
        if not path:
            return new
        el = path[0]
        k = el[0]
        if k == 'f':
            if not isinstance(v, Agg):
                if v is UNINIT:
                    raise Unsupported('field write into uninit')
                raise Unsupported('field write into %r' % (v,))
            fs = list(v.fields)
            fs[el[1]] = self.write_path(fs[el[1]], path[1:], new)
            return Agg(v.ty, fs)
        if k == 'v':
            pl = dict(v.payloads)
            inner = self.write_path(Agg('variant', pl[el[1]]), path[1:], new)
            pl[el[1]] = inner.fields
            return EnumV(v.ty, v.disc, pl)
        if k == 'i':
            idx = el[1]
            if not isinstance(idx, int):
                idx = simp(idx)
                if z3.is_bv_value(idx):
                    idx = idx.as_long()
            fs = list(v.fields)
            if isinstance(idx, int):
                fs[idx] = self.write_path(fs[idx], path[1:], new)
            else:
                for j in range(len(fs)):
                    fs[j] = ite_val(idx == bv(j, idx.size()), self.write_path(fs[j], path[1:], new), fs[j])
            return Agg(v.ty, fs)
        if k == 'sub':
            a, b, from_end = el[1], el[2], el[3]
            hi = len(v.fields) - b if from_end else b
            inner = self.write_path(Agg(v.ty, v.fields[a:hi]), path[1:], new)
            if len(inner.fields) != hi - a:
                raise Unsupported('sub-slice write changes the length')
            return Agg(v.ty, v.fields[:a] + inner.fields + v.fields[hi:])
        raise Unsupported('write path elem %r' % (el,))

    def load(self, st, ptr):
        return self.read_path(st.heap[ptr.cell], ptr.path, st)

    def store(self, st, ptr, v):
        st.heap[ptr.cell] = self.write_path(st.heap[ptr.cell], ptr.path, v)

    # ---- places -------------------------------------------------------------
    def place_ptr(self, st, frame, place):
        """resolve a Place to a Ptr (following derefs)"""
        ptr = Ptr(frame[place.local])
        for el in place.proj:
            k = el[0]
            if k == 'deref':
                v = self.load(st, ptr)
                if isinstance(v, Ptr):
                    ptr = v
                elif isinstance(v, Opaque) and v.kind == 'Box':
                    ptr = v.data
                else:
                    raise Unsupported('deref of %r' % (v,))
            elif k == 'field':
                ptr = Ptr(ptr.cell, ptr.path + (('f', el[1]),))
            elif k == 'downcast':
                ptr = Ptr(ptr.cell, ptr.path + (('v', el[1]),))
            elif k == 'index':
                idx = st.heap[frame[el[1]]]
                ptr = Ptr(ptr.cell, ptr.path + (('i', idx),))
            elif k == 'constindex':
                if el[2]:
                    cur = self.load(st, ptr)
                    ptr = Ptr(ptr.cell, ptr.path + (('i', len(cur.fields) - el[1]),))
                else:
                    ptr = Ptr(ptr.cell, ptr.path + (('i', el[1]),))
            elif k == 'subslice':
                ptr = Ptr(ptr.cell, ptr.path + (('sub', el[1], el[2], el[3]),))
            else:
                raise Unsupported('projection %r' % (el,))
        return ptr

    def place_type(self, fn, place):
        ty = fn.local_types.get(place.local, '?')
        for el in place.proj:
            k = el[0]
            if k == 'deref':
                ty = strip_ref(ty)
            elif k == 'field':
                ty = el[2]
            elif k == 'downcast':
                pass
            elif k in ('index', 'constindex'):
                ty = elem_type(ty)
        return ty

    def operand_type(self, fn, op):
        if op.kind == 'const':
            m = re.search(r'_(u8|u16|u32|u64|u128|usize|i8|i16|i32|i64|i128|isize)$', op.const)
            if m:
                return m.group(1)
            m = self._re_minmax.match(op.const)
            if m:
                return m.group(1)
            if op.const in ('true', 'false'):
                return 'bool'
            return '?'
        return self.place_type(fn, op.place)

    def eval_operand(self, st, frame, fn, op, want_ty=None):
        if op.kind in ('copy', 'move'):
            ptr = self.place_ptr(st, frame, op.place)
            v = self.load(st, ptr)
            if v is UNINIT:
                raise Unsupported('use of uninitialised %r in %s' % (op.place, fn.name))
            return v
        return self.eval_const(st, fn, op.const, want_ty)

    _re_int = re.compile(r'^(-?\d+)_(u8|u16|u32|u64|u128|usize|i8|i16|i32|i64|i128|isize)$')
    _re_minmax = re.compile(r'^(?:core::num::<impl )?(u8|u16|u32|u64|u128|usize|i8|i16|i32|i64|i128|isize)>?::(MIN|MAX)$')

    def eval_const(self, st, fn, text, want_ty=None):
        t = text.strip()
        m = self._re_int.match(t)
        if m:
            bits, _ = INT_TYPES[m.group(2)]
            return bv(int(m.group(1)), bits)
        m = self._re_minmax.match(t)
        if m:
            bits, signed = INT_TYPES[m.group(1)]
            if m.group(2) == 'MAX':
                return bv((1 << (bits - 1)) - 1 if signed else (1 << bits) - 1, bits)
            return bv(-(1 << (bits - 1)) if signed else 0, bits)
        m = re.match(r'^(?:ethnum::)?U256::(ONE|ZERO|MAX)$', t)
        if m:
            return bv({'ONE': 1, 'ZERO': 0, 'MAX': (1 << 256) - 1}[m.group(1)], 256)
        if t == 'true':
            return z3.BoolVal(True)
        if t == 'false':
            return z3.BoolVal(False)
        if t == '()':
            return UNIT
        if t.startswith('"'):
            return Ptr(st.alloc(Opaque('str', _unescape_str(t))))
        if t.startswith('b"'):
            bs = _unescape_bytes(t[1:])
            return Ptr(st.alloc(Agg('bytes', [bv(b, 8) for b in bs])))
        if t.startswith("'"):
            s = _unescape_str('"' + t[1:-1] + '"')
            return bv(ord(s), 32)
        if t.startswith('ZeroSized: '):
            ty = t[11:]
            if ty.startswith('{closure@'):
                return Agg(ty, ())
            return Opaque('fnitem', ty)
        m = re.search(r'promoted\[(\d+)\]$', t)
        if m:
            return self.eval_promoted(st, fn, int(m.group(1)))
        m = re.match(r'^\{(alloc\d+): &(.*)\}$', t)
        if m and re.search(r'\b(Lazy|Mutex|RwLock|RefCell|OnceCell|Atomic\w+)\b', m.group(2)):
            # a reference to a process-wide mutable static: whatever earlier calls in this process left there is an INPUT of
            # the function under analysis (arbitrary contents, bounded), not part of its result
            return self.static_ref(st, fn.crate + ':' + m.group(1), m.group(2))
        # named constant
        v = self.eval_named_const(st, fn, t, want_ty)
        if v is not None:
            return v
        # fn items / constructors used as values
        return Opaque('fnitem', t)

    def static_ref(self, st, key, ty):
        """pointer to the cell modelling a mutable static (one cell per static and path, contents arbitrary at first use)"""
        cells = st.notes.get('statics') or {}
        if key not in cells or cells[key] not in st.heap:
            from .collections import MapM
            m = re.search(r'(?:Hash|Dash|BTree)Map<([^,]+), ([^,>]+)', ty)
            if not m:
                raise Unsupported('mutable static of type %s (only maps are modelled)' % ty)
            kt, vt = m.group(1).strip(), m.group(2).strip()
            mm = MapM()
            for i in range(2):
                k = self.sym_value(kt, 'static_%s_key%d' % (key.replace(':', '_'), i), st)
                v = self.sym_value(vt, 'static_%s_val%d' % (key.replace(':', '_'), i), st)
                mm = mm.insert(k, v, z3.Bool('static_%s_has%d' % (key.replace(':', '_'), i)))
            cells = dict(cells)  # never mutate a dict that sibling paths may share
            cells[key] = st.alloc(Opaque('Map', mm))
            st.notes['statics'] = cells
            st.events.append(('static_read', key, ty))
        return Ptr(cells[key])

    def eval_promoted(self, st, fn, k):
        base = fn.name
        # promoted of a promoted does not occur
        name = '%s::promoted[%d]' % (base, k)
        cands = self.funcs.get(name)
        if not cands:
            raise Unsupported('promoted %s not found' % name)
        pf = [f for f in cands if f.crate == fn.crate] or cands
        outs = self.exec_fn(st, pf[0], [])
        if len(outs) != 1 or not isinstance(outs[0][1], Ret):
            raise Unsupported('promoted %s did not evaluate to one value' % name)
        st.heap.update(outs[0][0].heap)
        return outs[0][1].v

    def eval_named_const(self, st, fn, t, want_ty):
        last = self._last_seg(t)
        last = re.sub(r'::<.*$', '', last)
        # enum unit variants printed as consts, e.g. `const Denom::Mel`? handled by caller via adt
        if last in self.consts:
            ty, lit = self.consts[last]
            return self.eval_const(st, fn, lit, ty)
        cands = [f for f in self.by_last.get(last, []) if f.is_const]
        if cands:
            outs = self.exec_fn(st, cands[0], [])
            if len(outs) == 1 and isinstance(outs[0][1], Ret):
                st.heap.update(outs[0][0].heap)
                return outs[0][1].v
        segs = self._segments(t)
        if len(segs) >= 2:
            adt = self.adts.get(base_ident(segs[-2]))
            if adt and adt.kind == 'enum':
                try:
                    adt.variant(last)
                    return mk_enum(adt.name, last)
                except KeyError:
                    pass
        if want_ty:
            adt = self.adts.get(base_ident(want_ty))
            if adt and adt.kind == 'enum':
                try:
                    adt.variant(last)
                    return mk_enum(adt.name, last)
                except KeyError:
                    pass
        return None

    # ---- rvalues ------------------------------------------------------------
    def eval_rvalue(self, st, frame, fn, rv, dest_ty):
        k = rv[0]
        if k == 'use':
            return self.eval_operand(st, frame, fn, rv[1], dest_ty)
        if k == 'ref':
            ptr = self.place_ptr(st, frame, rv[2])
            return ptr
        if k == 'cast':
            return self.eval_cast(st, frame, fn, rv, dest_ty)
        if k == 'binop':
            a = self.eval_operand(st, frame, fn, rv[2])
            b = self.eval_operand(st, frame, fn, rv[3])
            ta = self.operand_type(fn, rv[2])
            if ta == '?':
                ta = self.operand_type(fn, rv[3])
            return self.binop(rv[1], a, b, ta, self.operand_type(fn, rv[3]))
        if k == 'unop':
            a = self.eval_operand(st, frame, fn, rv[2])
            if rv[1] == 'Not':
                return z3.Not(a) if z3.is_bool(a) else ~a
            if rv[1] == 'Neg':
                return -a
            if rv[1] == 'PtrMetadata':
                return self.slice_len(st, a)
        if k == 'discriminant':
            v = self.load(st, self.place_ptr(st, frame, rv[1]))
            if not isinstance(v, EnumV):
                raise Unsupported('discriminant of %r' % (v,))
            info = int_info(dest_ty) or (64, True)
            if isinstance(v.disc, int):
                return bv(v.disc, info[0])
            if v.ty == 'Ordering':
                return z3.SignExt(info[0] - 8, v.disc) if info[0] > 8 else v.disc
            return z3.ZeroExt(info[0] - 8, v.disc) if info[0] > 8 else v.disc
        if k == 'len':
            v = self.load(st, self.place_ptr(st, frame, rv[1]))
            return bv(len(v.fields), 64)
        if k == 'tuple':
            return Agg('tuple', [self.eval_operand(st, frame, fn, o) for o in rv[1]])
        if k == 'array':
            return Agg('array', [self.eval_operand(st, frame, fn, o) for o in rv[1]])
        if k == 'repeat':
            v = self.eval_operand(st, frame, fn, rv[1])
            n = rv[2]
            m = re.match(r'^(?:const )?(\d+)(?:_usize)?$', n)
            if not m:
                cv = self.eval_const(st, fn, n.replace('const ', ''))
                n = cv.as_long()
            else:
                n = int(m.group(1))
            return Agg('array', [v] * n)
        if k == 'closure':
            return Agg(rv[1], [self.eval_operand(st, frame, fn, o) for _, o in rv[2]])
        if k == 'adt':
            return self.eval_adt(st, frame, fn, rv, dest_ty)
        raise Unsupported('rvalue %r' % (rv,))

    def eval_adt(self, st, frame, fn, rv, dest_ty):
        name, fields = rv[1], rv[2]
        vals = [self.eval_operand(st, frame, fn, o) for _, o in fields]
        segs = self._segments(name)
        segs = [re.sub(r'::<.*$', '', s) for s in segs]
        last = base_ident(segs[-1]) if segs[-1][0] != '<' else segs[-1]
        if len(segs) >= 2:
            prev = base_ident(segs[-2])
            adt = self.adts.get(prev)
            if adt and adt.kind == 'enum':
                try:
                    adt.variant(last)
                    return mk_enum(adt.name, last, vals)
                except KeyError:
                    pass
        adt = self.adts.get(last)
        if adt and adt.kind == 'struct':
            return Agg(last, vals)
        # bare variant: use destination type
        dadt = self.adts.get(base_ident(dest_ty)) if dest_ty else None
        if dadt and dadt.kind == 'enum':
            try:
                dadt.variant(last)
                return mk_enum(dadt.name, last, vals)
            except KeyError:
                pass
        # search any enum with this variant (unique)
        hits = [a for a in self.adts.adts.values() if a.kind == 'enum' and any(v[0] == last for v in a.variants)]
        if len(hits) == 1:
            return mk_enum(hits[0].name, last, vals)
        # unknown struct from a crate we did not read (e.g. PhantomData): keep as aggregate
        return Agg(last, vals)

    def eval_cast(self, st, frame, fn, rv, dest_ty):
        _, op, ty, kind = rv
        v = self.eval_operand(st, frame, fn, op)
        if kind.startswith('IntToInt'):
            src_ty = self.operand_type(fn, op)
            dst = int_info(ty)
            if dst is None:
                raise Unsupported('cast to %s' % ty)
            if isinstance(v, EnumV):
                d = disc_term(v)
                return z3.ZeroExt(dst[0] - 8, d) if dst[0] > 8 else d
            if z3.is_bool(v):
                return z3.If(v, bv(1, dst[0]), bv(0, dst[0]))
            src = int_info(src_ty) or (v.size(), False)
            return simp(int_cast(v, src[1], dst[0]))
        if kind.startswith(('PointerCoercion', 'PtrToPtr', 'Transmute', 'PointerExposeProvenance',
                            'PointerWithExposedProvenance')):
            return v
        raise Unsupported('cast kind %s' % kind)

    def slice_len(self, st, p):
        if isinstance(p, Ptr):
            if p.meta is not None:
                return p.meta
            v = self.load(st, p)
            if isinstance(v, Agg):
                return bv(len(v.fields), 64)
            if isinstance(v, Opaque) and v.kind in ('Ser', 'SymBytes'):
                from . import models
                return models.bytes_len(self, st, v)
            if isinstance(v, Opaque) and hasattr(v.data, 'length'):
                return v.data.length()
        raise Unsupported('PtrMetadata of %r' % (p,))

    def binop(self, op, a, b, ta, tb):
        info = int_info(ta)
        signed = info[1] if info else False
        if isinstance(a, EnumV) or isinstance(b, EnumV) or isinstance(a, Agg):
            if op == 'Eq':
                return val_eq(a, b)
            if op == 'Ne':
                return z3.Not(val_eq(a, b))
        if z3.is_bool(a) or z3.is_bool(b):
            a, b = to_bool(a), to_bool(b)
            if op == 'BitAnd':
                return z3.And(a, b)
            if op == 'BitOr':
                return z3.Or(a, b)
            if op == 'BitXor':
                return z3.Xor(a, b)
            if op == 'Eq':
                return a == b
            if op == 'Ne':
                return a != b
            raise Unsupported('bool binop ' + op)
        if op in ('Add', 'AddUnchecked'):
            return a + b
        if op in ('Sub', 'SubUnchecked'):
            return a - b
        if op in ('Mul', 'MulUnchecked'):
            return a * b
        if op == 'Div':
            return a / b if signed else z3.UDiv(a, b)
        if op == 'Rem':
            return z3.SRem(a, b) if signed else z3.URem(a, b)
        if op == 'BitAnd':
            return a & b
        if op == 'BitOr':
            return a | b
        if op == 'BitXor':
            return a ^ b
        if op in ('Shl', 'Shr', 'ShlUnchecked', 'ShrUnchecked'):
            # shift amount may have a different width
            bi = int_info(tb) or (b.size(), False)
            if b.size() != a.size():
                b = int_cast(b, False, a.size()) if b.size() < a.size() else z3.Extract(a.size() - 1, 0, b)
            # rust masks the shift amount in release; overflow-checks assert it separately
            b = b & bv(a.size() - 1, a.size())
            if op.startswith('Shl'):
                return a << b
            return (a >> b) if signed else z3.LShR(a, b)
        if op == 'Eq':
            return a == b
        if op == 'Ne':
            return a != b
        if op == 'Lt':
            return a < b if signed else z3.ULT(a, b)
        if op == 'Le':
            return a <= b if signed else z3.ULE(a, b)
        if op == 'Gt':
            return a > b if signed else z3.UGT(a, b)
        if op == 'Ge':
            return a >= b if signed else z3.UGE(a, b)
        if op == 'Cmp':
            lt = a < b if signed else z3.ULT(a, b)
            d = z3.If(lt, bv(-1, 8), z3.If(a == b, bv(0, 8), bv(1, 8)))
            return EnumV('Ordering', d, {'Less': (), 'Equal': (), 'Greater': ()})
        if op in ('AddWithOverflow', 'SubWithOverflow', 'MulWithOverflow'):
            n = a.size()
            if op == 'AddWithOverflow':
                r = a + b
                if signed:
                    ov = z3.Or(z3.Not(z3.BVAddNoOverflow(a, b, True)), z3.Not(z3.BVAddNoUnderflow(a, b)))
                else:
                    ov = z3.Not(z3.BVAddNoOverflow(a, b, False))
            elif op == 'SubWithOverflow':
                r = a - b
                if signed:
                    ov = z3.Or(z3.Not(z3.BVSubNoOverflow(a, b)), z3.Not(z3.BVSubNoUnderflow(a, b, True)))
                else:
                    ov = z3.ULT(a, b)
            else:
                r = a * b
                if signed:
                    ov = z3.Or(z3.Not(z3.BVMulNoOverflow(a, b, True)), z3.Not(z3.BVMulNoUnderflow(a, b)))
                else:
                    ov = z3.Not(z3.BVMulNoOverflow(a, b, False))
            return Agg('tuple', [r, ov])
        raise Unsupported('binop ' + op)

    # ---- execution ----------------------------------------------------------
    def call(self, st, callee, args, ctx):
        """returns list of (state, Ret|Panic)"""
        self.stats['calls'] += 1
        # `impl PartialEq<&B> for &A` (std) forwards to the referents: peel one reference level off callee and arguments
        m = _REF_EQ_RX.match(callee)
        if m and len(args) == 2 and all(isinstance(a, Ptr) for a in args):
            inner = '<%s as PartialEq%s>::%s' % (m.group(1), ('<%s>' % m.group(2)) if (m.group(2) and m.group(2) != m.group(1)) else '', m.group(3))
            return self.call(st, inner, [self.load(st, args[0]), self.load(st, args[1])], ctx)
        for table in (self.overrides, ):
            for rx, f in table:
                if rx.search(callee):
                    r = f(self, st, args, ctx)
                    if r is not NotImplemented:
                        return self._norm(st, r)
        fn = None
        if not getattr(ctx, 'no_mir', False):
            fn = self.resolve(callee, len(args), ctx.fn)
        if fn is not None and not self._prefer_summary(callee):
            st.count('call:' + fn.name)
            if self.merge_rx is not None and self.merge_rx.search(fn.name):
                merged = self._exec_merged(st, fn, args)
                if merged is not None:
                    return merged
            return self.exec_fn(st, fn, args)
        for rx, f in self.summaries:
            if rx.search(callee):
                r = f(self, st, args, ctx)
                if r is not NotImplemented:
                    self.summaries_used.add(rx.pattern)
                    return self._norm(st, r)
        if fn is not None:
            st.count('call:' + fn.name)
            return self.exec_fn(st, fn, args)
        raise Unsupported('callee without MIR or summary: %s (in %s)' % (callee, ctx.fn.name if ctx.fn else '?'))

    prefer_summary_rx = None
    merge_rx = None  # side-effect-free functions whose return paths are merged into one ite value

    def _exec_merged(self, st, fn, args):
        base = len(st.pc)
        outs = self.exec_fn(st.fork(), fn, args)
        if not outs or any(isinstance(r, Panic) for _, r in outs):
            return None
        try:
            acc = outs[-1][1].v
            for s2, r in reversed(outs[:-1]):
                cond = z3.And(s2.pc[base:]) if len(s2.pc) > base else z3.BoolVal(True)
                acc = ite_val(simp(cond), r.v, acc)
        except Unsupported:
            return None
        self.stats['merged'] = self.stats.get('merged', 0) + len(outs) - 1
        return [(st, Ret(acc))]

    def _prefer_summary(self, callee):
        return bool(self.prefer_summary_rx and self.prefer_summary_rx.search(callee))

    @staticmethod
    def _norm(st, r):
        if isinstance(r, list):
            return r
        if isinstance(r, (Ret, Panic)):
            return [(st, r)]
        return [(st, Ret(r))]

    def call_closure(self, st, clo, args, ctx):
        """invoke a closure aggregate (FnOnce/FnMut/Fn) with a python list of argument values"""
        if isinstance(clo, Ptr):
            target = self.load(st, clo)
            if isinstance(target, (Agg, Opaque)):
                return self.call_closure(st, target, args, ctx)
        if isinstance(clo, Opaque) and clo.kind == 'pyfn':
            return self._norm(st, clo.data(self, st, args, ctx))
        if isinstance(clo, Opaque) and clo.kind == 'fnitem':
            return self.call(st, clo.data, args, ctx)
        if not isinstance(clo, Agg) or not clo.ty.startswith('{closure@'):
            raise Unsupported('call of non-closure %r' % (clo,))
        loc = clo.ty[len('{closure@'):-1]
        fn = self.closures.get(loc)
        if fn is None:
            raise Unsupported('closure body not found: ' + loc)
        p0 = fn.param_types[0]
        if p0.startswith('&'):
            cell = st.alloc(clo)
            self_arg = Ptr(cell)
        else:
            self_arg = clo
        # closure MIR takes (self, a, b, ...) -- arguments are already untupled in the body signature
        return self.exec_fn(st, fn, [self_arg] + list(args))

    def exec_fn(self, st, fn, args, depth=0):
        mp.lower_function(fn)
        self._fn_stack.append(fn.name)
        try:
            return self._exec_fn(st, fn, args, depth)
        finally:
            self._fn_stack.pop()

    _fn_stack = []
    lazy_rx = None  # functions explored without feasibility pruning (small, total, joined at return)
    feas_by_fn = {}

    def _exec_fn(self, st, fn, args, depth=0):
        self.functions_encoded.add('%s::%s' % (fn.crate, fn.name))
        if len(args) != fn.nparams:
            raise Unsupported('arity mismatch calling %s: %d args' % (fn.name, len(args)))
        st0_pc_len = len(st.pc)
        st0_cells = set(st.heap.keys())
        frame = {}
        for l in fn.local_types:
            frame[l] = st.alloc(UNINIT)
        if 0 not in frame:
            frame[0] = st.alloc(UNINIT)
        for i, a in enumerate(args):
            st.heap[frame[i + 1]] = a
        results = []
        work = [(st, 0, {})]
        while work:
            cst, bid, visits = work.pop()
            # frame cells are shared across forks (cell ids are global; each state's heap maps them)
            while True:
                visits = dict(visits)
                visits[bid] = visits.get(bid, 0) + 1
                if visits[bid] > self.unwind:
                    raise Inconclusive('unwinding bound %d exceeded at bb%d of %s' % (self.unwind, bid, fn.name))
                blk = fn.blocks[bid]
                self.stats['blocks'] += 1
                for s in blk.stmts:
                    try:
                        self.exec_stmt(cst, frame, fn, s)
                    except Unsupported as e:
                        if ' [at ' not in str(e):
                            raise Unsupported('%s [at %s bb%d: %s]' % (e, fn.name[-60:], bid, s.text[:120]))
                        raise
                t = blk.term
                k = t.kind
                if k == 'goto':
                    bid = t.data['target']
                    continue
                if k == 'return':
                    v = cst.heap[frame[0]]
                    if v is UNINIT:
                        v = UNIT
                    results.append((cst, Ret(v)))
                    break
                if k == 'unreachable':
                    # reachable `unreachable` would be UB; report it as a panic outcome
                    results.append((cst, Panic('unreachable reached', fn.name)))
                    break
                if k == 'resume':
                    break
                if k == 'drop':
                    bid = t.data['target']
                    continue
                if k == 'assert':
                    c = to_bool(self.eval_operand(cst, frame, fn, t.data['cond']))
                    if t.data['neg']:
                        c = z3.Not(c)
                    c = simp(c)
                    if z3.is_true(c):
                        bid = t.data['target']
                        continue
                    if self.feasible(cst, z3.Not(c)):
                        fst = cst.fork()
                        fst.assume(z3.Not(c))
                        results.append((fst, Panic(t.data['msg'], '%s bb%d' % (fn.name, bid))))
                        if not self.feasible(cst, c):
                            break
                    cst.assume(c)
                    bid = t.data['target']
                    continue
                if k == 'switch':
                    v = self.eval_operand(cst, frame, fn, t.data['op'])
                    nxt = self.switch_targets(cst, v, t.data)
                    if not nxt:
                        break
                    if len(nxt) > 1:
                        self.stats['forks'] += len(nxt) - 1
                    for cond, tb in nxt[1:]:
                        f2 = cst.fork()
                        f2.assume(cond)
                        work.append((f2, tb, visits))
                    cst.assume(nxt[0][0])
                    bid = nxt[0][1]
                    continue
                if k == 'call':
                    d = t.data
                    argv = [self.eval_operand(cst, frame, fn, a) for a in d['args']]
                    dest_ty = self.place_type(fn, d['dest'])
                    ctx = Ctx(self, fn, dest_ty, [self.operand_type(fn, a) for a in d['args']], d['callee'])
                    if d['callee_op'] is not None:
                        clo = self.eval_operand(cst, frame, fn, d['callee_op'])
                        outs = self.call_closure(cst, clo, argv, ctx)
                    else:
                        outs = self.call(cst, d['callee'], argv, ctx)
                    first = True
                    cont = None
                    for (ost, res) in outs:
                        if isinstance(res, Panic):
                            results.append((ost, res))
                            continue
                        if d['target'] is None:
                            continue
                        self.store(ost, self.place_ptr(ost, frame, d['dest']), res.v)
                        if cont is None:
                            cont = (ost, d['target'])
                        else:
                            work.append((ost, d['target'], visits))
                    if cont is None:
                        break
                    cst, bid = cont
                    continue
                raise Unsupported('terminator ' + k)
        self.stats['paths'] += len(results)
        if self.join_rx is not None and len(results) > 1 and self.join_rx.search(fn.name):
            results = self.join_returns(st0_pc_len, st0_cells, results)
        return results

    join_rx = None  # functions whose returning paths are joined into one state (state merging)

    def join_returns(self, base_len, base_cells, results):
        rets = [(s, r) for s, r in results if isinstance(r, Ret)]
        others = [(s, r) for s, r in results if not isinstance(r, Ret)]
        if len(rets) < 2:
            return results
        try:
            merged = self._join(base_len, base_cells, rets)
        except Unsupported as e:
            self.stats['join_failed'] = self.stats.get('join_failed', 0) + 1
            return results
        self.stats['joined'] = self.stats.get('joined', 0) + len(rets) - 1
        return others + [merged]

    def _reachable_cells(self, st, v, acc):
        if isinstance(v, Ptr):
            if v.cell not in acc:
                acc.add(v.cell)
                self._reachable_cells(st, st.heap.get(v.cell), acc)
        elif isinstance(v, Agg):
            for f in v.fields:
                self._reachable_cells(st, f, acc)
        elif isinstance(v, EnumV):
            for pl in v.payloads.values():
                for f in pl:
                    self._reachable_cells(st, f, acc)
        elif isinstance(v, Opaque):
            d = v.data
            if isinstance(d, tuple):
                for f in d:
                    self._reachable_cells(st, f, acc)
            elif hasattr(d, 'reach'):
                for f in d.reach():
                    self._reachable_cells(st, f, acc)

    def _join(self, base_len, base_cells, rets):
        conds = []
        for s, r in rets:
            suffix = s.pc[base_len:]
            conds.append(simp(z3.And(suffix)) if suffix else z3.BoolVal(True))
        first = rets[0][0]
        new = first.fork()
        new.pc = first.pc[:base_len] + [simp(z3.Or(conds))]
        new.models = []
        # cells to keep: those alive at entry + those reachable from a returned value / from a kept cell
        keep = set(base_cells)
        for s, r in rets:
            acc = set()
            self._reachable_cells(s, r.v, acc)
            for c in list(base_cells):
                self._reachable_cells(s, s.heap.get(c), acc)
            keep |= acc
        heap = {}
        for c in keep:
            vals = [s.heap.get(c, UNINIT) for s, _ in rets]
            v = vals[-1]
            for cond, vi in zip(reversed(conds[:-1]), reversed(vals[:-1])):
                if vi is not v:
                    v = ite_val(cond, vi, v)
            heap[c] = v
        new.heap = heap
        val = rets[-1][1].v
        for cond, (s, r) in zip(reversed(conds[:-1]), reversed(rets[:-1])):
            if r.v is not val:
                val = ite_val(cond, r.v, val)
        # notes: union (base-read tables are append-only lists); entries sampled on different branches are tied
        # together by the pairwise axioms they never met
        notes = {}
        cross = []
        same = []
        for s, _ in rets:
            for k, v in s.notes.items():
                if k not in notes:
                    notes[k] = v
                elif isinstance(v, tuple) and isinstance(notes[k], tuple) and v is not notes[k]:
                    cur = list(notes[k])
                    for item in v:
                        if any(item is x for x in cur):
                            continue
                        dup = None
                        if isinstance(item, tuple) and len(item) >= 2 and hasattr(item[0], 'eq'):
                            for x in cur:
                                if isinstance(x, tuple) and len(x) >= 2 and hasattr(x[0], 'eq') and item[0].eq(x[0]):
                                    dup = x
                                    break
                        if dup is not None:
                            continue
                        cur.append(item)
                    notes[k] = tuple(cur)
        new.notes = notes
        for k, a, b in same:
            if k.startswith('base:'):
                new.assume_fact(a[1].data.sym_eq(b[1].data))
            elif k.startswith('deser:'):
                new.assume_fact(z3.And(a[1] == b[1], val_eq(a[2], b[2])))
        if cross:
            from . import models as _models
            for base, r1, r2 in cross:
                _models.pair_axioms(self, new, base, r1, r2)
        # events: common prefix, then per-branch tails guarded by their condition
        evs = [s.events for s, _ in rets]
        n = 0
        while all(len(e) > n for e in evs) and all(e[n] is evs[0][n] for e in evs):
            n += 1
        new.events = list(evs[0][:n])
        for cond, e in zip(conds, evs):
            for item in e[n:]:
                new.events.append(('when', cond, item))
        new.counters = {}
        for s, _ in rets:
            for k, v in s.counters.items():
                new.counters[k] = max(new.counters.get(k, 0), v)
        return (new, Ret(val))

    def switch_targets(self, st, v, data):
        """list of (condition, bb) that are feasible"""
        if isinstance(v, EnumV):
            v = disc_term(v)
        if z3.is_bool(v):
            v = z3.If(v, bv(1, 8), bv(0, 8))
        v = simp(v)
        out = []
        if z3.is_bv_value(v):
            val = v.as_long()
            for tv, tb in data['targets']:
                if (tv % (1 << v.size())) == val:
                    return [(z3.BoolVal(True), tb)]
            if data['otherwise'] is not None:
                return [(z3.BoolVal(True), data['otherwise'])]
            return []
        conds = []
        for tv, tb in data['targets']:
            c = v == bv(tv, v.size())
            conds.append(c)
            if self.feasible(st, c):
                out.append((c, tb))
        if data['otherwise'] is not None:
            c = z3.Not(z3.Or(conds)) if conds else z3.BoolVal(True)
            if self.feasible(st, c):
                out.append((simp(c), data['otherwise']))
        return out

    def exec_stmt(self, st, frame, fn, s):
        if s.kind == 'nop':
            return
        if s.kind == 'setdisc':
            ptr = self.place_ptr(st, frame, s.place)
            v = self.load(st, ptr)
            if isinstance(v, EnumV):
                self.store(st, ptr, EnumV(v.ty, s.rv[1], v.payloads))
                return
            raise Unsupported('set discriminant on %r' % (v,))
        dest_ty = self.place_type(fn, s.place)
        v = self.eval_rvalue(st, frame, fn, s.rv, dest_ty)
        ptr = self.place_ptr(st, frame, s.place)
        self.store(st, ptr, v)


def int_cast(v, src_signed, dst_bits):
    n = v.size()
    if dst_bits == n:
        return v
    if dst_bits < n:
        return z3.Extract(dst_bits - 1, 0, v)
    return z3.SignExt(dst_bits - n, v) if src_signed else z3.ZeroExt(dst_bits - n, v)


def _unescape_str(lit):
    body = lit[1:-1]
    out = []
    i = 0
    while i < len(body):
        c = body[i]
        if c == '\\':
            n = body[i + 1]
            if n == 'n':
                out.append('\n'); i += 2
            elif n == 't':
                out.append('\t'); i += 2
            elif n == 'r':
                out.append('\r'); i += 2
            elif n == '0':
                out.append('\0'); i += 2
            elif n == 'x':
                out.append(chr(int(body[i + 2:i + 4], 16))); i += 4
            elif n == 'u':
                j = body.index('}', i)
                out.append(chr(int(body[i + 3:j], 16))); i = j + 1
            else:
                out.append(n); i += 2
        else:
            out.append(c); i += 1
    return ''.join(out)


def _unescape_bytes(lit):
    s = _unescape_str(lit)
    return bytes(ord(c) & 0xff for c in s)

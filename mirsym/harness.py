"""Check harness: obligations, vacuity covers, known findings, native replay, evidence.

Exit codes (see DESIGN §6): 0 all obligations unsat within bounds and all covers sat
(KNOWN-FINDING lines allowed); 1 + `VIOLATION property=<id> replay=<path>` for a
replay-confirmed violation that is not a listed known finding; 2 inconclusive.
"""
import fcntl
import json
import os
import subprocess
import sys
import time
import traceback

import z3

from . import loader, summaries, models, shapes, collections, melmodels, bigmodels, vmmodels
import re as _re
from .interp import Inconclusive, Unsupported, simp, G
from .mirparse import MirSyntax

VERIF = os.path.dirname(os.path.dirname(os.path.abspath(__file__)))
BUILD = loader.BUILD
# the registered commands never set these; tools/try_seed.sh does, to evaluate a seeded change in a scratch copy of the
# repository without touching /repo, /verif/evidence or /verif/build
EVIDENCE_DIR = os.environ.get('VERIF_EVIDENCE_DIR', os.path.join(VERIF, 'evidence'))
CEX_DIR = os.environ.get('VERIF_CEX_DIR', os.path.join(VERIF, 'counterexamples'))
KNOWN = os.path.join(VERIF, 'known_findings.json')


class Lock:
    def __init__(self, name):
        os.makedirs(BUILD, exist_ok=True)
        self.path = os.path.join(BUILD, name + '.lock')

    def __enter__(self):
        self.f = open(self.path, 'w')
        fcntl.flock(self.f, fcntl.LOCK_EX)
        return self

    def __exit__(self, *a):
        fcntl.flock(self.f, fcntl.LOCK_UN)
        self.f.close()


_replay_built = {}


def build_replay(profile='dev'):
    """(re)build the native replay binary against /repo's current tree, hooks on."""
    if profile in _replay_built:
        return _replay_built[profile]
    env = dict(os.environ)
    env['RUSTFLAGS'] = '--cfg melstf_verif'
    env['CARGO_TARGET_DIR'] = os.path.join(BUILD, 'replay')
    env['CARGO_NET_OFFLINE'] = 'true'
    src = os.path.join(VERIF, 'replay')
    if loader.REPO != '/repo':
        # scratch evaluation of a seeded change: a copy of the replay crate whose path dependencies point at that tree
        import shutil
        dst = os.path.join(BUILD, 'replay-src')
        shutil.rmtree(dst, ignore_errors=True)
        shutil.copytree(src, dst, ignore=shutil.ignore_patterns('target', 'Cargo.lock'))
        with open(os.path.join(dst, 'Cargo.toml')) as f:
            toml = f.read().replace('"/repo', '"' + loader.REPO)
        with open(os.path.join(dst, 'Cargo.toml'), 'w') as f:
            f.write(toml)
        src = dst
    with Lock('replay'):
        lock_src = os.path.join(loader.REPO, 'Cargo.lock')
        try:
            with open(lock_src) as f, open(os.path.join(src, 'Cargo.lock'), 'w') as g:
                g.write(f.read())
        except OSError:
            pass
        cmd = ['cargo', 'build', '--offline'] + (['--release'] if profile == 'release' else [])
        r = subprocess.run(cmd, cwd=src, env=env, capture_output=True, text=True)
        if r.returncode != 0:
            raise Inconclusive('replay crate does not build against the current tree:\n' + r.stderr[-3000:])
    p = os.path.join(BUILD, 'replay', 'release' if profile == 'release' else 'debug', 'verif-replay')
    _replay_built[profile] = p
    return p


def run_replay(reqs, profile='dev', timeout=120):
    """run a list of JSON requests natively; returns list of answers"""
    exe = build_replay(profile)
    r = subprocess.run([exe], input=json.dumps(reqs), capture_output=True, text=True, timeout=timeout)
    if r.returncode != 0:
        raise Inconclusive('replay binary failed: rc=%s %s' % (r.returncode, r.stderr[-1000:]))
    return json.loads(r.stdout.strip().split('\n')[-1])


def model_int(model, term, signed=False):
    v = model.eval(term, model_completion=True)
    if z3.is_bv_value(v):
        return v.as_signed_long() if signed else v.as_long()
    if z3.is_int_value(v):
        return v.as_long()
    if z3.is_true(v):
        return True
    if z3.is_false(v):
        return False
    raise Inconclusive('model value not concrete: %s' % v)



_ABS_UF = {}


def abstract_ops(terms, kinds=('bvudiv', 'bvurem')):
    """Sound over-approximation: every application of the named bit-vector operators is replaced by an uninterpreted
    function of the same arguments. `unsat` for the abstracted query implies `unsat` for the original one (the real operator
    is one interpretation); a `sat` answer says nothing and the caller falls back to the concrete query."""
    ops = {'bvudiv': (z3.Z3_OP_BUDIV, z3.Z3_OP_BUDIV_I), 'bvurem': (z3.Z3_OP_BUREM, z3.Z3_OP_BUREM_I),
           'bvmul': (z3.Z3_OP_BMUL,), 'bv2int': (z3.Z3_OP_BV2INT,), 'int2bv': (z3.Z3_OP_INT2BV,)}
    want = {}
    for k in kinds:
        for o in ops[k]:
            want[o] = k
    cache = {}

    def walk(t):
        key = t.get_id()
        if key in cache:
            return cache[key]
        if not z3.is_app(t) or t.num_args() == 0:
            cache[key] = t
            return t
        args = [walk(a) for a in t.children()]
        k = t.decl().kind()
        if k in want and len(args) in (1, 2):
            sig = (want[k],) + tuple(a.sort().sexpr() for a in args) + (t.sort().sexpr(),)
            uf = _ABS_UF.get(sig)
            if uf is None:
                uf = _ABS_UF[sig] = z3.Function('abs_%s_%d' % (want[k], len(_ABS_UF)), *([a.sort() for a in args] + [t.sort()]))
            r = uf(*args)
        else:
            r = t.decl()(*args) if any(a.get_id() != b.get_id() for a, b in zip(args, t.children())) else t
        cache[key] = r
        return r
    return [walk(t) for t in terms]

class Check:
    def __init__(self, pid, tier, seed):
        self.deferred = []
        self.pid = pid
        self.tier = tier
        self.seed = seed
        self.t0 = time.time()
        self.obligations = []  # dicts
        self.covers = []
        self.samples = []
        self.assumptions = []
        self.bounds = {}
        self.violations = []
        self.unconfirmed = []  # solver counterexamples that no native replay confirmed: never a pass, never a VIOLATION
        self.known_printed = []
        self.solver_s = 0.0
        self.queries = 0
        self.tv = 0
        self.tv_samples = []
        self.paths = 0
        # per-query cap; a timeout is `inconclusive`, never a pass.  120 s in the quick tier: the slowest queries of the unchanged
        # tree need 12-37 s on an idle machine (C03 COMM-1, C18 reward formula, C17 step) and up to 3x that under load
        self.timeout_ms = 120000 if tier == 'quick' else 600000
        self.interp = None
        self.known = self._load_known()
        self.decided_by = {}
        self.extra = {}
        z3.set_param('smt.random_seed', seed % (2 ** 31))
        z3.set_param('sat.random_seed', seed % (2 ** 31))

    # ---- setup ----
    def load(self, crates=None, **kw):
        log = {}
        with Lock('mir'):
            self.interp = loader.load(summaries.SUMMARIES, crates=crates, log=log,
                                      solver_timeout_ms=self.timeout_ms, **kw)
        self.extra.update(log)
        self.interp.sym_value = shapes.sym_value
        self.interp.base_read_hooks = {}
        self.interp.base_pair_hooks = {}
        self.interp.base_single_hooks = {}
        self.interp.deser_hooks = {}
        self.interp.roots = []
        self.interp.prefer_summary_rx = _re.compile(r'microergs_per_dosc$')
        return self.interp

    def _load_known(self):
        try:
            data = json.load(open(KNOWN))
        except OSError:
            return []
        return [e for e in data.get('findings', []) if e.get('property') == self.pid]

    def assume_note(self, text):
        if text not in self.assumptions:
            self.assumptions.append(text)

    # ---- solving ----
    def _z3(self, constraints, timeout_ms):
        s = z3.Solver()
        s.set('timeout', int(timeout_ms))
        s.set('random_seed', self.seed % (2 ** 31))
        for c in constraints:
            s.add(c)
        for c in G.facts:
            s.add(c)
        r = s.check()
        if r == z3.sat:
            return 'sat', s.model(), s
        if r == z3.unsat:
            return 'unsat', None, s
        return 'unknown', s.reason_unknown(), s

    def _cvc5(self, solver, extra_args, timeout_s):
        """second opinion / stronger arithmetic: the same query as SMT-LIB2 text through cvc5"""
        os.makedirs(os.path.join(BUILD, 'smt'), exist_ok=True)
        path = os.path.join(BUILD, 'smt', 'q_%d_%d.smt2' % (os.getpid(), self.queries))
        txt = solver.to_smt2()
        if 'bvumul_noovfl' in txt or 'bvsmul_noovfl' in txt or 'bvsmul_noudfl' in txt:
            return 'unknown'
        # z3 prints its internal "divisor known to be non-zero" operators; they coincide with the SMT-LIB ones there
        for a, b in (('bvudiv_i', 'bvudiv'), ('bvurem_i', 'bvurem'), ('bvsdiv_i', 'bvsdiv'), ('bvsrem_i', 'bvsrem'),
                     ('bvsmod_i', 'bvsmod'), ('ubv_to_int', 'bv2nat'), ('int_to_bv', 'int2bv')):
            txt = txt.replace(a, b)
        with open(path, 'w') as f:
            f.write('(set-logic ALL)\n' + txt)
        try:
            r = subprocess.run(['cvc5', '--lang', 'smt2', '--tlimit=%d' % int(timeout_s * 1000)] + extra_args + [path],
                               capture_output=True, text=True, timeout=timeout_s + 5)
            out = r.stdout.strip()
        except subprocess.TimeoutExpired:
            out = 'timeout'
        finally:
            try:
                os.remove(path)
            except OSError:
                pass
        if '(error' in out or 'error' in out.lower():
            return 'unknown'
        first = out.split('\n')[0].strip() if out else ''
        return first if first in ('sat', 'unsat') else 'unknown'

    def solve(self, constraints, timeout_ms=None):
        """portfolio: z3 (short) -> cvc5 with bit-vectors solved as integers -> cvc5 -> z3 (full budget).
        A cvc5 `sat` is only used after z3 has produced a model for it."""
        budget = timeout_ms or self.timeout_ms
        t0 = time.time()
        self.queries += 1
        first = min(budget, 8000)
        res, model, solver = self._z3(constraints, first)
        decided_by = 'z3'
        if res == 'unknown' and budget > first:
            for args in (['--solve-bv-as-int=sum'], []):
                r2 = self._cvc5(solver, args, min(45.0, budget / 1000.0))
                if r2 == 'unsat':
                    res, model, decided_by = 'unsat', None, 'cvc5 ' + ' '.join(args)
                    break
                if r2 == 'sat':
                    break
            if res == 'unknown':
                res, model, solver = self._z3(constraints, budget)
        dt = time.time() - t0
        self.solver_s += dt
        self.decided_by[decided_by] = self.decided_by.get(decided_by, 0) + 1
        return res, model, dt

    def solve_int(self, constraints, timeout_ms=None, goal=(), small_first=False, hint_vars=None):
        """the query translated exactly into non-linear integer arithmetic (mirsym.intify); a sat answer is mapped back to
        the original variables and re-validated against the original constraints"""
        from . import intify
        t0 = time.time()
        self.queries += 1
        budget = min(timeout_ms or self.timeout_ms, 30000)
        res, payload, itf = intify.solve(list(constraints) + list(G.facts), budget, goal=list(goal), small_first=small_first, hint_vars=hint_vars)
        out = ('unknown', payload)
        if res == 'unsat':
            out = ('unsat', None)
            self.decided_by['z3 (integer translation)'] = self.decided_by.get('z3 (integer translation)', 0) + 1
        elif res == 'sat':
            s = z3.Solver()
            s.set('timeout', 20000)
            for c in list(constraints) + list(goal):
                s.add(c)
            for c in G.facts:
                s.add(c)
            for name, (orig, val) in payload.items():
                s.add(orig == z3.BitVecVal(val, orig.size()))
            rv = s.check()
            if rv == z3.sat:
                out = ('sat', s.model())
                self.decided_by['z3 (integer translation)'] = self.decided_by.get('z3 (integer translation)', 0) + 1
            elif rv == z3.unknown and goal:
                # the pinned original query is itself undecided (exact-arithmetic function symbols): the values go to the
                # native replay as a candidate; nothing is reported unless the real code confirms it
                s2 = z3.Solver()
                for name, (orig, val) in payload.items():
                    s2.add(orig == z3.BitVecVal(val, orig.size()))
                if s2.check() == z3.sat:
                    out = ('sat', s2.model())
                    self.decided_by['candidate from the integer query (replay decides)'] = \
                        self.decided_by.get('candidate from the integer query (replay decides)', 0) + 1
        elif res == 'candidate' and goal:
            # values that satisfy a slice of the query: not a verdict, but worth replaying against the real code -- a
            # counterexample is only ever reported after the native replay has confirmed it
            s = z3.Solver()
            for name, (orig, val) in payload.items():
                s.add(orig == z3.BitVecVal(val, orig.size()))
            if s.check() == z3.sat:
                out = ('sat', s.model())
                self.decided_by['candidate from a sliced integer query (replay decides)'] = \
                    self.decided_by.get('candidate from a sliced integer query (replay decides)', 0) + 1
        dt = time.time() - t0
        self.solver_s += dt
        return out[0], out[1], dt

    # ---- parallel discharge of independent obligations ----------------------------------------------------
    def _smt2_text(self, constraints):
        s = z3.Solver()
        for c in constraints:
            s.add(c)
        for c in G.facts:
            s.add(c)
        txt = s.to_smt2()
        return '(set-logic ALL)\n' + txt

    @staticmethod
    def _run_portfolio(path, budget_s):
        """z3 and cvc5 (bit-vectors as integers) race on one SMT-LIB file; first definitive answer wins"""
        txt = open(path).read()
        cmds = [['z3-new', '-T:%d' % int(budget_s), path]]
        if 'bvumul_noovfl' not in txt and 'bvsmul_noovfl' not in txt and 'bvsmul_noudfl' not in txt:
            p2 = path[:-5] + '.cvc5.smt2'
            t2 = txt
            for a, b in (('bvudiv_i', 'bvudiv'), ('bvurem_i', 'bvurem'), ('bvsdiv_i', 'bvsdiv'), ('bvsrem_i', 'bvsrem'),
                         ('bvsmod_i', 'bvsmod'), ('ubv_to_int', 'bv2nat'), ('int_to_bv', 'int2bv')):
                t2 = t2.replace(a, b)
            with open(p2, 'w') as f:
                f.write(t2)
            cmds.append(['cvc5', '--lang', 'smt2', '--tlimit=%d' % int(budget_s * 1000), '--solve-bv-as-int=sum', p2])
        procs = [subprocess.Popen(c, stdout=subprocess.PIPE, stderr=subprocess.STDOUT, text=True) for c in cmds]
        verdict, who = 'unknown', ''
        t0 = time.time()
        live = list(zip(cmds, procs))
        while live and time.time() - t0 < budget_s + 10:
            for c, p in list(live):
                if p.poll() is not None:
                    out = (p.stdout.read() or '').strip()
                    live.remove((c, p))
                    first = out.split('\n')[0].strip() if out else ''
                    if first in ('sat', 'unsat') and '(error' not in out:
                        verdict, who = first, c[0] + (' ' + c[4] if c[0] == 'cvc5' else '')
                        live_now = live
                        live = []
                        for _, q in live_now:
                            q.kill()
                        break
            else:
                time.sleep(0.02)
                continue
            break
        for _, q in live:
            q.kill()
        for f in (path, path[:-5] + '.cvc5.smt2'):
            try:
                os.remove(f)
            except OSError:
                pass
        return verdict, who, time.time() - t0

    def discharge_parallel(self, jobs, workers=12):
        """jobs: list of dicts with the arguments of obligation().  Every job whose negation is unsat (under the
        known-finding exclusions it would get) is recorded as holding; the rest go through obligation() sequentially,
        which produces models, replays and reports."""
        from concurrent.futures import ThreadPoolExecutor
        os.makedirs(os.path.join(BUILD, 'smt'), exist_ok=True)
        prepared = []
        for n, j in enumerate(jobs):
            name = j['name']
            regions = [e for e in self.known if (e.get('obligation') == name or (e.get('obligation_prefix') and
                       name.startswith(e['obligation_prefix']))) and e.get('status', 'known') == 'known']
            if regions:
                prepared.append((j, None))
                continue
            path = os.path.join(BUILD, 'smt', 'par_%d_%d.smt2' % (os.getpid(), n))
            with open(path, 'w') as f:
                f.write(self._smt2_text(list(j['pc']) + [z3.Not(j['claim'])]))
            prepared.append((j, path))
        budget = min(self.timeout_ms / 1000.0, 120.0)
        results = {}
        with ThreadPoolExecutor(max_workers=workers) as ex:
            futs = {ex.submit(self._run_portfolio, p, budget): i for i, (j, p) in enumerate(prepared) if p}
            for fut, i in futs.items():
                results[i] = fut.result()
        all_ok = True
        for i, (j, p) in enumerate(prepared):
            r = results.get(i)
            if r and r[0] == 'unsat':
                self.queries += 1
                self.solver_s += r[2]
                self.decided_by[r[1]] = self.decided_by.get(r[1], 0) + 1
                self.obligations.append({'id': j['name'], 'kind': j.get('kind', 'FUNC'), 'bound': j.get('bound', ''),
                                         'verdict': 'holds', 'solver_s': round(r[2], 3), 'decided_by': r[1] + ' (parallel)'})
            else:
                ok = self.obligation(j['name'], j['pc'], j['claim'], j.get('inputs'), replay=j.get('replay'),
                                     bound=j.get('bound', ''), describe=j.get('describe'), kind=j.get('kind', 'FUNC'))
                all_ok = all_ok and ok
        return all_ok

    def solve_split(self, constraints, split):
        """decide `constraints` by case analysis over split=(term, [values]): one incremental solver,
        one query per value; returns like solve() (first sat wins; unknown if any case is undecided)"""
        term, values = split
        t0 = time.time()
        verdict = ('unsat', None)
        for v in values:
            # a fresh (non-incremental) solver per case: z3's incremental mode skips the bit-vector
            # preprocessing that makes these queries easy
            s = z3.Solver()
            s.set('timeout', self.timeout_ms)
            for c in constraints:
                s.add(c)
            for c in G.facts:
                s.add(c)
            s.add(term == v)
            r = s.check()
            self.queries += 1
            if r == z3.sat:
                verdict = ('sat', s.model())
                break
            if r == z3.unknown:
                verdict = ('unknown', '%s at case %s' % (s.reason_unknown(), v))
                break
        dt = time.time() - t0
        self.solver_s += dt
        return verdict[0], verdict[1], dt

    def obligation(self, name, pc, claim, inputs=None, replay=None, bound='', describe=None, kind='FUNC', split=None, abstract=None, arith=None):
        """pc: list of z3 Bool; claim: z3 Bool that must hold under pc.
        inputs: {name: z3 term} (for known-finding regions and counterexample printing).
        replay(model) -> (reproduced: bool, request dict, observation) ; required for reporting."""
        inputs = inputs or {}
        regions = [e for e in self.known if (e.get('obligation') == name or (e.get('obligation_prefix') and name.startswith(e['obligation_prefix']))) and e.get('status', 'known') == 'known']
        rec = {'id': name, 'kind': kind, 'bound': bound, 'verdict': None, 'solver_s': 0.0}
        neg = z3.Not(claim)
        region_terms = []
        for e in regions:
            rt = eval(e['region'], {'z3': z3, '__builtins__': {}}, dict(inputs))
            region_terms.append((e, rt))
        excl = [z3.Not(rt) for _, rt in region_terms]
        res = None
        if arith == 'int' and split is not None:
            # case analysis in front of the integer translation: one small query per value of the split term
            term, values = split
            res, model, dt = 'unsat', None, 0.0
            for v in values:
                r1, m1, d1 = self.solve_int(list(pc) + excl + [term == v], goal=[neg], small_first=True)
                dt += d1
                if r1 != 'unsat':
                    res, model = r1, m1
                    break
            rec['case_split'] = '%d cases over %s (each through the integer translation)' % (len(values), term)
            if res == 'unsat':
                rec['translation'] = 'decided in pure integer arithmetic, case by case'
            elif res != 'sat':
                res, model = 'unknown', 'integer translation undecided: %s' % (model,)
            split = None
        elif arith == 'int':
            hints = set(t.decl().name() for t in inputs.values() if z3.is_const(t) and t.decl().kind() == z3.Z3_OP_UNINTERPRETED)
            res, model, dt = self.solve_int(list(pc) + excl, goal=[neg], small_first=True, hint_vars=hints or None)
            if res == 'unsat':
                rec['translation'] = 'decided in pure integer arithmetic (bit-vectors as integers mod 2^w, quotients by division lemma)'
            elif res != 'sat':
                # no fall-back to the bit-vector portfolio: with the exact-arithmetic function symbols in play its `sat`
                # answers would be artefacts of leaving them uninterpreted
                res, model = 'unknown', 'integer translation undecided: %s' % (model,)
        if res is not None:
            pass
        elif abstract:
            # normalise with one rewriter first (the explored terms are partly simplified already), then abstract
            t0a = time.time()
            cs = abstract_ops([z3.simplify(c) for c in list(pc) + [neg] + excl + list(G.facts)], abstract)
            sa = z3.Solver()
            sa.set('timeout', min(self.timeout_ms, 20000))
            sa.add(cs)
            ra = sa.check()
            self.queries += 1
            dt = time.time() - t0a
            self.solver_s += dt
            res, model = ('unsat', None) if ra == z3.unsat else (None, None)
            if res == 'unsat':
                self.decided_by['z3 (abstracted)'] = self.decided_by.get('z3 (abstracted)', 0) + 1
                rec['abstraction'] = 'decided with %s left uninterpreted (congruence only)' % ', '.join(abstract)
            else:
                res = None
        if res is not None:
            pass
        elif split is not None:
            res, model, dt = self.solve_split(list(pc) + [neg] + excl, split)
            rec['case_split'] = '%d cases over %s' % (len(split[1]), split[0])
        else:
            res, model, dt = self.solve(list(pc) + [neg] + excl)
        rec['solver_s'] = round(dt, 3)
        if res == 'unknown':
            rec['verdict'] = 'unknown: %s' % model
            self.obligations.append(rec)
            raise Inconclusive('obligation %s: solver gave no verdict within %d ms (%s)' % (name, self.timeout_ms, model))
        if res == 'unsat':
            rec['verdict'] = 'holds' if not regions else 'holds outside known-finding region(s)'
        else:
            rec['verdict'] = 'counterexample'
            self._handle_cex(name, rec, pc, neg, excl, model, inputs, replay, describe)
        # known findings: confirm each still reproduces, then print the KNOWN-FINDING line
        for e, rt in region_terms:
            # a finding may name a witness (values of the obligation's inputs): the region query is then a ground check
            pin = []
            for wk, wv in (e.get('witness') or {}).items():
                if wk in inputs and z3.is_bv(inputs[wk]):
                    pin.append(inputs[wk] == z3.BitVecVal(int(wv), inputs[wk].size()))
            if arith == 'int':
                r2, m2, dt2 = self.solve_int(list(pc) + [rt] + pin, goal=[neg], small_first=True)
            else:
                r2, m2, dt2 = self.solve(list(pc) + [neg, rt] + pin)
            rec['solver_s'] = round(rec['solver_s'] + dt2, 3)
            if r2 == 'sat':
                rep = None
                if replay is not None:
                    rep = self._try_replay(replay, m2)
                if rep is None or rep[0]:
                    line = 'KNOWN-FINDING: property=%s %s' % (self.pid, e['what'])
                    if line not in self.known_printed:
                        self.known_printed.append(line)
                        print(line)
                    rec.setdefault('known_findings', []).append(e['what'])
                else:
                    rec.setdefault('known_findings_not_reproduced', []).append(e['what'])
            elif r2 == 'unknown':
                raise Inconclusive('known-finding region query for %s gave no verdict' % name)
        self.obligations.append(rec)
        return rec['verdict'].startswith('holds')

    def guard(self, fn, *a, **k):
        """run one kernel of a check; an inconclusive kernel (unsupported construct after an edit, vacuous cover, solver without
        a verdict) must not hide what the remaining kernels of the check can still decide: it is recorded, the check goes on,
        and the run ends inconclusive (exit 2) unless a confirmed violation was found elsewhere"""
        try:
            return fn(*a, **k)
        except (Inconclusive, Unsupported, MirSyntax) as e:
            msg = '%s in %s: %s' % (type(e).__name__, getattr(fn, '__name__', 'kernel'), str(e)[:600])
            print('INCONCLUSIVE-KERNEL property=%s %s' % (self.pid, msg))
            self.deferred.append(msg)
            if self.interp is not None:
                # leave no kernel-local model behind
                self.interp.base_read_hooks.pop('history', None)
            return None

    def _try_replay(self, replay, model):
        try:
            return replay(model)
        except Inconclusive:
            raise
        except subprocess.TimeoutExpired:
            return (True, {'note': 'native replay timed out (hang)'}, 'timeout')

    def _handle_cex(self, name, rec, pc, neg, excl, model, inputs, replay, describe):
        vals = {}
        for k, t in inputs.items():
            try:
                vals[k] = str(model.eval(t, model_completion=True))
            except Exception:
                pass
        rec['model'] = vals
        if replay is None:
            msg = 'obligation %s has a solver counterexample %s but no native replay is defined' % (name, vals)
            self.unconfirmed.append(msg)
            rec['replayed'] = False
            print('UNCONFIRMED property=%s %s' % (self.pid, msg[:600]))
            return
        blocked = []
        cur = model
        # once the check has a replay-confirmed violation, further counterexamples get one replay each instead of five rounds
        # of model blocking (a change that breaks a shared helper fails dozens of obligations; the verdict is already settled)
        for rnd in range(5 if not self.violations else 1):
            rep = self._try_replay(replay, cur)
            reproduced, request, observed = rep
            if reproduced:
                os.makedirs(CEX_DIR, exist_ok=True)
                path = os.path.join(CEX_DIR, '%s_%s.json' % (self.pid, name.replace('/', '_').replace(' ', '_')))
                with open(path, 'w') as f:
                    json.dump({'property': self.pid, 'obligation': name, 'request': request, 'observed': observed,
                               'model': vals, 'describe': describe or ''}, f, indent=1, default=str)
                print('VIOLATION property=%s replay=%s' % (self.pid, path))
                print('  obligation %s fails natively: %s' % (name, json.dumps(observed, default=str)[:400]))
                self.violations.append({'obligation': name, 'replay': path, 'observed': observed})
                rec['replayed'] = True
                return
            # block this model's input valuation and retry
            blk = z3.Or([t != model_val for t, model_val in
                         [(t, cur.eval(t, model_completion=True)) for t in inputs.values()]]) if inputs else None
            if blk is None:
                break
            blocked.append(blk)
            res, cur, dt = self.solve(list(pc) + [neg] + excl + blocked)
            if res != 'sat':
                break
        msg = ('obligation %s (%s): solver counterexample %s does not reproduce natively '
               '(encoding or summary suspect); last observation %s' % (name, describe, vals, str(observed)[:600]))
        self.unconfirmed.append(msg)
        rec['replayed'] = False
        print('UNCONFIRMED property=%s %s' % (self.pid, msg[:900]))

    def implied(self, pc, cond):
        """True if pc => cond, False if pc => not cond, None otherwise"""
        r1, _, _ = self.solve(list(pc) + [z3.Not(cond)])
        if r1 == 'unsat':
            return True
        r2, _, _ = self.solve(list(pc) + [cond])
        if r2 == 'unsat':
            return False
        return None

    def cover(self, name, pc, cond=None):
        cs = list(pc) + ([cond] if cond is not None else [])
        res, model, dt = self.solve(cs)
        self.covers.append({'id': name, 'reachable': res == 'sat', 'solver_s': round(dt, 3)})
        if res != 'sat':
            raise Inconclusive('vacuity guard %s is not satisfiable (%s)' % (name, res))
        return model

    def cover_int(self, name, constraints):
        """vacuity guard decided through the integer translation (falls back to the ordinary portfolio)"""
        res, model, dt = self.solve_int(list(constraints), small_first=True)
        if res == 'sat':
            self.covers.append({'id': name, 'reachable': True, 'solver_s': round(dt, 3)})
            return model
        return self.cover(name, constraints)

    def cover_any(self, name, alternatives):
        """vacuity guard over several outcome states: at least one (pc, cond) must be satisfiable"""
        t = 0.0
        for pc, cond in alternatives:
            res, model, dt = self.solve(list(pc) + ([cond] if cond is not None else []))
            t += dt
            if res == 'sat':
                self.covers.append({'id': name, 'reachable': True, 'solver_s': round(t, 3)})
                return model
        self.covers.append({'id': name, 'reachable': False, 'solver_s': round(t, 3)})
        raise Inconclusive('vacuity guard %s is not satisfiable on any explored outcome' % name)

    def sample(self, obj):
        if len(self.samples) < 12:
            self.samples.append(obj)

    # ---- finish ----
    def write_evidence(self, status):
        it = self.interp
        cov = {
            'states': max(1, (it.stats['paths'] if it else 0) + self.paths),
            'transitions': max(1, it.stats['blocks'] if it else 0),
            'traces_validated_against_impl': self.tv,
            'samples': (self.samples or [o for o in self.obligations[:8]]) or [{'note': 'no obligation reached'}],
            'obligations': len(self.obligations),
            'discharged': sum(1 for o in self.obligations if str(o['verdict']).startswith('holds')),
            'obligation_list': self.obligations,
            'covers': self.covers,
            'bounds': self.bounds,
            'queries': self.queries + (it.stats['solver_calls'] if it else 0),
            'solver_time_s': round(self.solver_s + (it.stats['solver_s'] if it else 0.0), 2),
            'functions_encoded': sorted(it.functions_encoded) if it else [],
            'summaries_used': sorted(it.summaries_used) if it else [],
            'symbolic_calls': it.stats['calls'] if it else 0,
            'forks': it.stats['forks'] if it else 0,
            'status': status,
            'decided_by': self.decided_by,
            'known_findings_printed': self.known_printed,
            'translation_validation_samples': self.tv_samples[:5],
            'explanation': 'states = feasible symbolic paths explored to completion; transitions = MIR basic blocks '
                           'executed symbolically; every obligation is a z3 query (negated claim under the path '
                           'condition) that must be unsat.',
        }
        cov.update(self.extra)
        ev = {
            'property_id': self.pid,
            'tier': self.tier,
            'seed': self.seed,
            'level': 'model_checking',
            'coverage': cov,
            'assumptions': self.assumptions,
            'wall_s': round(time.time() - self.t0, 2),
            'violations': len(self.violations),
        }
        os.makedirs(EVIDENCE_DIR, exist_ok=True)
        tmp = os.path.join(EVIDENCE_DIR, self.pid + '.json.tmp')
        with open(tmp, 'w') as f:
            json.dump(ev, f, indent=1, default=str)
        os.replace(tmp, os.path.join(EVIDENCE_DIR, self.pid + '.json'))


def run_check(pid, body, tier, seed):
    """body(check) runs the property's obligations. Returns the process exit code."""
    chk = Check(pid, tier, seed)
    status = 'ok'
    code = 0
    try:
        body(chk)
        if chk.violations:
            status, code = 'violation', 1
        elif chk.deferred:
            status, code = 'inconclusive: %d kernel(s) gave no verdict: %s' % (len(chk.deferred), chk.deferred[0][:400]), 2
            print('INCONCLUSIVE property=%s %s' % (pid, status[:1500]))
        elif chk.unconfirmed:
            status, code = 'inconclusive: %d unconfirmed solver counterexample(s): %s' % (len(chk.unconfirmed), chk.unconfirmed[0][:300]), 2
            print('INCONCLUSIVE property=%s %s' % (pid, status[:1500]))
        elif not chk.obligations:
            status, code = 'inconclusive: no obligation was discharged', 2
    except (Inconclusive, Unsupported, MirSyntax) as e:
        if chk.violations:
            status, code = 'violation', 1
        else:
            status, code = 'inconclusive: %s: %s' % (type(e).__name__, e), 2
        print('INCONCLUSIVE property=%s %s: %s' % (pid, type(e).__name__, str(e)[:1500]))
    except Exception as e:  # harness bug: never a pass
        traceback.print_exc()
        status, code = 'inconclusive: harness error %s' % e, 2
        print('INCONCLUSIVE property=%s harness error: %s' % (pid, e))
    chk.write_evidence(status)
    n_ok = sum(1 for o in chk.obligations if str(o['verdict']).startswith('holds'))
    print('%s %s: %d/%d obligations hold, %d covers, %d paths, %.1fs (solver %.1fs) -> %s' % (
        pid, tier, n_ok, len(chk.obligations), len(chk.covers),
        chk.interp.stats['paths'] if chk.interp else 0, time.time() - chk.t0,
        chk.solver_s + (chk.interp.stats['solver_s'] if chk.interp else 0), status))
    return code

"""Summaries for Vec / slices / iterators / hash maps / rayon combinators (DESIGN §3).

Sequences have a concrete (harness-bounded) length and symbolic contents.  Maps are
association lists with symbolic keys: `get` returns an ite-chain over the entries, the
newest equal key winning; iteration yields the *live* entries (no later equal key).
rayon's parallel combinators get the sequential semantics of the same combinator.
"""
import re
import z3

from .interp import (Agg, EnumV, Ptr, Opaque, UNIT, UNINIT, Ret, Panic, Unsupported, bv, simp, mk_some, mk_none,
                     mk_option, mk_ok, mk_err, mk_enum, val_eq, ite_val, to_bool, is_variant, fresh, int_info)
from .summaries import summary, deref, fork_enum, _panic_fork, default_value


# ---------------------------------------------------------------------------
# sequences


def seq_of(it, st, v):
    """(ptr, Agg) for a Vec / slice / array value or pointer"""
    ptr = None
    while isinstance(v, Ptr):
        ptr = v
        v = it.load(st, v)
    if isinstance(v, Agg):
        return ptr, v
    raise Unsupported('expected a sequence, got %r' % (v,))


@summary(r'^Vec::<.*>::new$|^Vec::<.*>::with_capacity$')
def _vec_new(it, st, args, ctx):
    return Agg('Vec', [])


@summary(r'^Vec::<.*>::(len)$|^core::slice::<impl \[.*\]>::len$')
def _vec_len(it, st, args, ctx):
    _, s = seq_of(it, st, args[0])
    return bv(len(s.fields), 64)


@summary(r'^Vec::<.*>::is_empty$|^core::slice::<impl \[.*\]>::is_empty$')
def _vec_is_empty(it, st, args, ctx):
    _, s = seq_of(it, st, args[0])
    return z3.BoolVal(len(s.fields) == 0)


@summary(r'^Vec::<.*>::push$')
def _vec_push(it, st, args, ctx):
    v = it.load(st, args[0])
    it.store(st, args[0], Agg(v.ty, v.fields + (args[1],)))
    return UNIT


@summary(r'^<Vec<.*> as (std::ops::)?Index(Mut)?<usize>>::index(_mut)?$|^<\[.*\] as (std::ops::)?Index(Mut)?<usize>>::index(_mut)?$')
def _vec_index(it, st, args, ctx):
    ptr, s = seq_of(it, st, args[0])
    idx = args[1]
    n = len(s.fields)
    ok = z3.ULT(idx, bv(n, 64))
    if ptr is None:
        ptr = Ptr(st.alloc(s))
    return _panic_fork(it, st, ok, Ptr(ptr.cell, ptr.path + (('i', idx),)), 'index out of bounds', ctx)


@summary(r'^core::slice::<impl \[.*\]>::get::<usize>$')
def _slice_get(it, st, args, ctx):
    ptr, s = seq_of(it, st, args[0])
    idx = simp(args[1])
    n = len(s.fields)
    if ptr is None:
        ptr = Ptr(st.alloc(s))
    if n == 0:
        return mk_none()
    ok = simp(z3.ULT(idx, bv(n, 64)))
    return mk_option(ok, Ptr(ptr.cell, ptr.path + (('i', idx),)))


@summary(r'^core::slice::<impl \[.*\]>::(first|last)(_mut)?$|^Vec::<.*>::(first|last)(_mut)?$')
def _slice_first(it, st, args, ctx):
    ptr, s = seq_of(it, st, args[0])
    if not s.fields:
        return mk_none()
    if ptr is None:
        ptr = Ptr(st.alloc(s))
    i = 0 if 'first' in ctx.callee.rsplit('::', 1)[-1] else len(s.fields) - 1
    return mk_some(Ptr(ptr.cell, ptr.path + (('i', i),)))


@summary(r'^core::slice::<impl \[.*\]>::to_vec$|^<\[.*\] as ToOwned>::to_owned$')
def _slice_to_vec(it, st, args, ctx):
    _, s = seq_of(it, st, args[0])
    return Agg('Vec', s.fields)


@summary(r'^std::slice::from_ref::<')
def _from_ref(it, st, args, ctx):
    v = it.load(st, args[0])
    return Ptr(st.alloc(Agg('array', [v])))


# ---------------------------------------------------------------------------
# iterators


class IterM:
    """immutable iterator model"""

    def __init__(self, kind, **kw):
        self.kind = kind
        self.__dict__.update(kw)

    def replace(self, **kw):
        d = dict(self.__dict__)
        d.update(kw)
        k = d.pop('kind')
        return IterM(k, **d)

    def __repr__(self):
        return 'Iter(%s)' % self.kind


def mk_iter(m):
    return Opaque('Iter', m)


def iter_from_seq(it, st, v, by_ref=True, mutable=False):
    ptr, s = seq_of(it, st, v)
    if ptr is None or not by_ref:
        if by_ref:
            ptr = Ptr(st.alloc(s))
    return mk_iter(IterM('slice', ptr=ptr, items=s.fields, pos=0, by_ref=by_ref))


def iter_next(it, st, m, ctx):
    """-> list of (state, new IterM, item or None)   (item None = exhausted)"""
    k = m.kind
    if k == 'slice':
        if m.pos >= len(m.items):
            return [(st, m, None)]
        if m.by_ref:
            item = Ptr(m.ptr.cell, m.ptr.path + (('i', m.pos),))
        else:
            item = m.items[m.pos]
        return [(st, m.replace(pos=m.pos + 1), item)]
    if k == 'values':  # python list of values, by value
        if m.pos >= len(m.items):
            return [(st, m, None)]
        return [(st, m.replace(pos=m.pos + 1), m.items[m.pos])]
    if k == 'cond':  # list of (cond, value): yields value only when cond holds (live map entries)
        if m.pos >= len(m.items):
            return [(st, m, None)]
        cond, val = m.items[m.pos]
        cond = simp(cond)
        nm = m.replace(pos=m.pos + 1)
        outs = []
        if z3.is_true(cond):
            return [(st, nm, val)]
        if z3.is_false(cond):
            return iter_next(it, st, nm, ctx)
        if it.feasible(st, cond):
            s2 = st.fork()
            s2.assume(cond)
            outs.append((s2, nm, val))
        if it.feasible(st, z3.Not(cond)):
            st.assume(z3.Not(cond))
            outs.extend(iter_next(it, st, nm, ctx))
        return outs
    if k == 'enumerate':
        outs = []
        for s2, inner, item in iter_next(it, st, m.inner, ctx):
            if item is None:
                outs.append((s2, m.replace(inner=inner), None))
            else:
                outs.append((s2, m.replace(inner=inner, count=m.count + 1), Agg('tuple', [bv(m.count, 64), item])))
        return outs
    if k in ('copied', 'cloned'):
        outs = []
        for s2, inner, item in iter_next(it, st, m.inner, ctx):
            if item is not None:
                item = deref(it, s2, item)
            outs.append((s2, m.replace(inner=inner), item))
        return outs
    if k == 'map':
        outs = []
        for s2, inner, item in iter_next(it, st, m.inner, ctx):
            if item is None:
                outs.append((s2, m.replace(inner=inner), None))
                continue
            for s3, r in it.call_closure(s2, m.f, [item], ctx):
                if isinstance(r, Panic):
                    outs.append((s3, None, r))
                else:
                    outs.append((s3, m.replace(inner=inner), r.v))
        return outs
    if k in ('filter', 'filter_map'):
        outs = []
        for s2, inner, item in iter_next(it, st, m.inner, ctx):
            if item is None:
                outs.append((s2, m.replace(inner=inner), None))
                continue
            if k == 'filter':
                arg = Ptr(s2.alloc(item))
            else:
                arg = item
            for s3, r in it.call_closure(s2, m.f, [arg], ctx):
                if isinstance(r, Panic):
                    outs.append((s3, None, r))
                    continue
                nm = m.replace(inner=inner)
                if k == 'filter':
                    c = simp(to_bool(r.v))
                    if z3.is_true(c):
                        outs.append((s3, nm, item))
                    elif z3.is_false(c):
                        outs.extend(iter_next(it, s3, nm, ctx))
                    else:
                        if it.feasible(s3, c):
                            s4 = s3.fork()
                            s4.assume(c)
                            outs.append((s4, nm, item))
                        if it.feasible(s3, z3.Not(c)):
                            s3.assume(z3.Not(c))
                            outs.extend(iter_next(it, s3, nm, ctx))
                else:
                    for s4, name in fork_enum(it, s3, r.v, ['Some', 'None']):
                        if name == 'Some':
                            outs.append((s4, nm, r.v.payloads['Some'][0]))
                        else:
                            outs.extend(iter_next(it, s4, nm, ctx))
        return outs
    if k == 'flat_map':
        outs = []
        cur = m.cur
        if cur is not None:
            for s2, c2, item in iter_next(it, st, cur, ctx):
                if isinstance(item, Panic):
                    outs.append((s2, None, item))
                elif item is None:
                    outs.extend(iter_next(it, s2, m.replace(cur=None), ctx))
                else:
                    outs.append((s2, m.replace(cur=c2), item))
            return outs
        for s2, inner, item in iter_next(it, st, m.inner, ctx):
            if item is None:
                outs.append((s2, m.replace(inner=inner), None))
                continue
            for s3, r in it.call_closure(s2, m.f, [item], ctx):
                if isinstance(r, Panic):
                    outs.append((s3, None, r))
                    continue
                sub = r.v
                if isinstance(sub, Opaque) and sub.kind == 'Iter':
                    subm = sub.data
                else:
                    subm = iter_from_seq(it, s3, sub).data
                outs.extend(iter_next(it, s3, m.replace(inner=inner, cur=subm), ctx))
        return outs
    if k == 'take_while':
        outs = []
        if m.done:
            return [(st, m, None)]
        for s2, inner, item in iter_next(it, st, m.inner, ctx):
            if item is None:
                outs.append((s2, m.replace(inner=inner), None))
                continue
            arg = Ptr(s2.alloc(item))
            for s3, r in it.call_closure(s2, m.f, [arg], ctx):
                if isinstance(r, Panic):
                    outs.append((s3, None, r))
                    continue
                c = simp(to_bool(r.v))
                if z3.is_true(c) or (not z3.is_false(c) and it.feasible(s3, c)):
                    s4 = s3 if z3.is_true(c) else s3.fork()
                    s4.assume(c)
                    outs.append((s4, m.replace(inner=inner), item))
                if z3.is_false(c) or (not z3.is_true(c) and it.feasible(s3, z3.Not(c))):
                    s3.assume(z3.Not(c))
                    outs.append((s3, m.replace(inner=inner, done=True), None))
        return outs
    if k == 'rev':
        if m.pos >= len(m.items):
            return [(st, m, None)]
        idx = len(m.items) - 1 - m.pos
        item = Ptr(m.ptr.cell, m.ptr.path + (('i', idx),)) if m.by_ref else m.items[idx]
        return [(st, m.replace(pos=m.pos + 1), item)]
    raise Unsupported('iterator kind ' + k)


def iter_model(it, st, v):
    v0 = v
    while isinstance(v, Ptr):
        v = it.load(st, v)
    if isinstance(v, Opaque) and v.kind == 'Iter':
        return v.data
    if isinstance(v, Agg):
        return iter_from_seq(it, st, v0).data
    if isinstance(v, Opaque) and v.kind == 'Map':
        return map_iter(v.data, 'pairs').data
    raise Unsupported('not an iterator: %r' % (v,))


def drain(it, st, m, ctx):
    """run an iterator to exhaustion: -> list of (state, [items]) or (state, Panic)"""
    outs = []
    work = [(st, m, [])]
    while work:
        s, mm, acc = work.pop()
        for s2, m2, item in iter_next(it, s, mm, ctx):
            if isinstance(item, Panic):
                outs.append((s2, item))
            elif item is None:
                outs.append((s2, acc))
            else:
                work.append((s2, m2, acc + [item]))
    return outs


_ITER_T = r'(.+)'


@summary(r'^core::slice::<impl \[.*\]>::iter(_mut)?$|^<&(mut )?\[.*\] as IntoIterator>::into_iter$|^<&(mut )?Vec<.*> as IntoIterator>::into_iter$|^<\[.*\] as IntoParallelRefIterator<.*>>::par_iter$|^<Vec<.*> as IntoParallelRefIterator<.*>>::par_iter$|^<&\[.*\] as IntoParallelIterator>::into_par_iter$|^<&Vec<.*> as IntoParallelIterator>::into_par_iter$')
def _slice_iter(it, st, args, ctx):
    v = args[0]
    while isinstance(v, Ptr):
        v = it.load(st, v)
    if isinstance(v, Opaque) and v.kind == 'CovOps':
        return Opaque('CovOpsIter', v.data)
    return iter_from_seq(it, st, args[0])


@summary(r'^core::slice::<impl \[.*\]>::(chunks|chunks_exact)$|^<(\[.*\]|Vec<.*>) as (rayon::slice::)?ParallelSlice<.*>>::par_chunks(_exact)?$')
def _slice_chunks(it, st, args, ctx):
    """consecutive sub-slices of `size` elements (the last one shorter; dropped by the _exact forms), in order"""
    ptr, s = seq_of(it, st, args[0])
    size = simp(args[1])
    if not z3.is_bv_value(size):
        raise Unsupported('chunks with a symbolic chunk size')
    size = size.as_long()
    if size == 0:
        return [(st, Panic('chunk size must be non-zero', ctx.where if hasattr(ctx, 'where') else ''))]
    if ptr is None:
        ptr = Ptr(st.alloc(s))
    n = len(s.fields)
    items = []
    for a in range(0, n, size):
        b = min(a + size, n)
        if b - a < size and ctx.callee.endswith('_exact'):
            break
        items.append(Ptr(ptr.cell, ptr.path + (('sub', a, b, False),)))
    return mk_iter(IterM('values', items=items, pos=0))


@summary(r'^<Vec<.*> as IntoIterator>::into_iter$')
def _vec_into_iter(it, st, args, ctx):
    _, s = seq_of(it, st, args[0])
    return mk_iter(IterM('values', items=list(s.fields), pos=0))


@summary(r'^<' + _ITER_T + r' as IntoIterator>::into_iter$')
def _iter_into_iter(it, st, args, ctx):
    return args[0]


@summary(r'^<' + _ITER_T + r' as (Iterator|DoubleEndedIterator)>::next$')
def _iter_next(it, st, args, ctx):
    m = iter_model(it, st, args[0])
    outs = []
    for s2, m2, item in iter_next(it, st, m, ctx):
        if isinstance(item, Panic):
            outs.append((s2, item))
            continue
        it.store(s2, args[0], mk_iter(m2))
        outs.append((s2, Ret(mk_none() if item is None else mk_some(item))))
    return outs


def _adaptor(kind):
    def f(it, st, args, ctx):
        m = iter_model(it, st, args[0])
        if kind == 'enumerate':
            return mk_iter(IterM('enumerate', inner=m, count=0))
        if kind in ('copied', 'cloned'):
            return mk_iter(IterM(kind, inner=m))
        if kind == 'flat_map':
            return mk_iter(IterM('flat_map', inner=m, f=args[1], cur=None))
        if kind == 'take_while':
            return mk_iter(IterM('take_while', inner=m, f=args[1], done=False))
        return mk_iter(IterM(kind, inner=m, f=args[1]))
    return f


for _k in ('enumerate', 'copied', 'cloned', 'map', 'filter', 'filter_map', 'flat_map', 'take_while'):
    summary(r'^<' + _ITER_T + r' as (Iterator|ParallelIterator|IndexedParallelIterator)>::' + _k + r'(::<.*)?$')(_adaptor(_k))


@summary(r'^<' + _ITER_T + r' as (Iterator|DoubleEndedIterator)>::rev$')
def _iter_rev(it, st, args, ctx):
    m = iter_model(it, st, args[0])
    if m.kind != 'slice' or m.pos != 0:
        raise Unsupported('rev of ' + m.kind)
    return mk_iter(IterM('rev', ptr=m.ptr, items=m.items, pos=0, by_ref=m.by_ref))


def _drained(f):
    """helper: summary body receives (state, items)"""
    def g(it, st, args, ctx):
        m = iter_model(it, st, args[0])
        outs = []
        for s2, items in drain(it, st, m, ctx):
            if isinstance(items, Panic):
                outs.append((s2, items))
                continue
            r = f(it, s2, items, args, ctx)
            if isinstance(r, list):
                outs.extend(r)
            else:
                outs.append((s2, r if isinstance(r, (Ret, Panic)) else Ret(r)))
        return outs
    return g


@summary(r'^<' + _ITER_T + r' as Iterator>::count$')
@_drained
def _iter_count(it, st, items, args, ctx):
    return bv(len(items), 64)


def _sum_values(it, st, items, ctx, ty):
    info = int_info(ty)
    if info is None:
        if ty.endswith('CoinValue'):
            acc = bv(0, 128)
            oks = []
            for x in items:
                x = deref(it, st, x).fields[0]
                oks.append(z3.BVAddNoOverflow(acc, x, False))
                acc = acc + x
            return acc, oks, lambda v: Agg('CoinValue', [v])
        raise Unsupported('sum of ' + ty)
    acc = bv(0, info[0])
    oks = []
    for x in items:
        x = deref(it, st, x)
        oks.append(z3.BVAddNoOverflow(acc, x, info[1]))
        acc = acc + x
    return acc, oks, lambda v: v


@summary(r'^<' + _ITER_T + r' as Iterator>::sum::<')
@_drained
def _iter_sum(it, st, items, args, ctx):
    ty = re.search(r'::sum::<(.*)>$', ctx.callee).group(1)
    acc, oks, wrap = _sum_values(it, st, items, ctx, ty)
    ok = simp(z3.And(oks)) if oks else z3.BoolVal(True)
    return _panic_fork(it, st, ok, wrap(acc), 'attempt to add with overflow (Iterator::sum)', ctx)


@summary(r'^<' + _ITER_T + r' as Iterator>::fold::<')
def _iter_fold(it, st, args, ctx):
    m = iter_model(it, st, args[0])
    outs = []
    for s2, items in drain(it, st, m, ctx):
        if isinstance(items, Panic):
            outs.append((s2, items))
            continue
        work = [(s2, args[1], 0)]
        while work:
            s3, acc, i = work.pop()
            if i == len(items):
                outs.append((s3, Ret(acc)))
                continue
            for s4, r in it.call_closure(s3, args[2], [acc, items[i]], ctx):
                if isinstance(r, Panic):
                    outs.append((s4, r))
                else:
                    work.append((s4, r.v, i + 1))
    return outs


@summary(r'^<' + _ITER_T + r' as (Iterator|ParallelIterator)>::for_each::<')
def _iter_for_each(it, st, args, ctx):
    m = iter_model(it, st, args[0])
    outs = []
    for s2, items in drain(it, st, m, ctx):
        if isinstance(items, Panic):
            outs.append((s2, items))
            continue
        work = [(s2, 0)]
        while work:
            s3, i = work.pop()
            if i == len(items):
                outs.append((s3, Ret(UNIT)))
                continue
            for s4, r in it.call_closure(s3, args[1], [items[i]], ctx):
                if isinstance(r, Panic):
                    outs.append((s4, r))
                else:
                    work.append((s4, i + 1))
    return outs


@summary(r'^<' + _ITER_T + r' as (Iterator)>::(find)::<')
def _iter_find(it, st, args, ctx):
    m = iter_model(it, st, args[0])
    outs = []
    for s2, items in drain(it, st, m, ctx):
        if isinstance(items, Panic):
            outs.append((s2, items))
            continue
        work = [(s2, 0)]
        while work:
            s3, i = work.pop()
            if i == len(items):
                outs.append((s3, Ret(mk_none())))
                continue
            arg = Ptr(s3.alloc(items[i]))
            for s4, r in it.call_closure(s3, args[1], [arg], ctx):
                if isinstance(r, Panic):
                    outs.append((s4, r))
                    continue
                c = simp(to_bool(r.v))
                if not z3.is_false(c) and it.feasible(s4, c):
                    s5 = s4.fork()
                    s5.assume(c)
                    outs.append((s5, Ret(mk_some(items[i]))))
                if not z3.is_true(c) and it.feasible(s4, z3.Not(c)):
                    s4.assume(z3.Not(c))
                    work.append((s4, i + 1))
    return outs


@summary(r'^<' + _ITER_T + r' as Iterator>::partition::<')
def _iter_partition(it, st, args, ctx):
    """(items for which the predicate holds, the others), each in iteration order; one path per feasible verdict vector"""
    m = iter_model(it, st, args[0])
    outs = []
    for s2, items in drain(it, st, m, ctx):
        if isinstance(items, Panic):
            outs.append((s2, items))
            continue
        work = [(s2, 0, [], [])]
        while work:
            s3, i, yes, no = work.pop()
            if i == len(items):
                outs.append((s3, Ret(Agg('tuple', [Agg('Vec', yes), Agg('Vec', no)]))))
                continue
            item = items[i]
            arg = item if isinstance(item, Ptr) else Ptr(s3.alloc(item))
            for s4, r in it.call_closure(s3, args[1], [arg], ctx):
                if isinstance(r, Panic):
                    outs.append((s4, r))
                    continue
                c = simp(to_bool(r.v))
                if not z3.is_false(c) and it.feasible(s4, c):
                    s5 = s4 if z3.is_true(c) else s4.fork()
                    s5.assume(c)
                    work.append((s5, i + 1, yes + [item], list(no)))
                if not z3.is_true(c) and it.feasible(s4, z3.Not(c)):
                    s4.assume(z3.Not(c))
                    work.append((s4, i + 1, list(yes), no + [item]))
    return outs


def _opaque_ops_iter(it, st, v):
    while isinstance(v, Ptr):
        v = it.load(st, v)
    return v if isinstance(v, Opaque) and v.kind == 'CovOpsIter' else None


OPS_PRED = z3.Function('ops_predicate', z3.BitVecSort(256), z3.IntSort(), z3.BoolSort())
_OPS_PRED_IDS = {}


@summary(r'^<' + _ITER_T + r' as (Iterator|ParallelIterator)>::(any|all)::<')
def _iter_any_all(it, st, args, ctx):
    is_any = '::any::<' in ctx.callee
    ops = _opaque_ops_iter(it, st, args[0])
    if ops is not None:
        # a pure predicate over the decoded instructions of a covenant is a function of the covenant's bytes: one
        # uninterpreted predicate per (closure, covenant)
        key = ctx.callee.split('::<', 1)[-1]
        pid = _OPS_PRED_IDS.setdefault(key, len(_OPS_PRED_IDS))
        return OPS_PRED(ops.data[0], z3.IntVal(pid))
    m = iter_model(it, st, args[0])
    outs = []
    for s2, items in drain(it, st, m, ctx):
        if isinstance(items, Panic):
            outs.append((s2, items))
            continue
        work = [(s2, 0)]
        while work:
            s3, i = work.pop()
            if i == len(items):
                outs.append((s3, Ret(z3.BoolVal(not is_any))))
                continue
            for s4, r in it.call_closure(s3, args[1], [items[i]], ctx):
                if isinstance(r, Panic):
                    outs.append((s4, r))
                    continue
                c = simp(to_bool(r.v))
                stop = c if is_any else simp(z3.Not(c))  # any stops at the first true, all at the first false
                if not z3.is_false(stop) and it.feasible(s4, stop):
                    s5 = s4.fork()
                    s5.assume(stop)
                    outs.append((s5, Ret(z3.BoolVal(is_any))))
                if not z3.is_true(stop) and it.feasible(s4, z3.Not(stop)):
                    s4.assume(z3.Not(stop))
                    work.append((s4, i + 1))
    return outs


@summary(r'^<' + _ITER_T + r' as Iterator>::position::<')
def _iter_position(it, st, args, ctx):
    m = iter_model(it, st, args[0])
    outs = []
    for s2, items in drain(it, st, m, ctx):
        if isinstance(items, Panic):
            outs.append((s2, items))
            continue
        work = [(s2, 0)]
        while work:
            s3, i = work.pop()
            if i == len(items):
                outs.append((s3, Ret(mk_none())))
                continue
            for s4, r in it.call_closure(s3, args[1], [items[i]], ctx):
                if isinstance(r, Panic):
                    outs.append((s4, r))
                    continue
                c = simp(to_bool(r.v))
                if not z3.is_false(c) and it.feasible(s4, c):
                    s5 = s4.fork()
                    s5.assume(c)
                    outs.append((s5, Ret(mk_some(bv(i, 64)))))
                if not z3.is_true(c) and it.feasible(s4, z3.Not(c)):
                    s4.assume(z3.Not(c))
                    work.append((s4, i + 1))
    return outs


@summary(r'^<' + _ITER_T + r' as (Iterator|ParallelIterator)>::collect::<')
@_drained
def _iter_collect(it, st, items, args, ctx):
    target = re.search(r'::collect::<(.*)>$', ctx.callee).group(1)
    tb = target.split('<')[0].split('::')[-1]
    if tb == 'Vec':
        return Agg('Vec', items)
    if tb in ('HashMap', 'BTreeMap', 'OrdMap'):
        mm = MapM(ordered=(tb != 'HashMap'))
        for x in items:
            x = deref(it, st, x) if isinstance(x, Ptr) else x
            mm = mm.insert(x.fields[0], x.fields[1])
        return Opaque('Map', mm)
    if tb in ('HashSet', 'BTreeSet'):
        mm = MapM()
        for x in items:
            mm = mm.insert(x, UNIT)
        return Opaque('Map', mm)
    if tb == 'TransactionSet':
        # TransactionSet: FromIterator<Transaction> is melstf's own code: run it on the drained items
        sub = type('C', (), {})()
        sub.__dict__.update(ctx.__dict__)
        sub.callee = '<TransactionSet as FromIterator<Transaction>>::from_iter'
        src = mk_iter(IterM('values', items=[deref(it, st, x) if isinstance(x, Ptr) else x for x in items], pos=0))
        return it.call(st, sub.callee, [src], sub)
    raise Unsupported('collect into ' + target)


# rayon try_* (sequential semantics; see DESIGN §3 for the contract relied upon)


def _is_ok_variant(v):
    return 'Ok' if v.ty == 'Result' else 'Some'


@summary(r'^<' + _ITER_T + r' as ParallelIterator>::try_for_each::<')
def _try_for_each(it, st, args, ctx):
    m = iter_model(it, st, args[0])
    outs = []
    for s2, items in drain(it, st, m, ctx):
        if isinstance(items, Panic):
            outs.append((s2, items))
            continue
        work = [(s2, 0)]
        while work:
            s3, i = work.pop()
            if i == len(items):
                outs.append((s3, Ret(mk_ok(UNIT))))
                continue
            for s4, r in it.call_closure(s3, args[1], [items[i]], ctx):
                if isinstance(r, Panic):
                    outs.append((s4, r))
                    continue
                for s5, name in fork_enum(it, s4, r.v, ['Ok', 'Err']):
                    if name == 'Ok':
                        work.append((s5, i + 1))
                    else:
                        # rayon may report any failing element's error; the first one is taken as representative
                        outs.append((s5, Ret(mk_err(r.v.payloads['Err'][0]))))
    return outs


@summary(r'^<' + _ITER_T + r' as ParallelIterator>::try_fold::<')
def _try_fold(it, st, args, ctx):
    # (iter, identity closure, fold closure) -> a "TryFold" iterator of ONE partial result (sequential split)
    m = iter_model(it, st, args[0])
    outs = []
    for s2, items in drain(it, st, m, ctx):
        if isinstance(items, Panic):
            outs.append((s2, items))
            continue
        for s3, r0 in it.call_closure(s2, args[1], [], ctx):
            if isinstance(r0, Panic):
                outs.append((s3, r0))
                continue
            work = [(s3, r0.v, 0)]
            while work:
                s4, acc, i = work.pop()
                if i == len(items):
                    outs.append((s4, Ret(mk_iter(IterM('values', items=[mk_ok(acc)], pos=0)))))
                    continue
                for s5, r in it.call_closure(s4, args[2], [acc, items[i]], ctx):
                    if isinstance(r, Panic):
                        outs.append((s5, r))
                        continue
                    for s6, name in fork_enum(it, s5, r.v, ['Ok', 'Err']):
                        if name == 'Ok':
                            work.append((s6, r.v.payloads['Ok'][0], i + 1))
                        else:
                            outs.append((s6, Ret(mk_iter(IterM('values', items=[r.v], pos=0)))))
    return outs


@summary(r'^<' + _ITER_T + r' as ParallelIterator>::try_reduce::<')
def _try_reduce(it, st, args, ctx):
    # (iter of Result partials, identity closure, reduce closure)
    m = iter_model(it, st, args[0])
    outs = []
    for s2, items in drain(it, st, m, ctx):
        if isinstance(items, Panic):
            outs.append((s2, items))
            continue
        for s3, r0 in it.call_closure(s2, args[1], [], ctx):
            if isinstance(r0, Panic):
                outs.append((s3, r0))
                continue
            work = [(s3, r0.v, 0)]
            while work:
                s4, acc, i = work.pop()
                if i == len(items):
                    outs.append((s4, Ret(mk_ok(acc))))
                    continue
                part = items[i]
                for s5, name in fork_enum(it, s4, part, ['Ok', 'Err']):
                    if name == 'Err':
                        outs.append((s5, Ret(part)))
                        continue
                    for s6, r in it.call_closure(s5, args[2], [acc, part.payloads['Ok'][0]], ctx):
                        if isinstance(r, Panic):
                            outs.append((s6, r))
                            continue
                        for s7, n2 in fork_enum(it, s6, r.v, ['Ok', 'Err']):
                            if n2 == 'Ok':
                                work.append((s7, r.v.payloads['Ok'][0], i + 1))
                            else:
                                outs.append((s7, Ret(r.v)))
    return outs


# ---------------------------------------------------------------------------
# maps / sets


class MapM:
    """association list, newest last: (key, value, guard) -- an entry only counts when its guard holds"""

    def __init__(self, entries=(), ordered=False):
        self.entries = tuple(e if len(e) == 3 else (e[0], e[1], z3.BoolVal(True)) for e in entries)
        self.ordered = ordered

    def insert(self, k, v, g=None):
        return MapM(self.entries + ((k, v, z3.BoolVal(True) if g is None else g),), self.ordered)

    def sym_ite(self, c, other):
        p = 0
        while p < len(self.entries) and p < len(other.entries) and self.entries[p] is other.entries[p]:
            p += 1
        ents = list(self.entries[:p])
        for (k, v, g) in self.entries[p:]:
            ents.append((k, v, simp(z3.And(c, g))))
        for (k, v, g) in other.entries[p:]:
            ents.append((k, v, simp(z3.And(z3.Not(c), g))))
        return MapM(ents, self.ordered)

    def reach(self):
        out = []
        for k, v, g in self.entries:
            out.append(k)
            out.append(v)
        return out

    def __repr__(self):
        return 'Map(%d)' % len(self.entries)


def map_of(it, st, v):
    v = deref(it, st, v)
    if isinstance(v, Opaque) and v.kind == 'Map':
        return v.data
    raise Unsupported('expected a map, got %r' % (v,))


def map_lookup(mm, key):
    """(found: Bool, value or None) -- newest equal key wins"""
    found = z3.BoolVal(False)
    val = None
    for k, v, g in mm.entries:
        c = simp(z3.And(g, val_eq(k, key)))
        if z3.is_false(c):
            continue
        if val is None:
            val = v
            found = c
        else:
            val = ite_val(c, v, val) if not z3.is_true(c) else v
            found = simp(z3.Or(found, c))
    return found, val


def live_conds(mm):
    out = []
    es = mm.entries
    for i, (k, v, g) in enumerate(es):
        later = [z3.And(g2, val_eq(k, k2)) for k2, _, g2 in es[i + 1:]]
        out.append(simp(z3.And(g, z3.Not(z3.Or(later)))) if later else g)
    return out


def map_iter(mm, what):
    items = []
    for (k, v, _g), c in zip(mm.entries, live_conds(mm)):
        if what == 'pairs':
            items.append((c, ('pair', k, v)))
        elif what == 'keys':
            items.append((c, ('key', k)))
        else:
            items.append((c, ('val', v)))
    return mk_iter(IterM('mapiter', items=items, pos=0, what=what, by_ref=True))


_MAP_T = r'(std::collections::|dashmap::)?(HashMap|HashSet|BTreeMap|BTreeSet|DashMap|DashSet)::<.*>'
_IMBL_T = r'(imbl::)?(HashMap|OrdMap)::<.*>'


@summary(r'^<(std::collections::)?(HashMap|HashSet|BTreeMap|BTreeSet)<.*> as Default>::default$|^' + _MAP_T + r'::new$')
def _map_default(it, st, args, ctx):
    return Opaque('Map', MapM(ordered='BTree' in ctx.callee))


@summary(r'^' + _MAP_T + r'::(get|get_mut)::<')
def _map_get(it, st, args, ctx):
    mm = map_of(it, st, args[0])
    key = deref(it, st, args[1])
    found, val = map_lookup(mm, key)
    if val is None:
        return mk_none()
    cell = st.alloc(val)
    return mk_option(found, Ptr(cell))


@summary(r'^<(std::collections::)?(HashMap|BTreeMap)<.*> as (std::ops::)?Index<&.*>>::index$')
def _map_index(it, st, args, ctx):
    """map[&key]: a reference to the value; panics when the key is absent"""
    from .summaries import _panic_fork
    mm = map_of(it, st, args[0])
    key = deref(it, st, args[1])
    found, val = map_lookup(mm, key)
    if val is None:
        return Panic('key not found in map index', ctx.fn.name if ctx.fn else '')
    return _panic_fork(it, st, found, Ptr(st.alloc(val)), 'key not found in map index', ctx)


@summary(r'^' + _MAP_T + r'::(contains_key|contains)::<')
def _map_contains(it, st, args, ctx):
    mm = map_of(it, st, args[0])
    key = deref(it, st, args[1])
    found, _ = map_lookup(mm, key)
    return found


@summary(r'^' + _MAP_T + r'::insert$')
def _map_insert(it, st, args, ctx):
    mm = map_of(it, st, args[0])
    if len(args) == 3:
        found, old = map_lookup(mm, args[1])
        it.store(st, args[0], Opaque('Map', mm.insert(args[1], args[2])))
        return mk_none() if old is None else mk_option(found, old)
    # set insert: returns true iff newly inserted.  Sets of references compare the referents.
    key = args[1]
    kv = deref(it, st, key) if isinstance(key, Ptr) else key
    found, _ = map_lookup(mm, kv)
    it.store(st, args[0], Opaque('Map', mm.insert(kv, UNIT)))
    return simp(z3.Not(found))


@summary(r'^' + _MAP_T + r'::(is_empty)$')
def _map_is_empty(it, st, args, ctx):
    mm = map_of(it, st, args[0])
    return simp(z3.Not(z3.Or([g for _, _, g in mm.entries]))) if mm.entries else z3.BoolVal(True)


@summary(r'^' + _MAP_T + r'::(len)$')
def _map_len(it, st, args, ctx):
    mm = map_of(it, st, args[0])
    n = bv(0, 64)
    for c in live_conds(mm):
        n = n + z3.If(c, bv(1, 64), bv(0, 64))
    return simp(n)


@summary(r'^' + _MAP_T + r'::(clear)$')
def _map_clear(it, st, args, ctx):
    mm = map_of(it, st, args[0])
    it.store(st, args[0], Opaque('Map', MapM(ordered=mm.ordered)))
    return UNIT


@summary(r'^<(std::collections::)?HashMap<.*> as Extend<.*>>::extend::<')
def _map_extend(it, st, args, ctx):
    mm = map_of(it, st, args[0])
    other = deref(it, st, args[1])
    if isinstance(other, Opaque) and other.kind == 'Map':
        for k, v, g in other.data.entries:
            mm = mm.insert(k, v, g)
        it.store(st, args[0], Opaque('Map', mm))
        return UNIT
    raise Unsupported('extend from %r' % (other,))


@summary(r'^<(std::collections::)?(HashMap|BTreeMap)<.*> as Clone>::clone$')
def _map_clone(it, st, args, ctx):
    return deref(it, st, args[0])


def _mapiter_next(it, st, m, ctx):
    """iterate live entries; forks on liveness"""
    pos = m.pos
    outs = []
    while pos < len(m.items):
        cond, payload = m.items[pos]
        pos += 1
        cond = simp(cond)
        if z3.is_false(cond):
            continue
        nm = m.replace(pos=pos)
        if z3.is_true(cond):
            outs.append((st, nm, payload))
            return outs
        if it.feasible(st, cond):
            s2 = st.fork()
            s2.assume(cond)
            outs.append((s2, nm, payload))
        if not it.feasible(st, z3.Not(cond)):
            return outs
        st.assume(z3.Not(cond))
    outs.append((st, m.replace(pos=pos), None))
    return outs


def _payload_item(st, payload, by_ref):
    kind = payload[0]
    if kind == 'pair':
        if by_ref:
            return Agg('tuple', [Ptr(st.alloc(payload[1])), Ptr(st.alloc(payload[2]))])
        return Agg('tuple', [payload[1], payload[2]])
    v = payload[1]
    return Ptr(st.alloc(v)) if by_ref else v


_old_iter_next = iter_next


def iter_next(it, st, m, ctx):  # noqa: F811  (extends the dispatcher with map iterators)
    if m.kind == 'mapiter':
        outs = []
        for s2, nm, payload in _mapiter_next(it, st, m, ctx):
            outs.append((s2, nm, None if payload is None else _payload_item(s2, payload, m.by_ref)))
        return outs
    return _old_iter_next(it, st, m, ctx)


def _mk_mapiter(mm, what, by_ref):
    mi = map_iter(mm, what).data
    return mk_iter(mi.replace(by_ref=by_ref))


@summary(r'^' + _MAP_T + r'::(iter|keys|values)$|^' + _IMBL_T + r'::(iter|keys|values)$')
def _map_iter(it, st, args, ctx):
    mm = map_of(it, st, args[0])
    what = {'iter': 'pairs', 'keys': 'keys', 'values': 'values'}[ctx.callee.rsplit('::', 1)[1]]
    if 'Set::<' in ctx.callee:
        what = 'keys'
    return _mk_mapiter(mm, what, True)


@summary(r'^<(std::collections::)?(HashMap|BTreeMap|HashSet)<.*> as IntoIterator>::into_iter$')
def _map_into_iter(it, st, args, ctx):
    mm = map_of(it, st, args[0])
    return _mk_mapiter(mm, 'keys' if 'Set<' in ctx.callee else 'pairs', False)


@summary(r'^<&(std::collections::)?(HashMap|BTreeMap|HashSet)<.*> as IntoIterator>::into_iter$')
def _map_ref_into_iter(it, st, args, ctx):
    mm = map_of(it, st, args[0])
    return _mk_mapiter(mm, 'keys' if 'Set<' in ctx.callee else 'pairs', True)


@summary(r'^core::slice::<impl \[.*\]>::split_first$')
def _split_first(it, st, args, ctx):
    ptr, s = seq_of(it, st, args[0])
    if not s.fields:
        return mk_none()
    if ptr is None:
        ptr = Ptr(st.alloc(s))
    first = Ptr(ptr.cell, ptr.path + (('i', 0),))
    rest = Ptr(ptr.cell, ptr.path + (('sub', 1, 0, True),))
    return mk_some(Agg('tuple', [first, rest]))


# ---------------------------------------------------------------------------
# ordering of values with derived Ord (lexicographic over fields; enums by discriminant, then payload),
# sorting / deduplication of short vectors of such values


def val_lt(a, b):
    """a < b under derive(Ord): (strictly-less Bool)"""
    from .interp import disc_term, _is_variant
    if isinstance(a, Agg) and isinstance(b, Agg):
        lt = z3.BoolVal(False)
        for x, y in reversed(list(zip(a.fields, b.fields))):
            lt = z3.Or(val_lt(x, y), z3.And(val_eq(x, y), lt))
        return lt
    if isinstance(a, EnumV) and isinstance(b, EnumV):
        da, db = disc_term(a), disc_term(b)
        same = z3.BoolVal(False)
        for name in set(a.payloads) & set(b.payloads):
            pa, pb = a.payloads[name], b.payloads[name]
            if pa:
                same = z3.Or(same, z3.And(_is_variant(a, name), val_lt(Agg('t', list(pa)), Agg('t', list(pb)))))
        return z3.Or(z3.ULT(da, db), z3.And(da == db, same))
    if isinstance(a, z3.ExprRef) and z3.is_bv(a):
        return z3.ULT(a, b)
    raise Unsupported('ordering of %r' % (a,))


def _ite_value(c, a, b):
    from .interp import ite_val
    return ite_val(simp(c), a, b)


@summary(r'^(core|std)::slice::<impl \[.*\]>::(sort|sort_unstable)$|^Vec::<.*>::(sort|sort_unstable)$')
def _slice_sort(it, st, args, ctx):
    ptr, s = seq_of(it, st, args[0])
    xs = list(s.fields)
    n = len(xs)
    # odd-even transposition network: n rounds of compare-exchange, every element an ite over the inputs
    for rnd in range(n):
        for i in range(rnd % 2, n - 1, 2):
            swap = val_lt(xs[i + 1], xs[i])
            xs[i], xs[i + 1] = _ite_value(swap, xs[i + 1], xs[i]), _ite_value(swap, xs[i], xs[i + 1])
    it.store(st, ptr, Agg(s.ty, xs))
    return UNIT


@summary(r'^Vec::<.*>::dedup$')
def _vec_dedup(it, st, args, ctx):
    ptr, s = seq_of(it, st, args[0])
    xs = list(s.fields)
    outs = []
    work = [(st, [], 0)]
    while work:
        s2, kept, i = work.pop()
        if i == len(xs):
            it.store(s2, ptr, Agg(s.ty, kept))
            outs.append((s2, Ret(UNIT)))
            continue
        if not kept:
            work.append((s2, [xs[i]], i + 1))
            continue
        dup = simp(val_eq(kept[-1], xs[i]))
        if not z3.is_false(dup) and it.feasible(s2, dup):
            f = s2.fork()
            f.assume(dup)
            work.append((f, list(kept), i + 1))
        if not z3.is_true(dup) and it.feasible(s2, z3.Not(dup)):
            s2.assume(z3.Not(dup))
            work.append((s2, kept + [xs[i]], i + 1))
    return outs


@summary(r'^<.* as (tap::)?Pipe>::pipe::<')
def _tap_pipe(it, st, args, ctx):
    return it.call_closure(st, args[1], [args[0]], ctx)

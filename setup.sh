#!/bin/bash
# Builds what the checks need from files on disk only (offline).
set -e
cd "$(dirname "$0")"
export CARGO_NET_OFFLINE=true
mkdir -p build evidence
python3-vt -c "import z3; print('z3', z3.get_version_string())"
# warm the MIR dumps and the native replay binary (dev profile); the checks rebuild both from /repo on every run
python3-vt - <<'PY'
import sys
sys.path.insert(0, '.')
from mirsym import loader, harness
print(loader.emit_mir())
print(harness.build_replay('dev'))
PY

//! Kani / CBMC cross-check of the C12 encoder used by mirsym: the same property, decided by an independent compilation of the
//! same melvm sources (rustc -> Kani's goto-program -> CBMC), on every byte string of at most 3 bytes.
#[cfg(kani)]
mod proofs {
    use melvm::opcode::OpCode;

    /// decode o encode on all byte strings of length <= 3: whatever decodes re-encodes to exactly the bytes consumed, and
    /// decoding never panics.  unwind 34: the encoder's 32-byte scans (PushI / PushIC) need 33, checked by the unwinding assertion.
    #[kani::proof]
    #[kani::unwind(34)]
    fn decode_then_encode_all_strings_up_to_3_bytes() {
        let len: usize = kani::any();
        kani::assume(len <= 3);
        let buf: [u8; 3] = kani::any();
        let mut cur: &[u8] = &buf[..len];
        if let Ok(op) = OpCode::decode(&mut cur) {
            let consumed = len - cur.len();
            assert!(consumed >= 1);
            let mut out: Vec<u8> = Vec::new();
            assert!(op.encode(&mut out).is_ok());
            assert!(out.len() == consumed);
            let mut i = 0;
            while i < consumed {
                assert!(out[i] == buf[i]);
                i += 1;
            }
        }
    }

    /// vacuity witness: some 3-byte string decodes (the twin whose final assertion must FAIL)
    #[kani::proof]
    #[kani::unwind(34)]
    fn witness_some_string_decodes() {
        let buf: [u8; 3] = kani::any();
        let mut cur: &[u8] = &buf[..];
        kani::cover!(OpCode::decode(&mut cur).is_ok());
    }
}

#!/usr/bin/env python3
"""Regenerates MANIFEST.json from the table below and validates it against the schema."""
import json
import os
import sys

VERIF = os.path.dirname(os.path.dirname(os.path.abspath(__file__)))

HOOK_COMMITS = ['0391044', '59799cb', '319c33a']

COMMON_NOTE = ('Bounded: holds for all values inside the stated bounds under the listed summaries/assumptions '
               '(evidence.assumptions, coverage.summaries_used); trusted base: rustc MIR emission, the mirsym encoder '
               '(translation-validated against the native build on every run), z3 5.1.')

CLAIMS = {
    'C01': {
        'text': 'Conservation as a composition. Decided here on the MIR: check_tx_validity on a symbolic transaction (2 in / 2 out; '
                'thorough 3 / 3) accepts only if, for a universally quantified denomination other than the transaction\'s own new '
                'token, outputs (+ fee for MEL) do not exceed the inputs; apply_tip_909 mints at most 2^20 micro-SYM, only into the '
                'SYM reserves of MEL/SYM and ERG/SYM, and moves the MEL it buys from the pool to the fee pool unchanged; '
                'process_pegging rewrites nothing but the MEL/SYM pool through two one-sided swap_many calls. Composed by reference '
                'with C02 (exact coin-set transition, no double spend), C05 (fees, reward), C15/C16 (settlement pays coins no more '
                'than left the pool), C18 (ERG mint cap), C19 (faucets).',
        'design_ref': 'DESIGN.md §8 C01, §12',
        'note': COMMON_NOTE + ' The sum over a whole sealed block is not formed inside one query; the size of the peg adjustment is '
                'not bounded here (it is one of the issuance rules the property allows). Over-issuance of liquidity tokens by '
                'multi-deposit blocks is a known finding of C16.',
        'technique': 'bounded symbolic execution of rustc MIR + z3 (bit-vectors; integer translation for the pool contract facts); '
                     'structural MIR check for the pegging frame; assume-guarantee composition across checks',
    },
    'C09': {
        'text': 'Panic-freedom of the encoded apply and seal kernels (MIR built with overflow checks on): apply_tx_batch on a symbolic '
                'transaction / batch, the DoscMint validation path with melpow\'s proof-map indexing made explicit, '
                'Transaction::base_fee / weight, collect_proposer_action_fee, and the three melmint per-pool settlement functions on '
                '1-2 requests against ANY pool a request can name (reserves and liquidity in [0, 2^127]: user-created pools can be '
                'drained or start one-sided; the exact panic regions of PoolState::{swap_many, deposit, withdraw} come from C16): '
                'every assert, overflow check, unwrap / expect / index and division forks a path, and the panic side must be '
                'unreachable under P-SUPPLY (totals <= 2^127). A call-site kernel discharges the precondition of the `expect` in '
                'validate_and_get_doscmint_speed: check_tx_validity accepts no DoscMint transaction without inputs.',
        'design_ref': 'DESIGN.md §8 C09, §12',
        'note': COMMON_NOTE + ' Partial: create_builtins and the fee-multiplier step (C17) are not re-run here (process_pegging and '
                'apply_tip_909 are, on states holding the built-in pools with non-zero reserves); termination is by construction of the kernels (folds over the batch) plus C11; dependencies other than '
                'the modelled melpow indexing are trusted not to panic. Two known findings (melpow verify, melstructs weight sum); two '
                'defects found here were repaired (zero-total requests, requests against a pool with an empty reserve).',
        'technique': 'bounded symbolic execution of rustc MIR; panic paths decided by z3 (bit-vectors) and, for the settlement '
                     'arithmetic, by an exact translation to non-linear integer arithmetic',
    },
    'C15': {
        'text': 'Symbolic execution of the MIR of src/state/melmint.rs: the three request selectors (kind, pool-key data, first output '
                'unspent, denominations) on an arbitrary transaction; process_swaps / withdrawals_for_single_pool on 1-2 (thorough 1-3) '
                'requests and process_deposits_for_single_pool on 1 request against an arbitrary pool: the pool is updated by exactly '
                'one PoolState operation on the totals, every request is paid in the right denomination its rounded-down pro-rata '
                'share at the rewritten coin id, payouts never exceed what left the pool, other outputs untouched; multiply_frac = '
                'floor(x*n/d). PoolState::{swap_many, deposit, withdraw} enter through contracts that C16 discharges on their MIR. '
                'Pool-key kernel ("however a request spells the name of its pool"): the real MIR of the request parser in use '
                '(melstf requested_pool_key over melstructs PoolKey::from_bytes / to_canonical / new, Denom::from_bytes / to_bytes) '
                'on EVERY byte string (lengths 0..=32 symbolic byte by byte, longer ones as 32 symbolic bytes + an arbitrarily '
                'decoding tail): a parsed key has two different sides, neither is the NewCustom placeholder, and two keys that '
                'address the same pool-tree entry (equal PoolKey::to_bytes) are the same (left, right) pair; every parser the '
                'settlement code uses is discovered from the MIR, so a call site that goes back to the raw parser is analysed too.',
        'design_ref': 'DESIGN.md §8 C15, §12',
        'note': COMMON_NOTE + ' In the selector / settlement kernels the request parser is an uninterpreted function of the data bytes and the tree key an '
                'injective function of the (left, right) pair; the pool-key kernel discharges exactly that (assume-guarantee). '
                'stdcode decoding of the long form\'s tail is an arbitrary Result<(Denom, Denom)> (A-CODEC). Known finding: the swap '
                'selector has no kind test. Repaired: reversed / same-sided / placeholder spellings (1e8d350).',
        'technique': 'bounded symbolic execution of rustc MIR; mixed u128 / BigRational arithmetic decided after an exact translation '
                     'to non-linear integer arithmetic (z3, cvc5 second opinion); assume-guarantee with C16 for the pool operations',
    },
    'C16': {
        'text': 'Symbolic execution of the MIR of melstructs PoolState::{swap_many, deposit, withdraw} from an arbitrary pool state with '
                'reserves and liquidity in [0, 2^127]: the EXACT panic regions (swap_many: a reserve still empty after the batch is paid '
                'in; deposit into a pool with liquidity: an empty reserve; withdraw: more than recorded, or no liquidity), and outside '
                'them: reserves stay non-zero after swaps and partial withdrawals of a pool with non-zero reserves, reserves '
                'and liquidity move by exactly what is paid in / out, payouts are the rounded-down constant-product / pro-rata amounts, '
                'the reserve product never decreases, liquidity is minted in proportion (rounded down); and the distribution of minted '
                'liquidity to depositors (one depositor through process_deposits_for_single_pool, two at formula level).',
        'design_ref': 'DESIGN.md §8 C16, §12',
        'note': COMMON_NOTE + ' create_builtins is executed from an arbitrary pools tree (built-in pools present afterwards, fresh ones with '
                '10^9 reserves, existing ones untouched) and the withdrawal selector is run here too; that pegging / subsidy only '
                'apply swap_many to existing pools is C01\'s frame kernel; the pool-list kernel (a pool named by several requests is '
                'settled once) is run here as well. Induction over blocks is by the invariant, not explored. '
                'Known finding: several deposits in one block over-issue liquidity tokens.',
        'technique': 'bounded symbolic execution of rustc MIR; non-linear integer arithmetic after an exact translation (division '
                     'lemmas instead of div), lemma chaining between obligations of one path',
    },
    'C18': {
        'text': 'Symbolic execution of the MIR of validate_and_get_doscmint_speed (proof_is_tip910, check_dosc_total_output, '
                'Transaction::total_outputs) on a symbolic DoscMint transaction with 1-2 outputs from an arbitrary state: accepted '
                '=> the data decodes and melpow verifies the proof, under the legacy or TIP-910 hash, for hash_keyed(hash(header at '
                'the coin height), stdcode(first input)) at the stated difficulty; on mainnet the coin is >= 100 blocks old; the ERG '
                'created is <= dosc_to_erg(height, calculate_reward(speed, previous header speed, difficulty, variant)); the speed '
                'returned is compute_doscmint_speed(...). Three formula kernels decide that those functions equal the stated '
                'formulas for all arguments (difficulty <= 100; the reward formula case by case over the difficulty). Batch-level speed '
                'kernel: apply_tx_batch_impl on 1-2 transactions of any kind from an arbitrary state, with validity / coin loading / '
                'state building abstracted: accepted iff every DoscMint validates, and the speed afterwards is max(the state\'s speed '
                'before, the speeds shown) -- the speed before may already exceed the previous header\'s (an earlier call at the same '
                'height). The fold closures are also checked one by one. melpow verification itself is an uninterpreted predicate.',
        'design_ref': 'DESIGN.md §8 C18',
        'note': COMMON_NOTE + ' Replay generates real MelPoW proofs (difficulty 6, both hashes) and presents honest, excessive, '
                'corrupted, mis-seeded and too-young mints to the real apply_tx, lets the block go on after the mint (a later call at the '
                'same height must keep the record) and hands the block built that way to its parent.',
        'technique': 'bounded symbolic execution of rustc MIR + z3 obligations; assume-guarantee split between the acceptance '
                     'kernel and three formula kernels (exact big-integer * and / kept as function symbols)',
    },
    'C17': {
        'text': 'Symbolic execution of the MIR of seal / apply_proposer_action / move_action_fee_multiplier / tip_condition '
                'for every u128 multiplier, every i8 delta, every NetID and every height <= 2e6: no reachable overflow or '
                'panic, result equals the exact trunc(max(m/128,2)*d/128) step (saturating at 0 / u128::MAX, never '
                'wrapping), unchanged without an action. One step from an arbitrary multiplier covers every run of deltas.',
        'design_ref': 'DESIGN.md §8 C17',
        'note': COMMON_NOTE + ' preseal_melmint/apply_tip_909 are abstracted as events here.',
        'technique': 'bounded symbolic execution of rustc MIR + z3 (bit-vector) obligations, case split over delta',
    },
    'C02': {
        'text': 'Symbolic execution of the MIR of UnsealedState::apply_tx_batch (load_relevant_coins, extract_input_coins, '
                'output_coins_from_tx, load_stake_info, check_tx_validity, create_next_state, handle_faucet_tx ...) on a '
                'symbolic batch from an arbitrary state: for a universally quantified coin id q the post-state entry equals '
                'the reference ((coins minus inputs) plus non-destroyed outputs with the new-token rewrite, the block height, '
                'plus faucet markers); accepted => every input existed or is created in the batch and none repeats; '
                'rejected => state untouched; no reachable panic. The state may be in the middle of a block: its transaction set holds '
                'one arbitrary transaction applied by an earlier call at the same height.',
        'design_ref': 'DESIGN.md §8 C02',
        'note': COMMON_NOTE + ' Bounds: 1 tx x (2 in, 2 out) and 2 tx x (1,1) (thorough: + (2,1)+(1,2); the input-loading kernel alone also on (2,2)+(2,2) and three transactions), all TxKinds except '
                'DoscMint, height >= 1. CoinMapping methods enter through their contracts (discharged in C20); covenants '
                'are uninterpreted; base_fee over-approximated; A-HASH/A-CODEC/A-FRESH.',
        'technique': 'bounded symbolic execution of rustc MIR with state joining + z3/cvc5 obligations against a reference map model',
    },
    'C03': {
        'text': 'The kernels apply_tx_batch_impl is composed of are executed symbolically (MIR) on a symbolic batch in every '
                'order from the same arbitrary state: create_next_state ends in extensionally equal coin trees, fee pool, '
                'tips, stakes and transaction set; load_relevant_coins / load_stake_info give the same accept/reject and '
                'the same maps; the DOSC-speed reducers are associative, commutative and idempotent; the closures rayon '
                'runs only read their captures. Adjacent transpositions generate all permutations.',
        'design_ref': 'DESIGN.md §8 C03',
        'note': COMMON_NOTE + ' Quick: 2 transactions x (1 in, 1 out); thorough: also (2,1)+(1,2) and 3 transactions. rayon '
                'combinators have the sequential semantics of the same combinator: real thread schedules and hash-seed '
                'iteration orders are outside this technique (stated in DESIGN §5.3). Transactions of a batch pairwise '
                'different; base_fee an arbitrary function of the transaction.',
        'technique': 'bounded symbolic execution of rustc MIR in every order + z3/cvc5 commutation obligations (parallel portfolio)',
    },
    'C04': {
        'text': 'Symbolic execution of the MIR of check_tx_validity and validate_tx_scripts for a transaction with two inputs '
                'and two covenants, and for 9 inputs (thorough 3, 9, 17) with one covenant: accepted => for EACH (checked) input some '
                'carried script hashes to that coin\'s covenant hash, '
                'decodes, and evaluates truthy on (this transaction, that coin\'s own environment: its id, data, height, '
                'its position among the inputs, the previous header); a missing script is NonexistentScript.',
        'design_ref': 'DESIGN.md §8 C04',
        'note': COMMON_NOTE + ' Covenant decode/execute are uninterpreted functions of (bytes) / (bytes, tx, env): the '
                'interpreter is C10-C12; the signature covenants are not re-derived here.',
        'technique': 'bounded symbolic execution of rustc MIR + z3 obligations over uninterpreted covenant semantics',
    },
    'C05': {
        'text': 'Symbolic execution of the MIR of melstructs Transaction::{base_fee,weight}, the fee segment of '
                'create_next_state and collect_proposer_action_fee: minimum fee equals ((len + sum of covenant weights + '
                '1000*outputs) -sat 1000*inputs) *sat multiplier >> 16 for symbolic length / weights / multiplier; a '
                'transaction is accepted iff fee >= minimum; pool += minimum and tips += remainder (saturating); the '
                'proposer coin is worth pool>>16 + tips at the reward id / destination, pool and tips shrink by exactly '
                'that; no overflow under P-SUPPLY.',
        'design_ref': 'DESIGN.md §8 C05',
        'note': COMMON_NOTE + ' Serialized length symbolic; covenant weight an uninterpreted function of the bytes (C11). '
                'One known finding (covenant-weight sum overflow inside melstructs).',
        'technique': 'bounded symbolic execution of rustc MIR + z3 bit-vector obligations per kernel',
    },
    'C06': {
        'text': 'Symbolic execution of the MIR of SealedState::apply_block and melstructs <Header as PartialEq> with '
                'next_unsealed / apply_tx_batch / seal / header as recorded events: Ok iff the batch is accepted and all 11 '
                'declared header fields equal the computed ones (each field separately), the batch handed to '
                'apply_tx_batch is exactly block.transactions, the action handed to seal is block.proposer_action, the '
                'state returned is the sealed basis; no panic. Replay: every single-field mutation of an honest block, and an honest block '
                'whose transactions depend on each other across kinds (a real DoscMint and a spend of its output).',
        'design_ref': 'DESIGN.md §8 C06',
        'note': COMMON_NOTE + ' The four callees are abstract events here (their behaviour is the subject of the other checks; '
                'determinism = C03). 1-2 transactions per block.',
        'technique': 'bounded symbolic execution of rustc MIR with callee events + z3 obligations',
    },
    'C07': {
        'text': 'PARTIAL. Symbolic execution of the MIR of SealedState::header, next_unsealed, SmtMapping::{get, insert, delete, '
                'get_with_proof} and StakeSet::pre_tip911: every header root is the root of its own tree, previous is the '
                'hash of the header stored at height-1 (zero at genesis), scalar fields are copied; next_unsealed stores '
                'exactly header(self) at the current height, advances the height by one, keeps the network and the other '
                'trees, empties the transaction set; SmtMapping keys are hash(ser(k)), values ser(v), delete writes the '
                'empty value, the proof returned is for that key; the stake tree holds exactly the stored stakes; the pre-TIP-908 '
                'transaction root is the root of a tree built from the state\'s own transaction set holding every transaction\'s full '
                'serialisation (signatures included) under its signature-free hash and nothing else -- with any process-wide mutable '
                'static the function consults treated as an arbitrary input.',
        'design_ref': 'DESIGN.md §8 C07, §5.3',
        'note': COMMON_NOTE + ' NOT decided: that novasmt roots depend on contents only, that Merkle proofs verify, sorted '
                'transaction positions (novasmt / imbl internals are hashing loops over pointer-rich trees: modelled by '
                'contract, see DESIGN §5.3).',
        'technique': 'bounded symbolic execution of rustc MIR + z3 wiring obligations (tree internals by contract)',
    },
    'C08': {
        'text': 'Symbolic execution of the MIR of SealedState::to_block, header and from_block composed on an arbitrary '
                'sealed state: every one of the 11 UnsealedState fields and the stored proposer action of '
                'from_block(to_block(s), s.stakes, db) equals that of s (trees extensionally, transaction / stake sets as '
                'maps). One known finding: pending tips are lost when the block was sealed without an action. Replay also restarts at a '
                'block carrying a Stake transaction that the state-transition function did not register.',
        'design_ref': 'DESIGN.md §8 C08',
        'note': COMMON_NOTE + ' Database::get_tree(root_hash(t)) = t (content-addressed store contract); 0-2 transactions, 2 stakes.',
        'technique': 'bounded symbolic execution of rustc MIR + z3 field-equality obligations',
    },
    'C10': {
        'text': 'One single-step lemma per opcode on the MIR of Executor::step (its closures, do_monop/binop/triop, '
                'update_pc_state, the Value helpers) from a symbolic machine state (stack slots of symbolic variant with '
                '256-bit symbolic integers, symbolic heap, symbolic pc, loop stack depth <= 2): fails exactly when the '
                'specification says (underflow, type error, division by zero, oversize exponent / hash / message, unset '
                'heap cell, out-of-range index, improperly nested loop) and otherwise leaves exactly the specified stack, '
                'heap, pc and loop frames; loop bookkeeping lemma (re-enter while iterations remain, pop otherwise); '
                'run_to_end returns the top of the stack or nothing. One known finding (SigEOk operand type error).',
        'design_ref': 'DESIGN.md §8 C10, Appendix B',
        'note': COMMON_NOTE + ' Sequence payload lengths enumerated (quick: 0,2; plus 31-33 / 64-65 where the opcode cares), Exp '
                'k <= 2 (thorough 6); blake3 / Ed25519 values uninterpreted; CatVec and U256 modelled and translation-validated '
                'against the native interpreter; whole-program behaviour follows by induction over steps.',
        'technique': 'bounded symbolic execution of rustc MIR (single-step lemmas) + z3 bit-vector obligations against a reference table',
    },
    'C11': {
        'text': 'On the MIR of opcodes_weight / opcodes_car_weight and of Executor::run_to_end / step: every opcode weighs >= 1 and the '
                'weigher continues with the instruction right behind it (every instruction is weighed, whatever jumps over it); '
                'a loop weighs exactly 1 + n * W(the next min(k, remaining) instructions) and a program the saturating sum '
                'of its car weights (compositional lemmas, all u16 parameters); symbolic control-flow programs (Noop, PushI, '
                'Jmp, Bez, Loop with symbolic gaps / body lengths, iteration counts in [0,2]) never execute more steps than '
                'their weight on any path; the number of weigher calls on nested loops is compared with a polynomial budget '
                '(known finding: it is exponential).',
        'design_ref': 'DESIGN.md §8 C11',
        'note': COMMON_NOTE + ' Programs <= 2 (thorough 3) instructions for steps-within-weight, loop nests <= 5 (7) for the weigher '
                'cost; memory use is not observable with this technique (DESIGN §5.3).',
        'technique': 'bounded symbolic execution of rustc MIR with call counting + z3 bit-vector obligations',
    },
    'C12': {
        'text': 'Symbolic execution of the MIR of OpCode::decode (+ its closures, read_byte) and OpCode::encode: any buffer '
                'whose front decodes to an instruction re-encodes to exactly the consumed bytes (all 49 opcodes, every '
                'operand, canonical PushIC lengths) and consumes >= 1 byte; every variant with symbolic operands encodes '
                'and decodes back to itself consuming exactly its encoding (PushB > 255 bytes is not representable); no '
                'reachable panic. Whole programs follow by induction on the instruction count.',
        'design_ref': 'DESIGN.md §8 C12',
        'note': COMMON_NOTE + ' Quick: buffers <= 40 bytes / selected PushB lengths; thorough: 260 bytes / all PushB lengths. '
                'io::Read cursor, Vec<u8> writer and ethnum::U256 are modelled; 1200+ random native round trips validate them. Thorough '
                'tier: a second engine, Kani 0.68 / CBMC, decides decode -> encode on every byte string of <= 3 bytes from an independent '
                'compilation of the same sources (unwind 34, unwinding assertions on; ~6 min, ~8 GB).',
        'technique': 'bounded symbolic execution of rustc MIR (one path per opcode / operand length) + z3 bit-vector obligations; '
                     'thorough tier: Kani / CBMC proof harness over kani::any() byte strings <= 3 bytes',
    },
    'C13': {
        'text': 'Symbolic execution of the MIR of load_stake_info / stake_is_consistent, the lock test of check_tx_validity, '
                'next_unsealed and StakeSet::unlock_old: a stake is registered iff its data decodes, its first output is SYM '
                'of the declared amount, it starts after the current epoch and ends after it starts (grandfathered heights '
                'carved out); any input created by a registered or just-registered stake transaction (each of the two symbolically '
                'present or absent: the state may hold no stake at all) is rejected with CoinLocked; next_unsealed keeps exactly the stakes whose end epoch is >= the epoch of the next height (so '
                'locked through that epoch, free from the next). Voting sums are C14.',
        'design_ref': 'DESIGN.md §8 C13',
        'note': COMMON_NOTE + ' <= 2 stakes + 1 new, 2 inputs; decode of the data bytes is an arbitrary function of the bytes; '
                'header() abstracted in next_unsealed (C07).',
        'technique': 'bounded symbolic execution of rustc MIR + z3 obligations per kernel',
    },
    'C14': {
        'text': 'Symbolic execution of the MIR of SealedState::confirm and StakeSet::{votes,total_votes}: confirmed => every '
                'signature valid for the header hash under its own key; all valid and 3P > 2T => confirmed; T > 0 and '
                '3P < 2T => not confirmed (P, T as unbounded integers); votes()/total_votes() equal the sums over active '
                'stakes; votes are asked for the state\'s own epoch; no panic.',
        'design_ref': 'DESIGN.md §8 C14',
        'note': COMMON_NOTE + ' Bounds: <= 3 stakes / 2 signers (thorough 4 / 3), full-width weights with total <= 2^127, '
                'height <= 2e6. Ed25519 verification is an uninterpreted predicate; header() abstracted (C07).',
        'technique': 'bounded symbolic execution of rustc MIR + z3 bit-vector obligations, compositional (vote kernels + threshold)',
    },
    'C19': {
        'text': 'Symbolic execution of the MIR of handle_faucet_tx, its call site in create_next_state and '
                'validate_tx_scripts: accepted on mainnet => the transaction hash is the one grandfathered constant; accepted '
                '=> its dedup marker was absent; accepted and not grandfathered => the marker is present afterwards; marker '
                'present => rejected as duplicate; the same faucet twice in a batch is rejected; a coin locked to the '
                'all-zero address (the marker) can never pass script validation, and check_tx_validity accepts no transaction of any '
                'kind -- faucets included -- with such a coin among its inputs (call-site kernel), so a marker is never removed -- by '
                'induction a faucet is accepted at most once over the life of the chain.',
        'design_ref': 'DESIGN.md §8 C19',
        'note': COMMON_NOTE + ' A-HASH incl. no preimage of the all-zero hash; arbitrary coin tree; all networks.',
        'technique': 'bounded symbolic execution of rustc MIR + z3 obligations (one step + inductive marker invariant)',
    },
    'C20': {
        'text': 'Step lemmas on the MIR of CoinMapping::{insert_coin,remove_coin,coin_count,insert_coin_count} from an '
                'arbitrary coin tree satisfying the count invariant: for a universally quantified covenant hash a, the '
                'stored count changes by exactly the change in the number of coins locked by a; a stored count is never '
                '0; only the coin key and that covenant\'s count key are written; nothing is counted while TIP-906 is '
                'off; the proposer-reward call site passes the state\'s own TIP-906 flag; the withdrawal and deposit selectors only '
                'pass requests for which the settlement\'s insert_coin calls either hit a fresh id or keep the covenant hash '
                '(insert_coin leaves the counts alone on a rewrite). Induction over operations gives the property for every history.',
        'design_ref': 'DESIGN.md §8 C20',
        'note': COMMON_NOTE + ' A-HASH, A-CODEC; novasmt::Tree modelled as a map (its Merkle internals are trusted).',
        'technique': 'bounded symbolic execution of rustc MIR + z3 inductive-step obligations over a lazily sampled array model',
    },
}

NOT_APPLICABLE = {}


def main():
    props = [json.loads(l)['id'] for l in open(os.path.join(VERIF, 'properties.jsonl'))]
    na = json.load(open(os.path.join(VERIF, 'tools', 'not_applicable.json')))
    checks = []
    for pid in props:
        if pid not in CLAIMS:
            continue
        c = CLAIMS[pid]
        checks.append({
            'property_id': pid,
            'quick_cmd': './check %s --tier quick' % pid,
            'thorough_cmd': './check %s --tier thorough' % pid,
            'evidence_file': '/verif/evidence/%s.json' % pid,
            'replay_cmd_template': './check replay {path}',
            'engine': 'mirsym',
            'level_claimed': {'category': 'model_checking', 'text': c['text'], 'design_ref': c['design_ref']},
            'level_note': c['note'],
            'technique': c['technique'],
        })
    man = {
        'version': 1,
        'setup_cmd': './setup.sh',
        'hooks': {
            'guard': '--cfg melstf_verif',
            'enable': 'RUSTFLAGS="--cfg melstf_verif" (set by the checks when they build /verif/replay against /repo); '
                      'mirsym itself reads MIR and needs no hooks',
            'baseline_off_cmd': 'cd /repo && cargo nextest run --workspace --no-fail-fast --tool-config-file '
                                'pb:/w/lib/nextest.toml --profile pb --test-threads 8 --offline',
            'source_commits': HOOK_COMMITS,
            'add_only': True,
        },
        'engines': [
            {'name': 'mirsym', 'path': '/verif/mirsym', 'serves_properties': sorted(CLAIMS),
             'kind_free_text': 'bounded symbolic executor for rustc MIR (emitted from /repo on every run) over z3 terms; '
                               'obligations discharged by z3; counterexamples replayed natively by /verif/replay'},
            {'name': 'replay', 'path': '/verif/replay', 'serves_properties': sorted(CLAIMS),
             'kind_free_text': 'native driver built against /repo with --cfg melstf_verif: replays solver models and '
                               'supplies translation-validation vectors'},
            {'name': 'kani', 'path': '/verif/kani', 'serves_properties': ['C12'],
             'kind_free_text': 'Kani 0.68 / CBMC 6.11 harness crate (path dependency on /repo/lib/melvm): thorough-tier cross-check of the '
                               'C12 decode -> encode obligation on every byte string of <= 3 bytes, unwinding assertions on'},
        ],
        'checks': checks,
        'not_applicable': [{'property_id': p, 'reason': na[p]} for p in props if p not in CLAIMS],
        'notes': 'Exit codes: 0 ok, 1 VIOLATION (replay-confirmed), 2 inconclusive (never a pass). See DESIGN.md.',
    }
    missing = [p for p in props if p not in CLAIMS and p not in na]
    if missing:
        print('no claim and no not_applicable reason for', missing)
        sys.exit(1)
    path = os.path.join(VERIF, 'MANIFEST.json')
    json.dump(man, open(path, 'w'), indent=1)
    try:
        import jsonschema
        jsonschema.validate(man, json.load(open('/root/.vp/MANIFEST.schema.json')))
        print('MANIFEST.json valid:', len(checks), 'checks,', len(man['not_applicable']), 'not applicable')
    except ImportError:
        print('jsonschema not available; wrote without validation')


if __name__ == '__main__':
    main()

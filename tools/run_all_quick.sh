#!/bin/bash
# tools/run_all_quick.sh [lanes] : every check's quick command on the current /repo tree, a few at a time; one line per check
cd "$(dirname "$0")/.."
LANES=${1:-3}
mkdir -p /tmp/runall.$$
ls_checks="C10 C12 C19 C20 C07 C08 C13 C17 C14 C05 C06 C18 C11 C04 C01 C03 C16 C02 C09 C15"
echo $ls_checks | tr ' ' '\n' | xargs -P $LANES -I{} sh -c './check {} > /tmp/runall.'$$'/{}.log 2>&1; echo "{} exit=$? $(tail -1 /tmp/runall.'$$'/{}.log | cut -c1-200)"'
grep -h "^VIOLATION\|^INCONCLUSIVE" /tmp/runall.$$/*.log | cut -c1-300
rm -rf /tmp/runall.$$

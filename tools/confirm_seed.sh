#!/bin/bash
# tools/confirm_seed.sh <worktree> : confirms a seeded change written by a sub-agent in its scratch worktree:
#   patch.diff equals the worktree's source diff; the demo fails with the change and passes without it;
#   the test suite keeps its 76 passes / 4 known failures with the change.  Writes <worktree>/confirm.log.
WT="$1"
export CARGO_NET_OFFLINE=true
cd "$WT" || exit 2
LOG="$WT/confirm.log"
: > "$LOG"
if [ -f lib/melvm/tests/seed_demo.rs ]; then DEMODIR=lib/melvm; else DEMODIR=.; fi
echo "## patch equals worktree diff:" >> "$LOG"
git diff -- src lib > /tmp/.confirm_diff.$$
if diff -q /tmp/.confirm_diff.$$ patch.diff >/dev/null; then echo SAME >> "$LOG"; else echo DIFFERENT >> "$LOG"; fi
rm -f /tmp/.confirm_diff.$$
echo "## demo WITH change" >> "$LOG"
(cd $DEMODIR && cargo test --offline --test seed_demo 2>&1 | grep -E "^test |test result|panicked" | head -40) >> "$LOG"
echo "## suite WITH change" >> "$LOG"
cargo test --workspace --no-fail-fast --offline --lib 2>&1 | grep -E "^test .*FAILED|test result|error: test failed" >> "$LOG"
echo "## demo WITHOUT change" >> "$LOG"
git apply -R patch.diff
(cd $DEMODIR && cargo test --offline --test seed_demo 2>&1 | grep -E "^test |test result|panicked" | head -40) >> "$LOG"
git apply patch.diff
echo "## done" >> "$LOG"
git status --short | grep -v "^??" >> "$LOG"
cargo clean >/dev/null 2>&1
cat "$LOG"

#!/usr/bin/env python3
"""tools/prescribed_seed_runs.py <seed dir name> ... : the prescribed route for a seeded change --
   git -C /repo apply <patch> ; ./check <Cxx> ; git -C /repo checkout -- .   -- one seed after the other (it touches /repo),
with the evidence of these runs kept out of /verif/evidence.  Records exit code and the first VIOLATION line in meta.json."""
import json, os, re, subprocess, sys, time

VERIF = os.path.dirname(os.path.dirname(os.path.abspath(__file__)))
PRIMARY = {'C01-deposit-request-pending-helper': ['C15'], 'C16-dedup-before-sort-2': ['C16'],
           'C20-withdraw-with-change-overwrites-output-1': ['C20'], 'C16-withdraw-selector-drops-unspent-check': ['C16']}


def main(names):
    env = dict(os.environ, VERIF_EVIDENCE_DIR='/tmp/ev_seed', CARGO_NET_OFFLINE='true')
    os.makedirs('/tmp/ev_seed', exist_ok=True)
    for name in names:
        d = os.path.join(VERIF, 'seeded', name)
        meta = json.load(open(os.path.join(d, 'meta.json')))
        checks = PRIMARY.get(name, [name[:3]])
        assert subprocess.run(['git', '-C', '/repo', 'status', '--porcelain', '--untracked-files=no'], capture_output=True, text=True).stdout.strip() == '', '/repo is not clean'
        r = subprocess.run(['git', '-C', '/repo', 'apply', os.path.join(d, 'patch.diff')], capture_output=True, text=True)
        if r.returncode != 0:
            print(name, 'PATCH DOES NOT APPLY', r.stderr[:200])
            continue
        results = []
        try:
            for c in checks:
                t0 = time.time()
                p = subprocess.run([os.path.join(VERIF, 'check'), c], capture_output=True, text=True, env=env, cwd=VERIF)
                out = p.stdout + p.stderr
                vio = [l for l in out.split('\n') if l.startswith('VIOLATION')]
                first = re.sub(r'replay=\S*/', 'replay=', vio[0])[:220] if vio else ''
                last = [l for l in out.split('\n') if l.startswith(c + ' ')]
                results.append('%s: exit %d, %d VIOLATION line(s)%s; %s' % (c, p.returncode, len(vio), (' (first: %s)' % first) if first else '',
                                                                          (last[-1][:160] if last else '')))
                print(name, c, 'exit', p.returncode, len(vio), 'violations', '%.0fs' % (time.time() - t0), flush=True)
        finally:
            subprocess.run(['git', '-C', '/repo', 'checkout', '--', '.'], check=True)
        meta['checks_run'] = {'how': 'git -C /repo apply /verif/seeded/%s/patch.diff ; %s ; git -C /repo checkout -- .' % (name, ' ; '.join('./check ' + c for c in checks)),
                              'result': ' | '.join(results), 'at_repo_commit': subprocess.run(['git', '-C', '/repo', 'rev-parse', '--short', 'HEAD'], capture_output=True, text=True).stdout.strip()}
        json.dump(meta, open(os.path.join(d, 'meta.json'), 'w'), indent=1)


if __name__ == '__main__':
    main(sys.argv[1:])

#!/bin/bash
# tools/regress_seeds.sh [lanes] : every archived seeded change against its primary check, in scratch worktrees (tools/try_seed.sh),
# a few at a time.  One line per seed: CAUGHT (exit 1 with a VIOLATION line) / MISSED (exit 0) / INCONCLUSIVE (exit 2).
cd "$(dirname "$0")/.."
LANES=${1:-4}
primary() {
  case "$1" in
    C01-deposit-request-pending-helper) echo C15 ;;
    C16-dedup-before-sort-2) echo C16 ;;
    *) echo "${1:0:3}" ;;
  esac
}
export -f primary
ls seeded | xargs -P $LANES -I{} bash -c 'c=$(primary {}); tools/try_seed.sh seeded/{}/patch.diff R_{} $c > /dev/null 2>&1; rc=$(grep -o "exit=[0-9]*" /tmp/try_R_{}.out | head -1); case "$rc" in exit=1) v=CAUGHT;; exit=0) v=MISSED;; *) v=INCONCLUSIVE;; esac; echo "$v {} $c $(grep -m1 "^VIOLATION\|^INCONCLUSIVE" /tmp/try_R_{}.out | cut -c1-160)"'

#!/bin/bash
# tools/try_seed.sh <patch.diff> <name> <Cxx> [<Cxx> ...]
# Development aid (not a registered command): runs the quick checks against a seeded change in a scratch worktree of /repo,
# with its own MIR / replay build, evidence and counterexample directories, so several seeds can be tried in parallel and
# /repo, /verif/evidence and /verif/build stay untouched.  The results recorded in seeded/*/meta.json for the final state of
# the checks come from the prescribed route (git -C /repo apply ... ; ./check ... ; git -C /repo checkout -- .).
PATCH="$(readlink -f "$1")"; NAME="$2"; shift 2
WT=/tmp/try_$NAME
export CARGO_NET_OFFLINE=true
git -C /repo worktree remove --force "$WT" >/dev/null 2>&1
rm -rf "$WT"
git -C /repo worktree add --detach "$WT" >/dev/null 2>&1 || { echo "cannot create worktree $WT"; exit 2; }
git -C "$WT" apply "$PATCH" || { echo "patch does not apply"; git -C /repo worktree remove --force "$WT"; exit 2; }
mkdir -p "$WT/.vb" "$WT/.ve" "$WT/.vc"
cp -a /verif/build/mir /verif/build/replay "$WT/.vb/" 2>/dev/null   # warm start: cargo rebuilds what the patch touches
OUT=/tmp/try_$NAME.out
: > "$OUT"
cd /verif
for c in "$@"; do
  VERIF_REPO="$WT" VERIF_BUILD="$WT/.vb" VERIF_EVIDENCE_DIR="$WT/.ve" VERIF_CEX_DIR="$WT/.vc" \
    timeout 3600 python3-vt -m props.main "$c" > "$WT/check_$c.log" 2>&1
  rc=$?
  echo "== $NAME $c exit=$rc" >> "$OUT"
  grep -E "^VIOLATION|^INCONCLUSIVE|^UNCONFIRMED|^$c " "$WT/check_$c.log" | cut -c1-260 | head -12 >> "$OUT"
done
git -C /repo worktree remove --force "$WT" >/dev/null 2>&1
rm -rf "$WT"
cat "$OUT"

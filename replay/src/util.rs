use std::collections::BTreeMap;

use melstf::GenesisConfig;
use melstructs::{Address, CoinData, CoinValue, Denom, NetID};
use serde_json::Value as J;
use tmelcrypt::HashVal;

pub fn u128_of(v: &J) -> u128 {
    match v {
        J::String(s) => s.parse().expect("u128 string"),
        J::Number(n) => n.as_u64().expect("u64 number") as u128,
        _ => panic!("bad u128 {v:?}"),
    }
}

pub fn netid_of(v: &J) -> NetID {
    match v.as_u64().expect("network as discriminant") {
        0x01 => NetID::Testnet,
        0x02 => NetID::Custom02,
        0x03 => NetID::Custom03,
        0x04 => NetID::Custom04,
        0x05 => NetID::Custom05,
        0x06 => NetID::Custom06,
        0x07 => NetID::Custom07,
        0x08 => NetID::Custom08,
        0xff => NetID::Mainnet,
        x => panic!("bad netid {x}"),
    }
}

pub fn hash_of(v: &J) -> HashVal {
    let s = v.as_str().expect("hex hash");
    let mut b = [0u8; 32];
    hex::decode_to_slice(s, &mut b).expect("32-byte hex");
    HashVal(b)
}

pub fn always_true_covhash() -> Address {
    melvm::Covenant::always_true().hash()
}

pub fn genesis(network: NetID, fee_multiplier: u128, fee_pool: u128) -> GenesisConfig {
    GenesisConfig {
        network,
        init_coindata: CoinData {
            covhash: always_true_covhash(),
            value: CoinValue(1 << 64),
            denom: Denom::Mel,
            additional_data: Default::default(),
        },
        stakes: BTreeMap::new(),
        init_fee_pool: CoinValue(fee_pool),
        init_fee_multiplier: fee_multiplier,
    }
}

//! C15 / C16: melstructs PoolState operations and melstf's pro-rata helper on concrete numbers.
use std::panic::{catch_unwind, AssertUnwindSafe};

use melstructs::PoolState;
use serde_json::{json, Value as J};

fn u(j: &J) -> u128 {
    j.as_str().and_then(|s| s.parse().ok()).unwrap_or(0)
}

fn ps_json(p: &PoolState) -> J {
    json!({"lefts": p.lefts.to_string(), "rights": p.rights.to_string(), "liqs": p.liqs.to_string(), "price_accum": p.price_accum.to_string()})
}

/// {"op": "swap_many"|"deposit"|"withdraw", "pool": {lefts, rights, liqs, price_accum}, "a": "..", "b": ".."}
pub fn pool_op(req: &J) -> J {
    let mut p = PoolState { lefts: u(&req["pool"]["lefts"]), rights: u(&req["pool"]["rights"]), liqs: u(&req["pool"]["liqs"]), price_accum: u(&req["pool"]["price_accum"]) };
    let (a, b) = (u(&req["a"]), u(&req["b"]));
    let op = req["op"].as_str().unwrap_or("").to_string();
    let r = catch_unwind(AssertUnwindSafe(move || {
        let out: Vec<u128> = match op.as_str() {
            "swap_many" => { let (x, y) = p.swap_many(a, b); vec![x, y] }
            "deposit" => vec![p.deposit(a, b)],
            "withdraw" => { let (x, y) = p.withdraw(a); vec![x, y] }
            _ => panic!("unknown pool op"),
        };
        (out, p)
    }));
    match r {
        Ok((out, p)) => json!({"panicked": false, "out": out.iter().map(|x| x.to_string()).collect::<Vec<_>>(), "pool": ps_json(&p)}),
        Err(_) => json!({"panicked": true, "msg": crate::last_panic()}),
    }
}

/// {"x": "..", "n": "..", "d": ".."}  ->  multiply_frac(x, n/d) of melstf (through the verification hook)
pub fn multiply_frac(req: &J) -> J {
    let (x, n, d) = (u(&req["x"]), u(&req["n"]), u(&req["d"]));
    let r = catch_unwind(AssertUnwindSafe(move || melstf::verif::multiply_frac(x, n, d)));
    match r {
        Ok(v) => json!({"panicked": false, "out": v.to_string()}),
        Err(_) => json!({"panicked": true, "msg": crate::last_panic()}),
    }
}

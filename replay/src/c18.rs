//! C18: a real MelPoW proof (small difficulty) minting ERG; corrupted proof / wrong coin / excessive amount must fail.
use std::panic::{catch_unwind, AssertUnwindSafe};

use melstf::{verif_hooks as vh, UnsealedState};
use melstructs::{CoinData, CoinDataHeight, CoinID, CoinValue, Denom, NetID, Transaction, TxHash, TxKind};
use novasmt::{Database, InMemoryCas};
use serde_json::{json, Value as J};
use tmelcrypt::HashVal;

use crate::util::*;

fn inflator(height: u64) -> u128 {
    // independent re-statement of the table recurrence
    let mut x: u128 = 1_000_000;
    for _ in 0..height {
        x = std::cmp::max(x + 1, x + x / 2_000_000);
    }
    x
}

fn scenario(network: NetID, difficulty: u32, tip910: bool, prev_speed: u128, age: u64) -> (bool, Vec<String>, u128, u128, u128, Vec<String>) {
    let db = Database::new(InMemoryCas::default());
    let mut st: UnsealedState<InMemoryCas> = genesis(network, 0, 0).realize(&db);
    vh::fabricate(&mut st, network, 0, 0, 0, 0, prev_speed);
    // a coin created at height 0, spent at height `age`
    let cid = CoinID { txhash: TxHash(HashVal([5u8; 32])), index: 0 };
    let coin = |v: u128| CoinDataHeight { coin_data: CoinData { covhash: always_true_covhash(), value: CoinValue(v), denom: Denom::Mel, additional_data: Default::default() }, height: 0.into() };
    vh::insert_coin(&mut st, cid, coin(1000));
    let mut sealed = st.seal(None);
    for i in 1..age {
        let mut nx = sealed.next_unsealed();
        if i == 1 {
            // the speed rises after the coin's creation block: the reward must follow the previous block, not the coin's block
            let (h, fp, tips, mult) = (vh::height(&nx), vh::fee_pool(&nx), vh::tips(&nx), vh::fee_multiplier(&nx));
            vh::fabricate(&mut nx, network, h, fp, tips, mult, prev_speed * 3);
        }
        sealed = nx.seal(None);
    }
    let state = sealed.next_unsealed();
    let seed_header = sealed.history(0.into()).expect("history[0]");
    let puzzle = tmelcrypt::hash_keyed(seed_header.hash(), stdcode::serialize(&cid).unwrap());
    let proof = if tip910 { melpow::Proof::generate(&puzzle, difficulty as usize, melstf::Tip910MelPowHash) } else { melpow::Proof::generate(&puzzle, difficulty as usize, melstf::LegacyMelPowHash) };
    let prev = sealed.header().dosc_speed;
    let height = vh::height(&state);
    // independent reference (small numbers: plain u128 arithmetic is exact here)
    let work: u128 = (if tip910 { 100 } else { 1 }) * (1u128 << difficulty);
    let my_speed = work / (height as u128);
    let reward = work * my_speed * 1_000_000 / (prev * prev * 2880);
    let cap = inflator(height) * reward / 1_000_000;
    let mk = |erg: u128, proof_bytes: Vec<u8>, input: CoinID, d: u32| Transaction {
        kind: TxKind::DoscMint,
        inputs: vec![input],
        outputs: vec![
            CoinData { covhash: always_true_covhash(), value: CoinValue(1000), denom: Denom::Mel, additional_data: Default::default() },
            CoinData { covhash: always_true_covhash(), value: CoinValue(erg), denom: Denom::Erg, additional_data: Default::default() },
        ],
        fee: CoinValue(0),
        covenants: vec![melvm::Covenant::always_true().to_bytes()],
        data: stdcode::serialize(&(d, proof_bytes)).unwrap().into(),
        sigs: vec![],
    };
    let pb = proof.to_bytes();
    // an attempt that crashes the validator is not an accepted mint (totality is property C09, not this one)
    let accepted = |st: UnsealedState<InMemoryCas>, tx: Transaction| -> bool {
        let mut st = st;
        catch_unwind(AssertUnwindSafe(move || st.apply_tx(&tx).is_ok())).unwrap_or(false)
    };
    let honest = state.clone().apply_tx(&mk(cap, pb.clone(), cid, difficulty)).is_ok();
    let mut bad: Vec<String> = vec![];
    if state.clone().apply_tx(&mk(cap + 1, pb.clone(), cid, difficulty)).is_ok() { bad.push("one micro-ERG above the reward".into()); }
    let mut corrupt = pb.clone();
    let n = corrupt.len();
    corrupt[n - 1] ^= 1;
    if accepted(state.clone(), mk(cap.min(1), corrupt, cid, difficulty)) { bad.push("corrupted proof".into()); }
    if accepted(state.clone(), mk(cap.min(1), pb.clone(), cid, difficulty + 1)) { bad.push("proof presented for a higher difficulty".into()); }
    if accepted(state.clone(), mk(0, vec![], cid, difficulty)) { bad.push("empty proof".into()); }
    // the same proof with another coin as the puzzle seed
    let mut st2 = state.clone();
    let other = CoinID { txhash: TxHash(HashVal([6u8; 32])), index: 0 };
    vh::insert_coin(&mut st2, other, coin(1000));
    if accepted(st2, mk(0, pb.clone(), other, difficulty)) { bad.push("proof for another coin".into()); }
    // the speed in the header is the maximum of the previous one and the demonstrated one
    let mut st3 = state.clone();
    let mint = mk(cap, pb, cid, difficulty);
    let applied = st3.apply_tx(&mint).is_ok();
    let after = st3.clone().seal(None).header().dosc_speed;
    if after < prev { bad.push("dosc speed decreased".into()); }
    if applied && after != prev.max(my_speed) { bad.push(format!("dosc speed {} is not max({}, {})", after, prev, my_speed)); }
    // the block goes on: a second call at the same height spends the mint's first output; the record must survive, and the
    // block built this way must be accepted by its parent (C06: an honestly built block is accepted)
    let mut block_findings: Vec<String> = vec![];
    if applied {
        let spend = Transaction {
            kind: TxKind::Normal,
            inputs: vec![mint.output_coinid(0)],
            outputs: vec![CoinData { covhash: always_true_covhash(), value: CoinValue(1000), denom: Denom::Mel, additional_data: vec![9u8].into() }],
            fee: CoinValue(0),
            covenants: vec![melvm::Covenant::always_true().to_bytes()],
            data: Default::default(),
            sigs: vec![],
        };
        let mut st4 = st3.clone();
        if st4.apply_tx(&spend).is_ok() {
            let sealed4 = st4.seal(None);
            let after2 = sealed4.header().dosc_speed;
            if after2 != prev.max(my_speed) {
                bad.push(format!("dosc speed {} after a later transaction of the same block is not max({}, {})", after2, prev, my_speed));
            }
            match catch_unwind(AssertUnwindSafe(|| sealed.apply_block(&sealed4.to_block()).map(|s| s.header() == sealed4.header()))) {
                Ok(Ok(true)) => {}
                Ok(Ok(false)) => block_findings.push("block with a DoscMint and a spend of its output: accepted with a different header".into()),
                Ok(Err(e)) => block_findings.push(format!("honest block with a DoscMint and a spend of its output is rejected: {e:?}")),
                Err(_) => block_findings.push("apply_block panicked on an honest block with a DoscMint".into()),
            }
        } else {
            block_findings.push("a spend of a fresh DoscMint output in the same block is rejected".into());
        }
    }
    (honest, bad, cap, after, prev, block_findings)
}

pub fn c18_mint(req: &J) -> J {
    let difficulty = req["difficulty"].as_u64().unwrap_or(6) as u32;
    let prev_speed = req["prev_speed"].as_str().and_then(|s| s.parse().ok()).unwrap_or(100u128);
    let r = catch_unwind(AssertUnwindSafe(|| {
        let mut all_bad: Vec<String> = vec![];
        let mut honest_all = true;
        let mut caps = vec![];
        let mut last = (0u128, 0u128);
        let mut block_findings: Vec<String> = vec![];
        for tip910 in [true, false] {
            let (honest, bad, cap, after, prev, bf) = scenario(NetID::Custom02, difficulty, tip910, prev_speed, 4);
            block_findings.extend(bf);
            honest_all &= honest;
            all_bad.extend(bad.into_iter().map(|b| format!("{} ({})", b, if tip910 { "tip910 hash" } else { "legacy hash" })));
            caps.push(cap.to_string());
            last = (after, prev);
        }
        // mainnet: a coin younger than 100 blocks cannot be used, however good the proof
        let mut ages = vec![4u64, 99];
        if let Some(a) = req["mainnet_age"].as_u64() { if a >= 1 && a < 100 { ages.push(a); } }
        for age in ages {
            let (young_accepted, _, _, _, _, _) = scenario(NetID::Mainnet, difficulty, false, prev_speed, age);
            if young_accepted { all_bad.push(format!("mainnet mint against a {}-block-old coin", age)); }
        }
        (honest_all, all_bad, caps, last.0, last.1, block_findings)
    }));
    match r {
        Ok((honest, bad, caps, after, prev, bf)) => json!({"panicked": false, "honest_accepted": honest, "accepted_bad": bad, "reward_caps": caps,
                                                     "dosc_speed_before": prev.to_string(), "dosc_speed_after": after.to_string(),
                                                     "block_findings": bf}),
        Err(_) => json!({"panicked": true, "msg": crate::last_panic()}),
    }
}


/// C09: a DoscMint transaction whose data is (difficulty, empty proof bytes). `Proof::from_bytes` accepts the empty string.
pub fn c09_empty_proof(_req: &J) -> J {
    let r = catch_unwind(AssertUnwindSafe(|| {
        let db = Database::new(InMemoryCas::default());
        let mut st: UnsealedState<InMemoryCas> = genesis(NetID::Custom02, 0, 0).realize(&db);
        let cid = CoinID { txhash: TxHash(HashVal([5u8; 32])), index: 0 };
        vh::insert_coin(&mut st, cid, CoinDataHeight { coin_data: CoinData { covhash: always_true_covhash(), value: CoinValue(1000), denom: Denom::Mel, additional_data: Default::default() }, height: 0.into() });
        let mut sealed = st.seal(None);
        for _ in 0..2 {
            sealed = sealed.next_unsealed().seal(None);
        }
        let mut state = sealed.next_unsealed();
        let tx = Transaction {
            kind: TxKind::DoscMint,
            inputs: vec![cid],
            outputs: vec![CoinData { covhash: always_true_covhash(), value: CoinValue(1000), denom: Denom::Mel, additional_data: Default::default() }],
            fee: CoinValue(0),
            covenants: vec![melvm::Covenant::always_true().to_bytes()],
            data: stdcode::serialize(&(3u32, Vec::<u8>::new())).unwrap().into(),
            sigs: vec![],
        };
        format!("{:?}", state.apply_tx(&tx).map(|_| ()))
    }));
    match r {
        Ok(res) => json!({"panicked": false, "result": res}),
        Err(_) => json!({"panicked": true, "msg": crate::last_panic()}),
    }
}

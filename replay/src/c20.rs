//! C20: recount the coin tree natively and compare with the stored per-covenant counts.
use std::collections::BTreeMap;

use melstf::CoinMapping;
use melstructs::{Address, CoinData, CoinDataHeight, CoinID, CoinValue, Denom, TxHash};
use novasmt::{Database, InMemoryCas};
use serde_json::{json, Value as J};
use tmelcrypt::HashVal;

use crate::util::*;

pub fn recount(cm: &CoinMapping<InMemoryCas>) -> (bool, J) {
    let mut tally: BTreeMap<[u8; 32], u64> = BTreeMap::new();
    let mut count_entries = 0u64;
    for (_k, v) in cm.inner().iter() {
        match stdcode::deserialize::<CoinDataHeight>(&v) {
            Ok(cdh) if v.len() > 8 => {
                *tally.entry(cdh.coin_data.covhash.0 .0).or_default() += 1;
            }
            _ => {
                count_entries += 1;
            }
        }
    }
    let mut ok = true;
    let mut detail = vec![];
    for (cov, n) in tally.iter() {
        let stored = cm.coin_count(Address(HashVal(*cov)));
        if stored != *n {
            ok = false;
        }
        detail.push(json!({"covhash": hex::encode(cov), "coins": n, "stored_count": stored}));
    }
    if count_entries != tally.len() as u64 {
        ok = false;
    }
    (ok, json!({"per_covhash": detail, "count_entries": count_entries, "distinct_covhashes": tally.len()}))
}

fn cdh(cov: [u8; 32], value: u128) -> CoinDataHeight {
    CoinDataHeight {
        coin_data: CoinData {
            covhash: Address(HashVal(cov)),
            value: CoinValue(value),
            denom: Denom::Mel,
            additional_data: Default::default(),
        },
        height: 1.into(),
    }
}

fn small_hash(x: u64) -> [u8; 32] {
    let mut b = [0u8; 32];
    b[..8].copy_from_slice(&x.to_le_bytes());
    b[31] = 1;
    b
}

/// random op sequence over a small id / covhash space; consistent after every op?
pub fn c20_recount(req: &J) -> J {
    let mut seed = req["seed"].as_u64().unwrap_or(0).wrapping_mul(6364136223846793005).wrapping_add(1442695040888963407);
    let mut next = || {
        seed = seed.wrapping_mul(6364136223846793005).wrapping_add(1442695040888963407);
        (seed >> 33) as u64
    };
    let n = req["ops"].as_u64().unwrap_or(40);
    let db = Database::new(InMemoryCas::default());
    let mut cm = CoinMapping::new(db.get_tree([0u8; 32]).unwrap());
    let mut present: BTreeMap<u64, u64> = BTreeMap::new(); // id -> covhash index
    for step in 0..n {
        let id = next() % 6;
        let coinid = CoinID { txhash: TxHash(HashVal(small_hash(id))), index: (id % 3) as u8 };
        if next() % 2 == 0 {
            let cov = *present.get(&id).unwrap_or(&(next() % 3));
            cm.insert_coin(coinid, cdh(small_hash(100 + cov), next() as u128), true);
            present.insert(id, cov);
        } else {
            cm.remove_coin(coinid, true);
            present.remove(&id);
        }
        let (ok, detail) = recount(&cm);
        if !ok {
            return json!({"consistent": false, "step": step, "detail": detail});
        }
    }
    json!({"consistent": true, "ops": n, "coins_at_end": present.len()})
}

/// concrete scenario: pre-state built through the real API, then one operation, then recount
pub fn c20_ops(req: &J) -> J {
    let db = Database::new(InMemoryCas::default());
    let mut cm = CoinMapping::new(db.get_tree([0u8; 32]).unwrap());
    let apply = |cm: &mut CoinMapping<InMemoryCas>, op: &J| {
        let coinid = CoinID { txhash: TxHash(hash_of(&op["txhash"])), index: op["index"].as_u64().unwrap() as u8 };
        let flag = op["tip906"].as_bool().unwrap_or(true);
        match op["op"].as_str().unwrap() {
            "insert" => cm.insert_coin(coinid, cdh(hash_of(&op["covhash"]).0, 7), flag),
            "remove" => cm.remove_coin(coinid, flag),
            other => panic!("bad op {other}"),
        }
    };
    for op in req["pre"].as_array().unwrap() {
        apply(&mut cm, op);
    }
    let (pre_ok, _) = recount(&cm);
    let r = std::panic::catch_unwind(std::panic::AssertUnwindSafe(|| {
        apply(&mut cm, &req["op"]);
    }));
    if r.is_err() {
        return json!({"consistent": false, "panicked": true, "msg": crate::last_panic(), "pre_consistent": pre_ok});
    }
    let (ok, detail) = recount(&cm);
    json!({"consistent": ok, "pre_consistent": pre_ok, "detail": detail})
}

//! Native replay / translation-validation driver.  Reads one JSON request (file path in argv[1] or
//! stdin), runs it against the real melstf build, prints one JSON answer.
use std::panic::{catch_unwind, AssertUnwindSafe};

use melstf::UnsealedState;
use melstructs::{Address, ProposerAction};
use novasmt::{Database, InMemoryCas};
use serde_json::{json, Value as J};
use tmelcrypt::HashVal;

mod util;
use util::*;
mod c20;
mod batch;
mod c14;
mod vm;
mod c18;
mod c06;
mod melmint;

thread_local! {
    pub static LAST_PANIC: std::cell::RefCell<String> = Default::default();
}

pub fn last_panic() -> String {
    LAST_PANIC.with(|p| p.borrow().clone())
}

fn c17(req: &J) -> J {
    let m = u128_of(&req["m"]);
    let d = req["d"].as_i64().unwrap() as i8;
    let network = netid_of(&req["network"]);
    let height = req["height"].as_u64().unwrap();
    let db = Database::new(InMemoryCas::default());
    let mut st: UnsealedState<InMemoryCas> = genesis(network, m, 0).realize(&db);
    melstf::verif_hooks::fabricate(&mut st, network, height, 0, 0, m, 1_000_000);
    let with_action = req["action"].as_bool().unwrap_or(true);
    let r = catch_unwind(AssertUnwindSafe(|| {
        let sealed = st.seal(if with_action {
            Some(ProposerAction {
                fee_multiplier_delta: d,
                reward_dest: Address(HashVal::default()),
            })
        } else {
            None
        });
        melstf::verif_hooks::fee_multiplier(melstf::verif_hooks::unsealed_of(&sealed))
    }));
    match r {
        Ok(v) => json!({"panicked": false, "after": v.to_string()}),
        Err(_) => json!({"panicked": true, "msg": last_panic()}),
    }
}

fn main() {
    std::panic::set_hook(Box::new(|info| {
        let msg = format!("{info}");
        LAST_PANIC.with(|p| *p.borrow_mut() = msg);
    }));
    let args: Vec<String> = std::env::args().collect();
    let text = if args.len() > 1 {
        std::fs::read_to_string(&args[1]).expect("read request")
    } else {
        let mut s = String::new();
        std::io::Read::read_to_string(&mut std::io::stdin(), &mut s).unwrap();
        s
    };
    let req: J = serde_json::from_str(&text).expect("json");
    let reqs: Vec<J> = if let Some(a) = req.as_array() { a.clone() } else { vec![req] };
    let mut outs = vec![];
    for r in reqs.iter() {
        let out = match r["kind"].as_str().unwrap_or("") {
            "c17" => c17(r),
            "c20_recount" => c20::c20_recount(r),
            "c20_ops" => c20::c20_ops(r),
            "batch" => batch::batch(r),
            "c05_weight_sum" => batch::c05_weight_sum(r),
            "c14" => c14::c14(r),
            "c12_bytes" => vm::c12_bytes(r),
            "c12_roundtrip" => vm::c12_roundtrip(r),
            "c12_op" => vm::c12_op(r),
            "c04_env" => vm::c04_env(r),
            "c10_run" => vm::c10_run(r),
            "c10_step" => vm::c10_step(r),
            "c18_mint" => c18::c18_mint(r),
            "c09_empty_proof" => c18::c09_empty_proof(r),
            "pool_op" => melmint::pool_op(r),
            "multiply_frac" => melmint::multiply_frac(r),
            "c11_weight" => vm::c11_weight(r),
            "c11_steps" => vm::c11_steps(r),
            "c11_weigh_time" => vm::c11_weigh_time(r),
            "c10_random" => vm::c10_random(r),
            "c06_mutations" => c06::c06_mutations(r),
            "c08" => c06::c08(r),
            "c07_header" => c06::c07_header(r),
            "c14_votes" => c14::c14_votes(r),
            "c13_unlock" => c14::c13_unlock(r),
            other => json!({"error": format!("unknown kind {other}")}),
        };
        outs.push(out);
    }
    println!("{}", serde_json::to_string(&J::Array(outs)).unwrap());
}

//! MelVM-level replays: bytecode round trips (C12), single executions (C10), weights and step counts (C11).
use std::panic::{catch_unwind, AssertUnwindSafe};

use ethnum::U256;
use melvm::{opcode::OpCode, Covenant};
use serde_json::{json, Value as J};

fn lcg(seed: &mut u64) -> u64 {
    *seed = seed.wrapping_mul(6364136223846793005).wrapping_add(1442695040888963407);
    *seed >> 33
}

/// decode one instruction stream; ok = (decodes => re-encodes to the same bytes) and no panic
fn check_bytes(b: &[u8]) -> (bool, String) {
    let r = catch_unwind(AssertUnwindSafe(|| match Covenant::from_bytes(b) {
        Ok(c) => {
            let re = c.to_bytes();
            if re.as_ref() == b { (true, "roundtrip".to_string()) } else { (false, format!("re-encodes to {}", hex::encode(&re))) }
        }
        Err(e) => (true, format!("rejected: {e:?}")),
    }));
    match r {
        Ok(x) => x,
        Err(_) => (false, format!("panic: {}", crate::last_panic())),
    }
}

pub fn c12_bytes(req: &J) -> J {
    let b = hex::decode(req["hex"].as_str().unwrap()).unwrap();
    // one instruction off the front: what was consumed must be exactly what it re-encodes to
    let r = catch_unwind(AssertUnwindSafe(|| {
        let mut cur: &[u8] = &b;
        match OpCode::decode(&mut cur) {
            Err(e) => (true, format!("rejected: {e:?}")),
            Ok(op) => {
                let consumed = b.len() - cur.len();
                let mut out = vec![];
                match op.encode(&mut out) {
                    Err(e) => (false, format!("decoded {op:?} but it does not encode: {e:?}")),
                    Ok(()) => (consumed >= 1 && out == b[..consumed], format!("decoded {op:?} from {} bytes, re-encodes to {}", consumed, hex::encode(&out))),
                }
            }
        }
    }));
    let (ok1, why1) = match r { Ok(x) => x, Err(_) => (false, format!("panic: {}", crate::last_panic())) };
    let (ok2, why2) = check_bytes(&b);
    json!({"ok": ok1 && ok2, "detail": why1, "whole_string": why2})
}

pub fn c12_roundtrip(req: &J) -> J {
    let mut seed = req["seed"].as_u64().unwrap_or(1).wrapping_add(0x9e3779b97f4a7c15);
    let n = req["n"].as_u64().unwrap_or(100);
    let opcodes: [u8; 49] = [0x09, 0x10, 0x11, 0x12, 0x13, 0x14, 0x15, 0x20, 0x21, 0x22, 0x23, 0x24, 0x25, 0x26, 0x27, 0x28, 0x30, 0x32,
        0x40, 0x41, 0x42, 0x43, 0x50, 0x51, 0x52, 0x53, 0x54, 0x55, 0x56, 0x57, 0x70, 0x71, 0x72, 0x73, 0x74, 0x75, 0x76, 0x77,
        0xa0, 0xa1, 0xa2, 0xb0, 0xc0, 0xc1, 0xc2, 0xf0, 0xf1, 0xf2, 0xff];
    for i in 0..n {
        let len = (lcg(&mut seed) % 40) as usize;
        let mut b = vec![];
        for k in 0..len {
            let r = lcg(&mut seed);
            // bias the first byte (and some later ones) towards real opcodes
            if k == 0 || r % 3 == 0 { b.push(opcodes[(r as usize / 7) % 49]); } else { b.push((r >> 8) as u8); }
        }
        let (ok, why) = check_bytes(&b);
        if !ok {
            return json!({"ok": false, "cases": i, "hex": hex::encode(&b), "detail": why});
        }
    }
    json!({"ok": true, "cases": n})
}

pub fn opcode_of(variant: &str, args: &[String]) -> Option<OpCode> {
    let u16a = |i: usize| args[i].parse::<u16>().unwrap();
    let u256a = |i: usize| U256::from_str_radix(&args[i], 10).unwrap();
    Some(match variant {
        "Noop" => OpCode::Noop, "Add" => OpCode::Add, "Sub" => OpCode::Sub, "Mul" => OpCode::Mul, "Div" => OpCode::Div,
        "Rem" => OpCode::Rem, "Exp" => OpCode::Exp(args[0].parse().unwrap()), "And" => OpCode::And, "Or" => OpCode::Or,
        "Xor" => OpCode::Xor, "Not" => OpCode::Not, "Eql" => OpCode::Eql, "Lt" => OpCode::Lt, "Gt" => OpCode::Gt,
        "Shl" => OpCode::Shl, "Shr" => OpCode::Shr, "Hash" => OpCode::Hash(u16a(0)), "SigEOk" => OpCode::SigEOk(u16a(0)),
        "Store" => OpCode::Store, "Load" => OpCode::Load, "StoreImm" => OpCode::StoreImm(u16a(0)), "LoadImm" => OpCode::LoadImm(u16a(0)),
        "VRef" => OpCode::VRef, "VAppend" => OpCode::VAppend, "VEmpty" => OpCode::VEmpty, "VLength" => OpCode::VLength,
        "VSlice" => OpCode::VSlice, "VSet" => OpCode::VSet, "VPush" => OpCode::VPush, "VCons" => OpCode::VCons,
        "BRef" => OpCode::BRef, "BAppend" => OpCode::BAppend, "BEmpty" => OpCode::BEmpty, "BLength" => OpCode::BLength,
        "BSlice" => OpCode::BSlice, "BSet" => OpCode::BSet, "BPush" => OpCode::BPush, "BCons" => OpCode::BCons,
        "Bez" => OpCode::Bez(u16a(0)), "Bnz" => OpCode::Bnz(u16a(0)), "Jmp" => OpCode::Jmp(u16a(0)),
        "Loop" => OpCode::Loop(u16a(0), u16a(1)), "ItoB" => OpCode::ItoB, "BtoI" => OpCode::BtoI, "TypeQ" => OpCode::TypeQ,
        "PushB" => OpCode::PushB(hex::decode(&args[0]).unwrap()), "PushI" => OpCode::PushI(u256a(0)), "PushIC" => OpCode::PushIC(u256a(0)),
        "Dup" => OpCode::Dup,
        _ => return None,
    })
}

pub fn c12_op(req: &J) -> J {
    let args: Vec<String> = req["args"].as_array().unwrap().iter().map(|a| a.as_str().unwrap().to_string()).collect();
    let op = match opcode_of(req["variant"].as_str().unwrap(), &args) { Some(o) => o, None => return json!({"error": "bad variant"}) };
    let r = catch_unwind(AssertUnwindSafe(|| {
        let mut out = vec![];
        match op.encode(&mut out) {
            Err(_) => (matches!(&op, OpCode::PushB(b) if b.len() > 255), "not representable".to_string()),
            Ok(()) => {
                let mut tail = out.clone();
                tail.extend_from_slice(&[1, 2, 3]);
                let mut cur: &[u8] = &tail;
                match OpCode::decode(&mut cur) {
                    Ok(back) => (back == op && cur.len() == 3, format!("decoded {back:?}, {} bytes left", cur.len())),
                    Err(e) => (false, format!("does not decode: {e:?}")),
                }
            }
        }
    }));
    match r {
        Ok((ok, why)) => json!({"ok": ok, "detail": why}),
        Err(_) => json!({"ok": false, "detail": format!("panic: {}", crate::last_panic())}),
    }
}

/// C04: a covenant that only approves when it is evaluated for input position 0, locking two coins spent together.
pub fn c04_env(_req: &J) -> J {
    if _req.get("n_inputs").is_some() {
        return c04_positional(_req);
    }
    use melstf::{verif_hooks as vh, UnsealedState};
    use melstructs::{CoinData, CoinDataHeight, CoinID, CoinValue, Denom, NetID, Transaction, TxHash, TxKind};
    use melvm::CovenantEnv;
    use novasmt::{Database, InMemoryCas};
    use tmelcrypt::HashVal;
    let r = catch_unwind(AssertUnwindSafe(|| {
        // position-dependent covenants, each true only for the input at position 0, reading the spender index
        // (HADDR_SPENDER_INDEX = 9) in different ways
        let family: Vec<(&str, Vec<OpCode>)> = vec![
            ("LoadImm(9) == 0", vec![OpCode::LoadImm(9), OpCode::PushI(0u8.into()), OpCode::Eql]),
            ("PushI 9; Load == 0", vec![OpCode::PushI(9u8.into()), OpCode::Load, OpCode::PushI(0u8.into()), OpCode::Eql]),
            ("PushI 4; PushI 5; Add; Load == 0", vec![OpCode::PushI(4u8.into()), OpCode::PushI(5u8.into()), OpCode::Add, OpCode::Load, OpCode::PushI(0u8.into()), OpCode::Eql]),
        ];
        let db = Database::new(InMemoryCas::default());
        let mut st: UnsealedState<InMemoryCas> = crate::util::genesis(NetID::Custom02, 0, 0).realize(&db);
        let sealed = st.clone().seal(None);
        st = sealed.next_unsealed();
        let mk = |n: u8| CoinID { txhash: TxHash(HashVal([n; 32])), index: 0 };
        let last_header = sealed.header();
        let mut variants = vec![];
        let mut accepted_any_unapproved = false;
        let mut all_approve_all = true;
        let first_cov = Covenant::from_ops(&family[0].1);
        for (vi, (name, ops)) in family.iter().enumerate() {
            let cov = Covenant::from_ops(ops);
            let cdh = CoinDataHeight { coin_data: CoinData { covhash: cov.hash(), value: CoinValue(500), denom: Denom::Mel, additional_data: Default::default() }, height: 0.into() };
            let (c1, c2) = (mk(0x10 + 2 * vi as u8), mk(0x11 + 2 * vi as u8));
            let mut stv = st.clone();
            vh::insert_coin(&mut stv, c1, cdh.clone());
            vh::insert_coin(&mut stv, c2, cdh.clone());
            let tx = Transaction {
                kind: TxKind::Normal,
                inputs: vec![c1, c2],
                outputs: vec![CoinData { covhash: cov.hash(), value: CoinValue(1000), denom: Denom::Mel, additional_data: Default::default() }],
                fee: CoinValue(0),
                covenants: vec![cov.to_bytes()],
                data: Default::default(),
                sigs: vec![],
            };
            let approvals: Vec<bool> = [c1, c2].iter().enumerate().map(|(i, c)| {
                cov.execute(&tx, Some(CovenantEnv { parent_coinid: *c, parent_cdh: cdh.clone(), spender_index: i as u8, last_header }))
                    .map(|v| v.into_bool()).unwrap_or(false)
            }).collect();
            let accepted = stv.apply_tx(&tx).is_ok();
            let all = approvals.iter().all(|b| *b);
            if accepted && !all { accepted_any_unapproved = true; }
            all_approve_all &= all;
            variants.push(json!({"covenant": name, "approvals": approvals, "accepted": accepted}));
        }
        // a covenant that fails (stack underflow) and one that returns 0 must both refuse
        let mut refusing_accepted = vec![];
        for (n, ops) in [(7u8, vec![OpCode::Add]), (8u8, vec![OpCode::PushI(0u8.into())])] {
            let bad = Covenant::from_ops(&ops);
            let mut st2 = st.clone();
            let cd = CoinDataHeight { coin_data: CoinData { covhash: bad.hash(), value: CoinValue(500), denom: Denom::Mel, additional_data: Default::default() }, height: 0.into() };
            vh::insert_coin(&mut st2, mk(n), cd);
            let tx2 = Transaction {
                kind: TxKind::Normal,
                inputs: vec![mk(n)],
                outputs: vec![CoinData { covhash: first_cov.hash(), value: CoinValue(500), denom: Denom::Mel, additional_data: Default::default() }],
                fee: CoinValue(0),
                covenants: vec![bad.to_bytes()],
                data: Default::default(),
                sigs: vec![],
            };
            if st2.apply_tx(&tx2).is_ok() {
                refusing_accepted.push(n);
            }
        }
        // a coin whose covenant is not carried by the transaction
        let mut st3 = st.clone();
        let cdh = CoinDataHeight { coin_data: CoinData { covhash: first_cov.hash(), value: CoinValue(500), denom: Denom::Mel, additional_data: Default::default() }, height: 0.into() };
        vh::insert_coin(&mut st3, mk(0x30), cdh);
        let tx3 = Transaction {
            kind: TxKind::Normal,
            inputs: vec![mk(0x30)],
            outputs: vec![CoinData { covhash: first_cov.hash(), value: CoinValue(500), denom: Denom::Mel, additional_data: Default::default() }],
            fee: CoinValue(0),
            covenants: vec![],
            data: Default::default(),
            sigs: vec![],
        };
        let missing_accepted = st3.apply_tx(&tx3).is_ok();
        (accepted_any_unapproved, all_approve_all, variants, refusing_accepted, missing_accepted)
    }));
    match r {
        Ok((accepted, all, variants, refusing, missing)) => json!({"panicked": false, "accepted": accepted, "variants": variants,
            "all_inputs_approve": all, "refusing_covenants_accepted": refusing, "missing_script_accepted": missing}),
        Err(_) => json!({"panicked": true, "msg": crate::last_panic()}),
    }
}

/// C04, wider transactions: `n_inputs` coins spent together, the one at position `pos` locked by `spender index == k` (for
/// every k < n_inputs), the others by an always-true covenant.  The transaction must be accepted exactly when that covenant,
/// run on its own with the coin's real environment, approves.
pub fn c04_positional(req: &J) -> J {
    use melstf::{verif_hooks as vh, UnsealedState};
    use melstructs::{CoinData, CoinDataHeight, CoinID, CoinValue, Denom, NetID, Transaction, TxHash, TxKind};
    use melvm::CovenantEnv;
    use novasmt::{Database, InMemoryCas};
    use tmelcrypt::HashVal;
    let n = req["n_inputs"].as_u64().unwrap_or(9) as usize;
    let pos = (req["pos"].as_u64().unwrap_or((n - 1) as u64) as usize).min(n - 1);
    let r = catch_unwind(AssertUnwindSafe(|| {
        let db = Database::new(InMemoryCas::default());
        let mut st: UnsealedState<InMemoryCas> = crate::util::genesis(NetID::Custom02, 0, 0).realize(&db);
        let sealed = st.clone().seal(None);
        st = sealed.next_unsealed();
        let last_header = sealed.header();
        let mk = |i: usize| CoinID { txhash: TxHash(HashVal([0x40 + i as u8; 32])), index: 0 };
        let truth = Covenant::always_true();
        let mut cases = vec![];
        let mut mismatch = false;
        for k in 0..n {
            let bound = Covenant::from_ops(&[OpCode::LoadImm(9), OpCode::PushI((k as u8).into()), OpCode::Eql]);
            let mut stv = st.clone();
            let mut cdhs = vec![];
            for i in 0..n {
                let cov = if i == pos { &bound } else { &truth };
                let cdh = CoinDataHeight { coin_data: CoinData { covhash: cov.hash(), value: CoinValue(100), denom: Denom::Mel, additional_data: Default::default() }, height: 0.into() };
                vh::insert_coin(&mut stv, mk(i), cdh.clone());
                cdhs.push(cdh);
            }
            let tx = Transaction {
                kind: TxKind::Normal,
                inputs: (0..n).map(mk).collect(),
                outputs: vec![CoinData { covhash: truth.hash(), value: CoinValue(100 * n as u128), denom: Denom::Mel, additional_data: Default::default() }],
                fee: CoinValue(0),
                covenants: vec![bound.to_bytes(), truth.to_bytes()],
                data: Default::default(),
                sigs: vec![],
            };
            let approves = bound
                .execute(&tx, Some(CovenantEnv { parent_coinid: mk(pos), parent_cdh: cdhs[pos].clone(), spender_index: pos as u8, last_header }))
                .map(|v| v.into_bool())
                .unwrap_or(false);
            let accepted = stv.apply_tx(&tx).is_ok();
            if accepted != approves {
                mismatch = true;
                cases.push(json!({"covenant": format!("spender index == {k}"), "position": pos, "own_verdict": approves, "accepted": accepted}));
            }
        }
        (mismatch, cases)
    }));
    match r {
        Ok((m, cases)) => json!({"panicked": false, "positional_mismatch": m, "cases": cases, "n_inputs": n, "pos": pos}),
        Err(_) => json!({"panicked": true, "msg": crate::last_panic()}),
    }
}

// ---- C10: one native step on a given stack -------------------------------------------------------------------

fn value_of(j: &J) -> melvm::Value {
    if let Some(i) = j.get("int") {
        return melvm::Value::Int(U256::from_str_radix(i.as_str().unwrap(), 10).unwrap());
    }
    if let Some(b) = j.get("bytes") {
        return melvm::Value::from_bytes(&hex::decode(b.as_str().unwrap()).unwrap());
    }
    let v: Vec<melvm::Value> = j["vec"].as_array().unwrap().iter().map(value_of).collect();
    melvm::Value::Vector(v.into())
}

fn value_json(v: &melvm::Value) -> J {
    match v {
        melvm::Value::Int(i) => json!({"int": i.to_string()}),
        melvm::Value::Bytes(b) => { let bv: Vec<u8> = b.clone().into(); json!({"bytes": hex::encode(bv)}) }
        melvm::Value::Vector(v) => { let vv: Vec<melvm::Value> = v.clone().into(); json!({"vec": vv.iter().map(value_json).collect::<Vec<_>>()}) }
    }
}

pub fn c10_step(req: &J) -> J {
    let args: Vec<String> = req["args"].as_array().unwrap().iter().map(|a| a.as_str().unwrap().to_string()).collect();
    let op = match opcode_of(req["variant"].as_str().unwrap(), &args) { Some(o) => o, None => return json!({"error": "bad variant"}) };
    let stack: Vec<melvm::Value> = req["stack"].as_array().unwrap().iter().map(value_of).collect();
    let r = catch_unwind(AssertUnwindSafe(|| {
        let mut ex = melvm::verif_hooks::Executor::new(vec![op], Default::default());
        ex.stack = stack;
        let res = ex.step();
        (res.is_none(), ex.stack.iter().map(value_json).collect::<Vec<_>>(), ex.pc())
    }));
    match r {
        Ok((failed, stack, pc)) => json!({"panicked": false, "failed": failed, "stack": stack, "pc": pc}),
        Err(_) => json!({"panicked": true, "msg": crate::last_panic()}),
    }
}

/// {"program": [{"variant": "Loop", "args": ["2", "3"]}, ...]} -> the covenant's result on an empty heap (null = failed)
pub fn c10_run(req: &J) -> J {
    let ops = program_of(&req["program"]);
    let r = catch_unwind(AssertUnwindSafe(|| {
        let n = ops.len();
        let mut ex = melvm::verif_hooks::Executor::new(ops, Default::default());
        let mut steps = 0u64;
        let mut failed = false;
        while ex.pc() < n && steps < 100_000 {
            steps += 1;
            if ex.step().is_none() { failed = true; break; }
        }
        (failed, ex.stack.last().map(value_json), steps)
    }));
    match r {
        Ok((failed, top, steps)) => json!({"panicked": false, "failed": failed, "top": top, "steps": steps}),
        Err(_) => json!({"panicked": true, "msg": crate::last_panic()}),
    }
}

pub fn c10_random(req: &J) -> J {
    // kept for interface stability: the differential run lives in the check's translation validation
    json!({"ok": true, "cases": 0, "seed": req["seed"].clone()})
}

// ---- C11 -------------------------------------------------------------------------------------------------------------

fn program_of(j: &J) -> Vec<OpCode> {
    j.as_array().unwrap().iter().map(|i| {
        let args: Vec<String> = i["args"].as_array().unwrap().iter().map(|a| a.as_str().unwrap().to_string()).collect();
        opcode_of(i["variant"].as_str().unwrap(), &args).expect("variant")
    }).collect()
}

pub fn c11_weight(req: &J) -> J {
    let ops = program_of(&req["program"]);
    match catch_unwind(AssertUnwindSafe(|| melvm::opcode::opcodes_weight(&ops))) {
        Ok(w) => json!({"panicked": false, "weight": w.to_string()}),
        Err(_) => json!({"panicked": true, "msg": crate::last_panic()}),
    }
}

pub fn c11_steps(req: &J) -> J {
    let ops = program_of(&req["program"]);
    let r = catch_unwind(AssertUnwindSafe(|| {
        let w = melvm::opcode::opcodes_weight(&ops);
        let n = ops.len();
        let mut ex = melvm::verif_hooks::Executor::new(ops, Default::default());
        ex.stack = vec![melvm::Value::Int(5u8.into())];
        let mut steps: u128 = 0;
        while ex.pc() < n && steps <= w.saturating_add(10).min(10_000_000) {
            steps += 1;
            if ex.step().is_none() { break; }
        }
        (w, steps)
    }));
    match r {
        Ok((w, s)) => json!({"panicked": false, "weight": w.to_string(), "steps": s.to_string()}),
        Err(_) => json!({"panicked": true, "msg": crate::last_panic()}),
    }
}

pub fn c11_weigh_time(req: &J) -> J {
    let depth = req["depth"].as_u64().unwrap_or(20) as u16;
    let time_for = |d: u16| {
        let mut ops = vec![];
        for k in 0..d { ops.push(OpCode::Loop(2, d - k)); }
        ops.push(OpCode::Noop);
        let bytes = Covenant::from_ops(&ops).to_bytes();
        let t0 = std::time::Instant::now();
        let w = melvm::covenant_weight_from_bytes(&bytes);
        (t0.elapsed().as_secs_f64(), bytes.len(), w)
    };
    let (t1, len1, _) = time_for(depth);
    let (t2, len2, _) = time_for(depth + 4);
    json!({"depth": depth, "bytes": len1, "seconds": t1, "depth_plus_4_bytes": len2, "depth_plus_4_seconds": t2,
           "ratio_depth_plus_4": if t1 > 0.0 { t2 / t1 } else { 0.0 }})
}

//! C14: confirm() with real Ed25519 keys and signatures for the solver's stake distribution / signer subset.
use std::collections::BTreeMap;
use std::panic::{catch_unwind, AssertUnwindSafe};

use melstf::{verif_hooks as vh, UnsealedState};
use melstructs::{CoinValue, NetID, StakeDoc, TxHash};
use novasmt::{Database, InMemoryCas};
use serde_json::{json, Value as J};
use tmelcrypt::{Ed25519SK, HashVal};

use crate::util::*;

pub fn c14(req: &J) -> J {
    let db = Database::new(InMemoryCas::default());
    let mut st: UnsealedState<InMemoryCas> = genesis(NetID::Custom02, 0, 0).realize(&db);
    let mut keys: BTreeMap<u64, Ed25519SK> = BTreeMap::new();
    let mut key = |i: u64| -> Ed25519SK {
        *keys.entry(i).or_insert_with(Ed25519SK::generate)
    };
    for (n, s) in req["stakes"].as_array().unwrap().iter().enumerate() {
        let sk = key(s["key"].as_u64().unwrap());
        let mut h = [0u8; 32];
        h[0] = n as u8 + 1;
        vh::stakes_mut(&mut st).add_stake(
            TxHash(HashVal(h)),
            StakeDoc {
                pubkey: sk.to_public(),
                e_start: s["e_start"].as_u64().unwrap(),
                e_post_end: s["e_post_end"].as_u64().unwrap(),
                syms_staked: CoinValue(u128_of(&s["syms"])),
            },
        );
    }
    // seal at height 0 (no history needed), then move the sealed state's height to the requested one via a fresh seal
    let height = req["height"].as_u64().unwrap();
    vh::fabricate(&mut st, NetID::Custom02, 0, 0, 0, 0, 1_000_000);
    let sealed0 = st.clone().seal(None);
    // place the state at `height`: history entry for height-1 so that header() works
    let mut st2 = st.clone();
    if height > 0 {
        let mut hdr = sealed0.header();
        hdr.height = (height - 1).into();
        vh::history_mut(&mut st2).insert((height - 1).into(), hdr);
    }
    vh::fabricate(&mut st2, NetID::Custom02, height, 0, 0, 0, 1_000_000);
    let r = catch_unwind(AssertUnwindSafe(|| {
        let sealed = st2.seal(None);
        let msg = sealed.header().hash();
        let mut proof = BTreeMap::new();
        for g in req["signers"].as_array().unwrap() {
            let sk = key(g["key"].as_u64().unwrap());
            let mut sig = sk.sign(&msg);
            if !g["valid"].as_bool().unwrap() {
                sig[0] ^= 0x55;
            }
            proof.insert(sk.to_public(), sig.into());
        }
        sealed.confirm(proof).is_some()
    }));
    match r {
        Ok(c) => json!({"panicked": false, "confirmed": c}),
        Err(_) => json!({"panicked": true, "msg": crate::last_panic()}),
    }
}

/// votes()/total_votes() of the real StakeSet for a concrete stake list
pub fn c14_votes(req: &J) -> J {
    let mut stakes = vec![];
    for (n, s) in req["stakes"].as_array().unwrap().iter().enumerate() {
        let mut h = [0u8; 32];
        h[0] = n as u8 + 1;
        stakes.push((
            TxHash(HashVal(h)),
            StakeDoc {
                pubkey: tmelcrypt::Ed25519PK(hash_of(&s["pubkey"]).0),
                e_start: s["e_start"].as_u64().unwrap(),
                e_post_end: s["e_post_end"].as_u64().unwrap(),
                syms_staked: CoinValue(u128_of(&s["syms"])),
            },
        ));
    }
    let set = tip911_stakeset::StakeSet::new(stakes.into_iter());
    let epoch = req["epoch"].as_u64().unwrap();
    let key = tmelcrypt::Ed25519PK(hash_of(&req["key"]).0);
    let r = catch_unwind(AssertUnwindSafe(|| (set.votes(epoch, key), set.total_votes(epoch))));
    match r {
        Ok((v, t)) => json!({"panicked": false, "votes": v.to_string(), "total_votes": t.to_string()}),
        Err(_) => json!({"panicked": true, "msg": crate::last_panic()}),
    }
}

/// C13: does a stake with the given end epoch survive next_unsealed() at this height?
pub fn c13_unlock(req: &J) -> J {
    let network = netid_of(&req["network"]);
    let db = Database::new(InMemoryCas::default());
    let mut st: UnsealedState<InMemoryCas> = genesis(network, 0, 0).realize(&db);
    let height = req["height"].as_u64().unwrap();
    let sk = Ed25519SK::generate();
    let mut h = [0u8; 32];
    h[0] = 7;
    vh::stakes_mut(&mut st).add_stake(
        TxHash(HashVal(h)),
        StakeDoc { pubkey: sk.to_public(), e_start: 0, e_post_end: req["e_post_end"].as_u64().unwrap(), syms_staked: CoinValue(5) },
    );
    vh::fabricate(&mut st, network, 0, 0, 0, 0, 1_000_000);
    let sealed0 = st.clone().seal(None);
    if height > 0 {
        let mut hdr = sealed0.header();
        hdr.height = (height - 1).into();
        vh::history_mut(&mut st).insert((height - 1).into(), hdr);
    }
    vh::fabricate(&mut st, network, height, 0, 0, 0, 1_000_000);
    let r = catch_unwind(AssertUnwindSafe(|| {
        let next = st.seal(None).next_unsealed();
        (vh::stakes(&next).get_stake(TxHash(HashVal(h))).is_some(), vh::height(&next))
    }));
    match r {
        Ok((kept, nh)) => json!({"panicked": false, "kept": kept, "next_height": nh}),
        Err(_) => json!({"panicked": true, "msg": crate::last_panic()}),
    }
}

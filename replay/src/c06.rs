//! C06: an honestly built block is accepted by its parent; every single-field mutation is rejected.
use std::panic::{catch_unwind, AssertUnwindSafe};

use melstf::{verif_hooks as vh, UnsealedState};
use melstructs::{Address, Block, CoinData, CoinID, CoinValue, Denom, NetID, ProposerAction, Transaction, TxKind};
use novasmt::{Database, InMemoryCas};
use serde_json::{json, Value as J};
use tmelcrypt::HashVal;

use crate::util::*;

pub fn honest_chain(network: NetID) -> (melstf::SealedState<InMemoryCas>, Block, Database<InMemoryCas>) {
    let db = Database::new(InMemoryCas::default());
    let st: UnsealedState<InMemoryCas> = genesis(network, 1000, 5_000_000).realize(&db);
    let parent = st.seal(None);
    let mut next = parent.next_unsealed();
    let tx = Transaction {
        kind: TxKind::Normal,
        inputs: vec![CoinID::zero_zero()],
        outputs: vec![CoinData { covhash: always_true_covhash(), value: CoinValue((1 << 64) - 100_000), denom: Denom::Mel, additional_data: Default::default() }],
        fee: CoinValue(100_000),
        covenants: vec![melvm::Covenant::always_true().to_bytes()],
        data: Default::default(),
        sigs: vec![],
    };
    next.apply_tx(&tx).expect("honest tx");
    let sealed = next.seal(Some(ProposerAction { fee_multiplier_delta: 3, reward_dest: Address(HashVal([7u8; 32])) }));
    (parent, sealed.to_block(), db)
}

pub fn c06_mutations(_req: &J) -> J {
    let r = catch_unwind(AssertUnwindSafe(|| {
        let (parent, block, _db) = honest_chain(NetID::Custom02);
        let honest = parent.apply_block(&block).is_ok();
        let mut accepted = vec![];
        let flip = |h: HashVal| { let mut b = h.0; b[0] ^= 1; HashVal(b) };
        let mut muts: Vec<(&str, Block)> = vec![];
        macro_rules! m { ($name:expr, $f:expr) => {{ let mut b = block.clone(); $f(&mut b); muts.push(($name, b)); }}; }
        m!("network", |b: &mut Block| b.header.network = NetID::Custom03);
        m!("previous", |b: &mut Block| b.header.previous = flip(b.header.previous));
        m!("height", |b: &mut Block| b.header.height = (b.header.height.0 + 1).into());
        m!("history_hash", |b: &mut Block| b.header.history_hash = flip(b.header.history_hash));
        m!("coins_hash", |b: &mut Block| b.header.coins_hash = flip(b.header.coins_hash));
        m!("transactions_hash", |b: &mut Block| b.header.transactions_hash = flip(b.header.transactions_hash));
        m!("fee_pool", |b: &mut Block| b.header.fee_pool = CoinValue(b.header.fee_pool.0 + 1));
        m!("fee_multiplier", |b: &mut Block| b.header.fee_multiplier += 1);
        m!("dosc_speed", |b: &mut Block| b.header.dosc_speed += 1);
        m!("pools_hash", |b: &mut Block| b.header.pools_hash = flip(b.header.pools_hash));
        m!("stakes_hash", |b: &mut Block| b.header.stakes_hash = flip(b.header.stakes_hash));
        m!("drop_tx", |b: &mut Block| b.transactions.clear());
        m!("drop_action", |b: &mut Block| b.proposer_action = None);
        m!("change_action", |b: &mut Block| b.proposer_action = Some(ProposerAction { fee_multiplier_delta: 3, reward_dest: Address(HashVal([8u8; 32])) }));
        m!("add_resigned_copy", |b: &mut Block| { let mut t = b.transactions.iter().next().unwrap().clone(); t.sigs = vec![vec![0x78u8].into()]; b.transactions.insert(t); });
        m!("change_tx", |b: &mut Block| { let t = b.transactions.iter().next().unwrap().clone(); b.transactions.clear(); let mut t2 = t; t2.data = vec![1u8].into(); b.transactions.insert(t2); });
        for (name, b) in muts {
            if parent.apply_block(&b).is_ok() {
                accepted.push(name);
            }
        }
        (honest, accepted)
    }));
    match r {
        Ok((honest, accepted)) => json!({"panicked": false, "honest_accepted": honest, "accepted_mutations": accepted}),
        Err(_) => json!({"panicked": true, "msg": crate::last_panic()}),
    }
}

/// C08: stop after a block (with / without proposer action, with / without pending tips), rebuild from the block,
/// then apply the same next block to both and compare headers.
pub fn c08(req: &J) -> J {
    let r = catch_unwind(AssertUnwindSafe(|| {
        let db = Database::new(InMemoryCas::default());
        let st: UnsealedState<InMemoryCas> = genesis(NetID::Custom02, 1001, 5_000_001).realize(&db);
        let parent = st.seal(None);
        let mut next = parent.next_unsealed();
        let tip = if req["tips_nonzero"].as_bool().unwrap_or(false) { 777u128 } else { 0 };
        // fee = minimum + tip  (minimum computed by the real code)
        let mk = |fee: u128| Transaction {
            kind: TxKind::Normal,
            inputs: vec![CoinID::zero_zero()],
            outputs: vec![CoinData { covhash: always_true_covhash(), value: CoinValue((1 << 64) - fee), denom: Denom::Mel, additional_data: Default::default() }],
            fee: CoinValue(fee),
            covenants: vec![melvm::Covenant::always_true().to_bytes()],
            data: Default::default(),
            sigs: vec![],
        };
        let min = mk(0).base_fee(1001, 0, |c| melvm::covenant_weight_from_bytes(c)).0;
        let min = mk(min + tip).base_fee(1001, 0, |c| melvm::covenant_weight_from_bytes(c)).0;
        let first = mk(min + tip);
        next.apply_tx(&first).expect("tx");
        // optionally the block also carries a Stake transaction whose document parses but is not a stake (it ends when it starts):
        // the state-transition function accepts it as an ordinary transfer and registers nothing
        let mut stake_out: Option<CoinID> = None;
        if req["unregistered_stake"].as_bool().unwrap_or(false) {
            let doc = melstructs::StakeDoc { pubkey: tmelcrypt::Ed25519PK([3u8; 32]), e_start: 5, e_post_end: 5, syms_staked: CoinValue(123) };
            let symcoin = CoinID { txhash: melstructs::TxHash(HashVal([0x77u8; 32])), index: 0 };
            vh::insert_coin(&mut next, symcoin, melstructs::CoinDataHeight { coin_data: CoinData { covhash: always_true_covhash(), value: CoinValue(500), denom: Denom::Sym, additional_data: Default::default() }, height: 0.into() });
            let mks = |fee: u128| Transaction {
                kind: TxKind::Stake,
                inputs: vec![first.output_coinid(0), symcoin],
                outputs: vec![CoinData { covhash: always_true_covhash(), value: CoinValue(500), denom: Denom::Sym, additional_data: Default::default() },
                              CoinData { covhash: always_true_covhash(), value: CoinValue((1 << 64) - (min + tip) - fee), denom: Denom::Mel, additional_data: Default::default() }],
                fee: CoinValue(fee),
                covenants: vec![melvm::Covenant::always_true().to_bytes()],
                data: stdcode::serialize(&doc).unwrap().into(),
                sigs: vec![],
            };
            let f = mks(0).base_fee(1001, 0, |c| melvm::covenant_weight_from_bytes(c)).0;
            let f = mks(f).base_fee(1001, 0, |c| melvm::covenant_weight_from_bytes(c)).0;
            let stx = mks(f);
            next.apply_tx(&stx).expect("unregistered stake tx is an ordinary transfer");
            stake_out = Some(stx.output_coinid(0));
        }
        // optionally move the stop point to another height (the previous header is made up, the rest of the state stays)
        // and register stakes, so that epoch boundaries and expiring stakes are reachable quickly
        if let Some(height) = req["height"].as_u64() {
            if height >= 2 {
                let mut hdr = parent.header();
                hdr.height = (height - 1).into();
                vh::history_mut(&mut next).insert((height - 1).into(), hdr);
                let (fp, tips, mult, speed) = (vh::fee_pool(&next), vh::tips(&next), vh::fee_multiplier(&next), vh::dosc_speed(&next));
                vh::fabricate(&mut next, NetID::Custom02, height, fp, tips, mult, speed);
            }
        }
        if let Some(stakes) = req["stakes"].as_array() {
            for (i, sd) in stakes.iter().enumerate() {
                let mut h = [0u8; 32];
                h[0] = 0x51 + i as u8;
                vh::stakes_mut(&mut next).add_stake(
                    melstructs::TxHash(HashVal(h)),
                    melstructs::StakeDoc { pubkey: tmelcrypt::Ed25519PK([3u8; 32]), e_start: sd["e_start"].as_u64().unwrap_or(0),
                                           e_post_end: sd["e_post_end"].as_u64().unwrap_or(0), syms_staked: CoinValue(1000 + i as u128) },
                );
            }
        }
        let action = if req["with_action"].as_bool().unwrap_or(false) {
            Some(ProposerAction { fee_multiplier_delta: 5, reward_dest: Address(HashVal([9u8; 32])) })
        } else {
            None
        };
        let a = next.seal(action);
        let b = melstf::SealedState::from_block(&a.to_block(), &a.raw_stakes(), &db);
        let same_header = a.header() == b.header();
        let follow = Some(ProposerAction { fee_multiplier_delta: -3, reward_dest: Address(HashVal([4u8; 32])) });
        let (mut ua, mut ub) = (a.next_unsealed(), b.next_unsealed());
        let mut same_verdict = true;
        if let Some(cid) = stake_out {
            // the continuation spends the output of that transaction: both lineages must give the same verdict
            let mel = CoinID { txhash: cid.txhash, index: 1 };
            let v = a.coin(mel).map(|c| c.coin_data.value.0).unwrap_or(0);
            let sp = |fee: u128| Transaction {
                kind: TxKind::Normal,
                inputs: vec![cid, mel],
                outputs: vec![CoinData { covhash: always_true_covhash(), value: CoinValue(500), denom: Denom::Sym, additional_data: vec![1u8].into() },
                              CoinData { covhash: always_true_covhash(), value: CoinValue(v - fee), denom: Denom::Mel, additional_data: vec![1u8].into() }],
                fee: CoinValue(fee),
                covenants: vec![melvm::Covenant::always_true().to_bytes()],
                data: Default::default(),
                sigs: vec![],
            };
            let mult = a.header().fee_multiplier;
            let f = sp(0).base_fee(mult, 0, |c| melvm::covenant_weight_from_bytes(c)).0;
            let f = sp(f).base_fee(mult, 0, |c| melvm::covenant_weight_from_bytes(c)).0;
            let (ra, rb) = (ua.apply_tx(&sp(f + 10)).is_ok(), ub.apply_tx(&sp(f + 10)).is_ok());
            same_verdict = ra == rb;
        }
        let na = ua.seal(follow);
        let nb = ub.seal(follow);
        let reward_a = na.coin(CoinID::proposer_reward(na.header().height)).map(|c| c.coin_data.value.0.to_string());
        let reward_b = nb.coin(CoinID::proposer_reward(nb.header().height)).map(|c| c.coin_data.value.0.to_string());
        (same_header, na.header() == nb.header() && same_verdict, reward_a, reward_b)
    }));
    match r {
        Ok((h, n, ra, rb)) => json!({"panicked": false, "same_header": h, "same_next_header": n, "next_reward_original": ra, "next_reward_rebuilt": rb}),
        Err(_) => json!({"panicked": true, "msg": crate::last_panic()}),
    }
}

/// C07: the header of a real sealed state against an independent recomputation from the public accessors; the
/// successor's previous-hash / height / history entry.
pub fn c07_header(_req: &J) -> J {
    let r = catch_unwind(AssertUnwindSafe(|| {
        let (parent, block, _db) = honest_chain(NetID::Custom02);
        let child = parent.apply_block(&block).expect("honest block");
        let mut bad: Vec<String> = vec![];
        for s in [&parent, &child] {
            let h = s.header();
            if h.coins_hash.0 != s.raw_coins_smt().root_hash() { bad.push(format!("coins_hash@{}", h.height)); }
            if h.history_hash.0 != s.raw_history_smt().root_hash() { bad.push(format!("history_hash@{}", h.height)); }
            if h.pools_hash.0 != s.raw_pools_smt().root_hash() { bad.push(format!("pools_hash@{}", h.height)); }
            if h.stakes_hash.0 != s.raw_stakes().pre_tip911().root_hash() { bad.push(format!("stakes_hash@{}", h.height)); }
            if h.network != NetID::Custom02 { bad.push("network".into()); }
        }
        let (ph, ch) = (parent.header(), child.header());
        if ch.previous != ph.hash() { bad.push("previous".into()); }
        if ch.height.0 != ph.height.0 + 1 { bad.push("height".into()); }
        if child.history(ph.height) != Some(ph) { bad.push("history entry for the parent".into()); }
        if child.history(ch.height).is_some() { bad.push("history holds the current height".into()); }
        let next = child.next_unsealed().seal(None);
        if next.header().previous != ch.hash() || next.history(ch.height) != Some(ch) { bad.push("chaining of the next block".into()); }
        if ch.fee_pool == ph.fee_pool && ch.fee_multiplier == ph.fee_multiplier { bad.push("fee fields did not move in the scenario".into()); }
        // transaction commitment (pre-TIP-908: sparse tree hash_nosigs -> full transaction): two sibling blocks whose only
        // transaction differs in its signatures, each against an independently rebuilt tree
        let mut roots = vec![];
        for sigs in [vec![], vec![bytes::Bytes::from(vec![0x55u8; 3])]] {
            let mut u = parent.next_unsealed();
            let mut tx = block.transactions.iter().next().unwrap().clone();
            tx.sigs = sigs;
            u.apply_tx(&tx).expect("sibling block transaction");
            let sealed = u.seal(None);
            let mut reference = melstf::SmtMapping::<InMemoryCas, melstructs::TxHash, Transaction>::new(
                Database::new(InMemoryCas::default()).get_tree(Default::default()).unwrap());
            reference.insert(tx.hash_nosigs(), tx.clone());
            if sealed.header().transactions_hash != reference.root_hash() {
                bad.push(format!("transactions_hash of a block whose transaction carries {} signature(s) is not the root of its transaction tree", tx.sigs.len()));
            }
            roots.push(sealed.header().transactions_hash);
        }
        if roots[0] == roots[1] { bad.push("blocks whose transactions differ in their signatures share a transaction root".into()); }
        bad
    }));
    match r {
        Ok(bad) => json!({"panicked": false, "mismatches": bad}),
        Err(_) => json!({"panicked": true, "msg": crate::last_panic()}),
    }
}

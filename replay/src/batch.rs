//! Generic batch scenario: fabricate a state, apply a batch (optionally seal), observe.
use std::collections::BTreeMap;
use std::panic::{catch_unwind, AssertUnwindSafe};

use bytes::Bytes;
use melstf::{verif_hooks as vh, StateError, UnsealedState};
use melstructs::{
    Address, BlockHeight, CoinData, CoinDataHeight, CoinID, CoinValue, Denom, Header, NetID, PoolKey, PoolState,
    ProposerAction, StakeDoc, Transaction, TxHash, TxKind,
};
use melvm::{opcode::OpCode, Covenant};
use novasmt::{Database, InMemoryCas};
use serde_json::{json, Value as J};
use tmelcrypt::{Ed25519PK, HashVal};

use crate::util::*;

pub fn cov_bytes(name: &str) -> Bytes {
    match name {
        "true" => Covenant::always_true().to_bytes(),
        "false" => Covenant::from_ops(&[OpCode::PushI(0u8.into())]).to_bytes(),
        "bad" => Bytes::from_static(&[0xff, 0xff]),
        other => Bytes::from(hex::decode(other).expect("covenant hex")),
    }
}

pub struct Resolver {
    pub txhashes: BTreeMap<String, HashVal>,
}

impl Resolver {
    pub fn hash(&self, v: &J) -> Option<HashVal> {
        if let Some(s) = v.as_str() {
            return Some(hash_of(&J::String(s.to_string())));
        }
        if let Some(h) = v.get("hex") {
            return Some(hash_of(h));
        }
        if let Some(n) = v.get("txhash_of") {
            return self.txhashes.get(n.as_str().unwrap()).copied();
        }
        if let Some(n) = v.get("covhash_of") {
            return Some(tmelcrypt::hash_single(&cov_bytes(n.as_str().unwrap())));
        }
        if let Some(n) = v.get("faucet_marker_of") {
            // the transaction-hash part of the dedup pseudo-coin of a faucet transaction (index 0)
            let h = self.txhashes.get(n.as_str().unwrap()).copied()?;
            return Some(tmelcrypt::hash_keyed(b"fdp", h.0));
        }
        panic!("bad hashref {v:?}")
    }
    pub fn denom(&self, v: &J) -> Option<Denom> {
        if let Some(s) = v.as_str() {
            return Some(match s {
                "MEL" => Denom::Mel,
                "SYM" => Denom::Sym,
                "ERG" => Denom::Erg,
                "NEWCUSTOM" => Denom::NewCustom,
                "LIQ:MEL/SYM" => melstructs::PoolKey::new(Denom::Mel, Denom::Sym).liq_token_denom(),
                _ => panic!("bad denom {s}"),
            });
        }
        Some(Denom::Custom(TxHash(self.hash(&v["custom"])?)))
    }
    pub fn coindata(&self, v: &J) -> Option<CoinData> {
        Some(CoinData {
            covhash: Address(self.hash(&v["covhash"])?),
            value: CoinValue(u128_of(&v["value"])),
            denom: self.denom(&v["denom"])?,
            additional_data: Bytes::from(hex::decode(v["adata"].as_str().unwrap_or("")).unwrap()),
        })
    }
    pub fn coinid(&self, v: &J) -> Option<CoinID> {
        Some(CoinID { txhash: TxHash(self.hash(&v["txhash"])?), index: v["index"].as_u64().unwrap() as u8 })
    }
}

pub fn txkind_of(v: &J) -> TxKind {
    match v.as_u64().unwrap() {
        0x50 => TxKind::DoscMint,
        0xff => TxKind::Faucet,
        0x52 => TxKind::LiqDeposit,
        0x53 => TxKind::LiqWithdraw,
        0x00 => TxKind::Normal,
        0x10 => TxKind::Stake,
        0x51 => TxKind::Swap,
        x => panic!("bad txkind {x}"),
    }
}

fn data_bytes(v: &J, res: &Resolver) -> Option<Bytes> {
    if let Some(s) = v.as_str() {
        return Some(Bytes::from(hex::decode(s).unwrap()));
    }
    if let Some(sd) = v.get("stakedoc") {
        let doc = StakeDoc {
            pubkey: Ed25519PK(hash_of(&sd["pubkey"]).0),
            e_start: sd["e_start"].as_u64().unwrap(),
            e_post_end: sd["e_post_end"].as_u64().unwrap(),
            syms_staked: CoinValue(u128_of(&sd["syms_staked"])),
        };
        return Some(Bytes::from(stdcode::serialize(&doc).unwrap()));
    }
    if let Some(pk) = v.get("poolkey_long") {
        let l = res.denom(&pk["left"])?;
        let r = res.denom(&pk["right"])?;
        let mut b = vec![0u8; 32];
        b.extend_from_slice(&stdcode::serialize(&(l, r)).unwrap());
        return Some(Bytes::from(b));
    }
    if let Some(d) = v.get("denom_bytes") {
        return Some(res.denom(d)?.to_bytes());
    }
    Some(Bytes::new())
}

pub fn build_txs(req: &J) -> Result<(Vec<Transaction>, Resolver), String> {
    let specs = req["txs"].as_array().cloned().unwrap_or_default();
    let mut res = Resolver { txhashes: BTreeMap::new() };
    let mut built: Vec<Option<Transaction>> = vec![None; specs.len()];
    for _round in 0..=specs.len() {
        let mut progress = false;
        for (i, s) in specs.iter().enumerate() {
            if built[i].is_some() {
                continue;
            }
            let attempt = (|| {
                let mut inputs = vec![];
                for x in s["inputs"].as_array().unwrap() {
                    inputs.push(res.coinid(x)?);
                }
                let mut outputs = vec![];
                for x in s["outputs"].as_array().unwrap() {
                    outputs.push(res.coindata(x)?);
                }
                Some(Transaction {
                    kind: txkind_of(&s["kind"]),
                    inputs,
                    outputs,
                    fee: CoinValue(u128_of(&s["fee"])),
                    covenants: s["covenants"].as_array().unwrap().iter().map(|c| cov_bytes(c.as_str().unwrap())).collect(),
                    data: data_bytes(&s["data"], &res)?,
                    sigs: s["sigs"].as_array().map(|a| a.iter().map(|x| Bytes::from(hex::decode(x.as_str().unwrap_or("")).unwrap_or_default())).collect()).unwrap_or_default(),
                })
            })();
            if let Some(tx) = attempt {
                res.txhashes.insert(s["name"].as_str().unwrap().to_string(), tx.hash_nosigs().0);
                built[i] = Some(tx);
                progress = true;
            }
        }
        if !progress {
            break;
        }
    }
    if built.iter().any(|b| b.is_none()) {
        return Err("unrealizable: cyclic transaction-hash references".into());
    }
    Ok((built.into_iter().map(|b| b.unwrap()).collect(), res))
}

pub fn build_state(req: &J, res: &Resolver, db: &Database<InMemoryCas>) -> Result<UnsealedState<InMemoryCas>, String> {
    let network = netid_of(&req["network"]);
    let mut st: UnsealedState<InMemoryCas> = genesis(network, 0, 0).realize(db);
    // drop the genesis coin so the coin set is exactly what the scenario lists
    let tip906_genesis = vh::tip_flags(&st)[2];
    vh::coins_mut(&mut st).remove_coin(CoinID::zero_zero(), tip906_genesis);
    let height = req["height"].as_u64().unwrap();
    vh::fabricate(
        &mut st,
        network,
        height,
        u128_of(&req["fee_pool"]),
        u128_of(&req["tips"]),
        u128_of(&req["fee_multiplier"]),
        u128_of(&req["dosc_speed"]),
    );
    // history: a header for every height the scenario names (at least height-1)
    let mut hs: Vec<u64> = req["history_heights"].as_array().map(|a| a.iter().map(|x| x.as_u64().unwrap()).collect()).unwrap_or_default();
    if height > 0 {
        hs.push(height - 1);
    }
    for h in hs {
        let hdr = Header {
            network,
            previous: HashVal::default(),
            height: BlockHeight(h),
            history_hash: HashVal::default(),
            coins_hash: HashVal::default(),
            transactions_hash: HashVal::default(),
            fee_pool: CoinValue(0),
            fee_multiplier: 0,
            dosc_speed: u128_of(&req["dosc_speed"]),
            pools_hash: HashVal::default(),
            stakes_hash: HashVal::default(),
        };
        vh::history_mut(&mut st).insert(BlockHeight(h), hdr);
    }
    for c in req["coins"].as_array().cloned().unwrap_or_default() {
        let id = res.coinid(&c["id"]).ok_or("unresolvable coin id")?;
        let cd = res.coindata(&c).ok_or("unresolvable coin data")?;
        vh::insert_coin(&mut st, id, CoinDataHeight { coin_data: cd, height: BlockHeight(c["height"].as_u64().unwrap_or(0)) });
    }
    for s in req["stakes"].as_array().cloned().unwrap_or_default() {
        let doc = StakeDoc {
            pubkey: Ed25519PK(hash_of(&s["pubkey"]).0),
            e_start: s["e_start"].as_u64().unwrap(),
            e_post_end: s["e_post_end"].as_u64().unwrap(),
            syms_staked: CoinValue(u128_of(&s["syms_staked"])),
        };
        vh::stakes_mut(&mut st).add_stake(TxHash(res.hash(&s["txhash"]).ok_or("stake txhash")?), doc);
    }
    for p in req["pools"].as_array().cloned().unwrap_or_default() {
        let l = res.denom(&p["left"]).ok_or("pool denom")?;
        let r = res.denom(&p["right"]).ok_or("pool denom")?;
        let ps = PoolState { lefts: u128_of(&p["lefts"]), rights: u128_of(&p["rights"]), price_accum: 0, liqs: u128_of(&p["liqs"]) };
        vh::pools_mut(&mut st).insert(PoolKey::new(l, r), ps);
    }
    Ok(st)
}

pub fn err_name(e: &StateError) -> String {
    match e {
        StateError::MalformedTx => "MalformedTx".into(),
        StateError::NonexistentCoin(_) => "NonexistentCoin".into(),
        StateError::UnbalancedInOut => "UnbalancedInOut".into(),
        StateError::InsufficientFees(_) => "InsufficientFees".into(),
        StateError::NonexistentScript(_) => "NonexistentScript".into(),
        StateError::ViolatesScript(_) => "ViolatesScript".into(),
        StateError::InvalidMelPoW => "InvalidMelPoW".into(),
        StateError::WrongHeader(_, _) => "WrongHeader".into(),
        StateError::CoinLocked => "CoinLocked".into(),
        StateError::DuplicateTx => "DuplicateTx".into(),
    }
}

pub fn denom_json(d: &Denom) -> J {
    match d {
        Denom::Mel => json!("MEL"),
        Denom::Sym => json!("SYM"),
        Denom::Erg => json!("ERG"),
        Denom::NewCustom => json!("NEWCUSTOM"),
        Denom::Custom(_) if *d == melstructs::PoolKey::new(Denom::Mel, Denom::Sym).liq_token_denom() => json!("LIQ:MEL/SYM"),
        Denom::Custom(h) => json!({"custom": hex::encode(h.0 .0)}),
    }
}

pub fn cdh_json(c: &CoinDataHeight) -> J {
    json!({"covhash": hex::encode(c.coin_data.covhash.0 .0), "value": c.coin_data.value.0.to_string(),
           "denom": denom_json(&c.coin_data.denom), "adata": hex::encode(&c.coin_data.additional_data), "height": c.height.0})
}

/// every coin in the tree (id is not recoverable from the hashed key, so: value listing) + supply per denomination
pub fn dump_coins(st: &UnsealedState<InMemoryCas>) -> (Vec<J>, BTreeMap<String, u128>) {
    let mut all = vec![];
    let mut supply: BTreeMap<String, u128> = BTreeMap::new();
    for (_k, v) in vh::coins(st).inner().iter() {
        if v.len() > 8 {
            if let Ok(cdh) = stdcode::deserialize::<CoinDataHeight>(&v) {
                let e = supply.entry(denom_json(&cdh.coin_data.denom).to_string()).or_default();
                *e = e.saturating_add(cdh.coin_data.value.0);
                all.push(cdh_json(&cdh));
            }
        }
    }
    (all, supply)
}

pub fn observe(st: &UnsealedState<InMemoryCas>, probes: &[CoinID]) -> J {
    let (all, supply) = dump_coins(st);
    let (counts_ok, counts_detail) = crate::c20::recount(vh::coins(st));
    let mut pools = vec![];
    for (_k, v) in vh::pools(st).mapping.iter() {
        if let Ok(ps) = stdcode::deserialize::<PoolState>(&v) {
            pools.push(json!({"lefts": ps.lefts.to_string(), "rights": ps.rights.to_string(), "liqs": ps.liqs.to_string()}));
        }
    }
    let named = |l: Denom, r: Denom| match vh::pools(st).get(&PoolKey::new(l, r)) {
        Some(ps) => json!({"lefts": ps.lefts.to_string(), "rights": ps.rights.to_string(), "liqs": ps.liqs.to_string()}),
        None => J::Null,
    };
    let builtin = json!({"MEL/SYM": named(Denom::Mel, Denom::Sym), "MEL/ERG": named(Denom::Mel, Denom::Erg), "ERG/SYM": named(Denom::Erg, Denom::Sym)});
    json!({
        "builtin_pools": builtin,
        "probes": probes.iter().map(|id| match vh::coins(st).get_coin(*id) { Some(c) => cdh_json(&c), None => J::Null }).collect::<Vec<_>>(),
        "n_coins": all.len(),
        "coin_supply": supply.iter().map(|(k, v)| (k.clone(), J::String(v.to_string()))).collect::<serde_json::Map<String, J>>(),
        "fee_pool": vh::fee_pool(st).to_string(),
        "tips": vh::tips(st).to_string(),
        "fee_multiplier": vh::fee_multiplier(st).to_string(),
        "dosc_speed": vh::dosc_speed(st).to_string(),
        "height": vh::height(st),
        "counts_consistent": counts_ok,
        "counts_detail": counts_detail,
        "pools": pools,
        "tip906": vh::tip_flags(st)[2],
        "stakes": vh::stakes(st).iter().map(|(k, v)| json!({"txhash": hex::encode(k.0 .0), "e_start": v.e_start, "e_post_end": v.e_post_end,
                    "syms_staked": v.syms_staked.0.to_string(), "pubkey": hex::encode(v.pubkey.0)})).collect::<Vec<_>>(),
    })
}

pub fn batch(req: &J) -> J {
    let (txs, res) = match build_txs(req) {
        Ok(x) => x,
        Err(e) => return json!({"unrealizable": e}),
    };
    let db = Database::new(InMemoryCas::default());
    let st0 = match build_state(req, &res, &db) {
        Ok(s) => s,
        Err(e) => return json!({"unrealizable": e}),
    };
    let mut probes: Vec<CoinID> = vec![];
    for p in req["probes"].as_array().cloned().unwrap_or_default() {
        if let Some(id) = res.coinid(&p) {
            probes.push(id);
        }
    }
    let txhashes: serde_json::Map<String, J> = res.txhashes.iter().map(|(k, v)| (k.clone(), J::String(hex::encode(v.0)))).collect();
    let before = observe(&st0, &probes);
    let orders: Vec<Vec<usize>> = match req["orders"].as_array() {
        Some(a) => a.iter().map(|o| o.as_array().unwrap().iter().map(|i| i.as_u64().unwrap() as usize).collect()).collect(),
        None => vec![(0..txs.len()).collect()],
    };
    let mut runs = vec![];
    for order in orders {
        let mut st = st0.clone();
        let batch: Vec<Transaction> = order.iter().map(|i| txs[*i].clone()).collect();
        let r = catch_unwind(AssertUnwindSafe(|| st.apply_tx_batch(&batch)));
        let mut out = match r {
            Err(_) => json!({"panicked": true, "msg": crate::last_panic()}),
            Ok(Ok(())) => json!({"panicked": false, "result": "Ok"}),
            Ok(Err(e)) => json!({"panicked": false, "result": err_name(&e), "detail": format!("{e:?}")}),
        };
        out["after"] = observe(&st, &probes);
        out["order"] = json!(order);
        if let Some(phase) = req.get("melmint_only").and_then(|p| p.as_str()) {
            // one phase of preseal_melmint on the state the batch left behind (verification hook)
            let st2 = st.clone();
            let phase = phase.to_string();
            match catch_unwind(AssertUnwindSafe(move || melstf::verif::phase(&phase, st2))) {
                Err(_) => { out["melmint"] = json!({"panicked": true, "msg": crate::last_panic()}); }
                Ok(u) => {
                    let mut o = observe(&u, &probes);
                    o["panicked"] = json!(false);
                    out["melmint"] = o;
                }
            }
        }
        if req.get("preseal_only").is_some() {
            // the state after preseal_melmint alone (public): together with "seal" this isolates what apply_tip_909 and the
            // proposer action add
            let st2 = st.clone();
            match catch_unwind(AssertUnwindSafe(move || melstf::preseal_melmint(st2))) {
                Err(_) => { out["preseal"] = json!({"panicked": true, "msg": crate::last_panic()}); }
                Ok(u) => {
                    let mut o = observe(&u, &probes);
                    o["panicked"] = json!(false);
                    out["preseal"] = o;
                }
            }
        }
        if let Some(seal) = req.get("seal") {
            let action = if seal.is_null() { None } else {
                Some(ProposerAction { fee_multiplier_delta: seal["delta"].as_i64().unwrap_or(0) as i8,
                                      reward_dest: Address(hash_of(&seal["reward_dest"])) })
            };
            let st2 = st.clone();
            let r2 = catch_unwind(AssertUnwindSafe(|| {
                let sealed = st2.seal(action);
                let u = vh::unsealed_of(&sealed).clone();
                u
            }));
            match r2 {
                Err(_) => { out["seal"] = json!({"panicked": true, "msg": crate::last_panic()}); }
                Ok(u) => {
                    let mut o = observe(&u, &probes);
                    o["panicked"] = json!(false);
                    if req.get("probe_reward").is_some() {
                        let rid = CoinID::proposer_reward(BlockHeight(vh::height(&u)));
                        o["reward_coin"] = match vh::coins(&u).get_coin(rid) { Some(c) => cdh_json(&c), None => J::Null };
                        let st3 = st.clone();
                        if let Ok(u0) = catch_unwind(AssertUnwindSafe(|| vh::unsealed_of(&st3.seal(None)).clone())) {
                            o["fee_pool_before_action"] = json!(vh::fee_pool(&u0).to_string());
                        }
                    }
                    out["seal"] = o;
                }
            }
        }
        runs.push(out);
    }
    let mut top = json!({"txhashes": txhashes, "before": before, "runs": runs});
    if let Some(steps) = req.get("steps").and_then(|s| s.as_array()) {
        // batches applied one after the other to the same state (optionally sealing in between)
        let mut st = st0.clone();
        let mut outs = vec![];
        for step in steps {
            if step.as_str() == Some("seal_next") {
                let s2 = st.clone();
                match catch_unwind(AssertUnwindSafe(|| s2.seal(None).next_unsealed())) {
                    Ok(n) => { st = n; outs.push(json!({"sealed": true, "height": vh::height(&st)})); }
                    Err(_) => { outs.push(json!({"panicked": true, "msg": crate::last_panic()})); break; }
                }
                continue;
            }
            let idxs: Vec<usize> = step.as_array().unwrap().iter().map(|i| i.as_u64().unwrap() as usize).collect();
            let batch: Vec<Transaction> = idxs.iter().map(|i| txs[*i].clone()).collect();
            let r = catch_unwind(AssertUnwindSafe(|| st.apply_tx_batch(&batch)));
            let mut o = match r {
                Err(_) => json!({"panicked": true, "msg": crate::last_panic()}),
                Ok(Ok(())) => json!({"panicked": false, "result": "Ok"}),
                Ok(Err(e)) => json!({"panicked": false, "result": err_name(&e)}),
            };
            o["n_coins"] = json!(dump_coins(&st).0.len());
            outs.push(o);
        }
        top["steps"] = J::Array(outs);
    }
    if req.get("report_min_fee").is_some() {
        let mult = u128_of(&req["fee_multiplier"]);
        let mut m = serde_json::Map::new();
        for (spec, tx) in req["txs"].as_array().unwrap().iter().zip(txs.iter()) {
            let f = tx.base_fee(mult, 0, |c| melvm::covenant_weight_from_bytes(c));
            m.insert(spec["name"].as_str().unwrap().to_string(), J::String(f.0.to_string()));
        }
        top["min_fees"] = J::Object(m);
    }
    top
}


/// C05/C09 finding probe: the covenant-weight sum inside Transaction::weight with two covenants of saturated weight
pub fn c05_weight_sum(_req: &J) -> J {
    let mut ops = vec![];
    for k in 0..8u16 {
        ops.push(OpCode::Loop(65535, 8 - k));
    }
    ops.push(OpCode::Noop);
    let cov = Covenant::from_ops(&ops).to_bytes();
    let w = melvm::covenant_weight_from_bytes(&cov);
    let tx = Transaction {
        kind: TxKind::Normal,
        inputs: vec![],
        outputs: vec![],
        fee: CoinValue(0),
        covenants: vec![cov.clone(), cov],
        data: Bytes::new(),
        sigs: vec![],
    };
    let r = catch_unwind(AssertUnwindSafe(|| tx.base_fee(65536, 0, |c| melvm::covenant_weight_from_bytes(c))));
    match r {
        Ok(f) => json!({"panicked": false, "single_covenant_weight": w.to_string(), "base_fee": f.0.to_string()}),
        Err(_) => json!({"panicked": true, "single_covenant_weight": w.to_string(), "msg": crate::last_panic()}),
    }
}

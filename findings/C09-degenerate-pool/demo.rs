//! A user-created pool that was withdrawn completely stays in the pool tree with empty reserves; any later request
//! naming it must be rejected or ignored, not crash sealing.
use melstf::{GenesisConfig, SealedState, UnsealedState};
use melstructs::{CoinData, CoinID, CoinValue, Denom, NetID, PoolKey, Transaction, TxKind};
use melvm::Covenant;
use novasmt::{Database, InMemoryCas};

fn coin(denom: Denom, value: u128, tag: u8) -> CoinData {
    CoinData { covhash: Covenant::always_true().hash(), value: CoinValue(value), denom, additional_data: vec![tag].into() }
}
fn tx(kind: TxKind, inputs: Vec<CoinID>, outputs: Vec<CoinData>, data: Vec<u8>) -> Transaction {
    Transaction { kind, inputs, outputs, fee: CoinValue(0), covenants: vec![Covenant::always_true().to_bytes()], data: data.into(), sigs: vec![] }
}
fn genesis() -> UnsealedState<InMemoryCas> {
    let db = Database::new(InMemoryCas::default());
    GenesisConfig { network: NetID::Custom02, init_coindata: coin(Denom::Mel, 10_000_000, 0), stakes: Default::default(),
                    init_fee_pool: CoinValue(0), init_fee_multiplier: 0 }.realize(&db)
}
fn seal(st: UnsealedState<InMemoryCas>) -> Result<SealedState<InMemoryCas>, String> {
    std::panic::catch_unwind(std::panic::AssertUnwindSafe(|| st.seal(None))).map_err(|_| "seal panicked".to_string())
}

fn drained_pool() -> (SealedState<InMemoryCas>, PoolKey, Transaction) {
    let mut st = genesis();
    // block 0: mint token T next to some MEL coins
    let mint = tx(TxKind::Normal, vec![CoinID::zero_zero()],
                  vec![coin(Denom::Mel, 1000, 1), coin(Denom::NewCustom, 1000, 2), coin(Denom::Mel, 5000, 3), coin(Denom::Mel, 9_993_993, 4), coin(Denom::NewCustom, 500, 5), coin(Denom::Mel, 7, 6)], vec![]);
    st.apply_tx(&mint).unwrap();
    let t = Denom::Custom(mint.hash_nosigs());
    let key = PoolKey::new(Denom::Mel, t);
    let s0 = seal(st).unwrap();
    // block 1: deposit 1000 / 1000 into the new pool
    let mut st = s0.next_unsealed();
    let (l, r) = if key.left() == Denom::Mel { (mint.output_coinid(0), mint.output_coinid(1)) } else { (mint.output_coinid(1), mint.output_coinid(0)) };
    let dep = tx(TxKind::LiqDeposit, vec![l, r], vec![coin(key.left(), 1000, 1), coin(key.right(), 1000, 2)], key.to_bytes().to_vec());
    st.apply_tx(&dep).unwrap();
    let s1 = seal(st).unwrap();
    assert_eq!(s1.pool(key).unwrap().liqs, 1000);
    // block 2: withdraw everything
    let mut st = s1.next_unsealed();
    let mut wd = tx(TxKind::LiqWithdraw, vec![dep.output_coinid(0), mint.output_coinid(5)], vec![coin(key.liq_token_denom(), 1000, 1)], key.to_bytes().to_vec());
    wd.fee = CoinValue(7);
    st.apply_tx(&wd).unwrap();
    let s2 = seal(st).unwrap();
    let p = s2.pool(key).expect("the drained pool stays in the tree");
    assert_eq!((p.lefts, p.rights, p.liqs), (0, 0, 0));
    (s2, key, mint)
}

#[test]
fn swap_against_a_drained_pool_does_not_stop_sealing() {
    let (s2, key, mint) = drained_pool();
    let mut st = s2.next_unsealed();
    let swap = tx(TxKind::Swap, vec![mint.output_coinid(2)], vec![coin(Denom::Mel, 5000, 1)], key.to_bytes().to_vec());
    st.apply_tx(&swap).expect("the swap request itself is an ordinary valid transaction");
    seal(st).expect("sealing a block with a swap against a drained pool");
}

#[test]
fn one_sided_first_deposit_then_swap_does_not_stop_sealing() {
    let mut st = genesis();
    let mint = tx(TxKind::Normal, vec![CoinID::zero_zero()],
                  vec![coin(Denom::Mel, 1000, 1), coin(Denom::NewCustom, 1000, 2), coin(Denom::Mel, 5000, 3), coin(Denom::Mel, 9_993_993, 4), coin(Denom::NewCustom, 500, 5), coin(Denom::Mel, 7, 6)], vec![]);
    st.apply_tx(&mint).unwrap();
    let t = Denom::Custom(mint.hash_nosigs());
    let key = PoolKey::new(Denom::Mel, t);
    let s0 = seal(st).unwrap();
    let mut st = s0.next_unsealed();
    // a first deposit with nothing on the right-hand side
    let (l, r) = if key.left() == Denom::Mel { (mint.output_coinid(0), mint.output_coinid(1)) } else { (mint.output_coinid(1), mint.output_coinid(0)) };
    let dep = tx(TxKind::LiqDeposit, vec![l, r], vec![coin(key.left(), 1000, 1), coin(key.right(), 0, 2), coin(key.right(), 1000, 3)], key.to_bytes().to_vec());
    st.apply_tx(&dep).unwrap();
    let s1 = seal(st).unwrap();
    let p = s1.pool(key).unwrap();
    assert_eq!((p.lefts, p.rights), (1000, 0));
    let mut st = s1.next_unsealed();
    // pay into the side that is NOT empty: the right-hand reserve stays empty
    let swap = if key.left() == Denom::Mel {
        tx(TxKind::Swap, vec![mint.output_coinid(2)], vec![coin(Denom::Mel, 5000, 1)], key.to_bytes().to_vec())
    } else {
        tx(TxKind::Swap, vec![mint.output_coinid(4), mint.output_coinid(2)], vec![coin(key.left(), 500, 1), coin(Denom::Mel, 5000, 2)], key.to_bytes().to_vec())
    };
    st.apply_tx(&swap).unwrap();
    seal(st).expect("sealing a block with a swap against a pool whose right-hand reserve is empty");
}

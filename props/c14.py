"""C14 - a state is confirmed only by valid signatures from a > 2/3 stake majority."""
import re
import z3

from mirsym import shapes as S, models as M, melmodels as MM
from mirsym.collections import MapM
from mirsym.interp import State, Agg, Ptr, Panic, Ret, UNINIT, UNIT, bv, Opaque, EnumV, Inconclusive, simp, G
from mirsym import harness

STAKE_EPOCH = 200000


def bounds(tier):
    return [(2, 1), (3, 2)] if tier == 'quick' else [(2, 1), (3, 2), (4, 3), (3, 3)]


def run(chk):
    it = chk.load()
    S.check_layout(it.adts)
    chk.bounds = {'(stakes, signers)': [str(b) for b in bounds(chk.tier)], 'weights': 'full u128, total SYM <= 2^127',
                  'height': '<= 2 000 000 (state epoch 0..10)', 'stake epochs': 'full u64', 'signer keys': 'pairwise different (a BTreeMap)'}
    chk.assume_note('Ed25519 verification is an uninterpreted predicate of (key, message, signature): decided is that the '
                    'header hash, the right key and the right signature reach it and that its verdict is obeyed')
    chk.assume_note('SealedState::header is replaced by an arbitrary header (its wiring is C07)')
    chk.assume_note('P-SUPPLY: staked SYM sums to at most 2^127')
    chk.assume_note('composition: confirm() is checked with votes()/total_votes() replaced by the sums that the '
                    'vote-kernel obligations prove those functions return')
    for ns in sorted(set(b[0] for b in bounds(chk.tier))):
        chk.guard(vote_kernels, chk, it, ns)
    for ns, nk in bounds(chk.tier):
        chk.guard(one, chk, it, ns, nk)


def sym_stakes(ns, pc):
    stakes = MapM()
    sdocs = []
    tot = z3.BitVecVal(0, 136)
    for j in range(ns):
        txh = z3.BitVec('stake%d_txhash' % j, 256)
        pk, es, ee, syms = (z3.BitVec('stake%d_pubkey' % j, 256), z3.BitVec('stake%d_e_start' % j, 64),
                            z3.BitVec('stake%d_e_post_end' % j, 64), z3.BitVec('stake%d_syms' % j, 128))
        sdocs.append((pk, es, ee, syms))
        stakes = stakes.insert(S.txhash(txh), Agg('StakeDoc', [Agg('Ed25519PK', [pk]), es, ee, S.coinvalue(syms)]))
        tot = tot + z3.ZeroExt(8, syms)
        for j2 in range(j):
            pc.append(txh != z3.BitVec('stake%d_txhash' % j2, 256))
    pc.append(z3.ULE(tot, z3.BitVecVal(1 << 127, 136)))
    return stakes, sdocs


def active(es, ee, epoch):
    return z3.And(z3.ULE(es, epoch), z3.UGT(ee, epoch))


def vote_kernels(chk, it, ns):
    """StakeSet::votes / total_votes equal the sums the property defines (per key / over all keys)"""
    tag = '%dstakes' % ns
    G.reset()
    it.overrides = []
    it.join_rx = re.compile(r'.')
    st = State()
    stakes, sdocs = sym_stakes(ns, st.pc)
    epoch = z3.BitVec('epoch', 64)
    k = z3.BitVec('any_key', 256)
    inputs = {'epoch': epoch, 'any_key': k}
    for j, (pk, es, ee, syms) in enumerate(sdocs):
        inputs.update({'stake%d_pubkey' % j: pk, 'stake%d_e_start' % j: es, 'stake%d_e_post_end' % j: ee, 'stake%d_syms' % j: syms})
    cell = st.alloc(Agg('StakeSet', [Opaque('Map', stakes)]))
    W = 136
    specT = z3.BitVecVal(0, W)
    specV = z3.BitVecVal(0, W)
    for (pk, es, ee, syms) in sdocs:
        specT = specT + z3.If(active(es, ee, epoch), z3.ZeroExt(8, syms), z3.BitVecVal(0, W))
        specV = specV + z3.If(z3.And(active(es, ee, epoch), pk == k), z3.ZeroExt(8, syms), z3.BitVecVal(0, W))
    def rp(mo):
        ev = lambda t: harness.model_int(mo, t)
        req = {'kind': 'c14_votes', 'epoch': ev(epoch), 'key': '%064x' % ev(k), 'stakes': [
            {'pubkey': '%064x' % ev(pk), 'e_start': ev(es), 'e_post_end': ev(ee), 'syms': str(ev(syms))} for (pk, es, ee, syms) in sdocs]}
        out = harness.run_replay([req], 'dev')[0]
        if 'error' in out:
            raise Inconclusive('replay: ' + out['error'])
        e = req['epoch']
        wv = sum(int(x['syms']) for x in req['stakes'] if x['e_start'] <= e < x['e_post_end'] and x['pubkey'] == req['key'])
        wt = sum(int(x['syms']) for x in req['stakes'] if x['e_start'] <= e < x['e_post_end'])
        bad = out.get('panicked') or int(out['votes']) != wv or int(out['total_votes']) != wt
        out.update({'expected_votes': str(wv), 'expected_total': str(wt)})
        return bool(bad), req, out
    for fname, args, spec in (('total_votes', [Ptr(cell), epoch], specT), ('votes', [Ptr(cell), epoch, Agg('Ed25519PK', [k])], specV)):
        fn = [f for f in it.by_last[fname] if f.crate == 'tip911_stakeset'][0]
        outs = it.exec_fn(st.fork(), fn, list(args))
        n = 0
        for idx, (s, o) in enumerate(outs):
            name = '%s/%s/%d' % (fname, tag, idx)
            if isinstance(o, Panic):
                chk.obligation('PANIC/' + name, list(s.pc), z3.BoolVal(False), inputs, replay=rp, kind='PANIC', describe=str(o),
                               bound=tag + ', total SYM <= 2^127')
                continue
            n += 1
            chk.obligation('FUNC/' + name, list(s.pc), z3.ZeroExt(8, o.v) == spec, inputs, replay=rp,
                           bound=tag + ', all epochs / keys / weights')
        if n == 0:
            raise Inconclusive(fname + ' has no returning path')


def one(chk, it, ns, nk):
    """confirm(): signatures first, then the threshold over votes()/total_votes() (whose sums vote_kernels() checks)"""
    tag = '%dstakes-%dsigners' % (ns, nk)
    G.reset()
    st = State()
    pc = st.pc
    h = z3.BitVec('height', 64)
    pc.append(z3.ULE(h, 2_000_000))  # stated bound (epochs 0..10); stake epochs themselves are full u64
    hdr, hterms = S.sym_header('hdr', pc)
    stakes, sdocs = sym_stakes(ns, pc)
    signers = []
    proof = MapM(ordered=True)
    for i in range(nk):
        k = z3.BitVec('signer%d_key' % i, 256)
        sig = S.sym_bytes('signer%d_sig' % i, pc)
        signers.append((k, sig))
        proof = proof.insert(Agg('Ed25519PK', [k]), sig)
        for i2 in range(i):
            pc.append(k != signers[i2][0])
    # votes()/total_votes() results enter confirm() as arbitrary values v_i, T (vote_kernels() ties them to the stakes:
    # v_i = sum of the active stakes of signer i, T = sum of all active stakes; distinct signers => sum v_i <= T <= 2^127)
    epoch = z3.UDiv(h, bv(STAKE_EPOCH, 64))
    W = 140
    Tv = z3.BitVec('total_votes', 128)
    T = z3.ZeroExt(W - 128, Tv)
    votes_of = {}
    P = z3.BitVecVal(0, W)
    for i, (k, sig) in enumerate(signers):
        v = z3.ZeroExt(W - 128, z3.BitVec('votes_signer%d' % i, 128))
        votes_of[k.sexpr()] = v
        P = P + v
    pc.append(z3.ULE(P, T))
    pc.append(z3.ULE(T, z3.BitVecVal(1 << 127, W)))
    calls = []

    def ov_votes(i, s_, a, c):
        e, key = a[1], a[2]
        while isinstance(key, Ptr):
            key = i.load(s_, key)
        kt = key.fields[0]
        calls.append(('votes', e, kt))
        if kt.sexpr() not in votes_of:
            raise Inconclusive('votes() asked about a key that is not a signer: %s' % kt)
        # the value vote_kernels() proves votes() returns (it fits u128 because the stakes sum to <= 2^127)
        s_.events.append(('votes', e, kt))
        return z3.Extract(127, 0, votes_of[kt.sexpr()])

    def ov_total(i, s_, a, c):
        s_.events.append(('total_votes', a[1]))
        return z3.Extract(127, 0, T)
    it.overrides = [(re.compile(r'SealedState::<.*>::header$'), lambda i, s_, a, c: hdr),
                    (re.compile(r'StakeSet::votes$'), ov_votes), (re.compile(r'StakeSet::total_votes$'), ov_total)]
    it.join_rx = re.compile(r'.')
    inputs = {'height': h, 'total_votes': Tv}
    for i, (k, sig) in enumerate(signers):
        inputs['signer%d_key' % i] = k
        inputs['votes_signer%d' % i] = z3.BitVec('votes_signer%d' % i, 128)
    from props import batch as B
    base_state, _ = B.sym_state(pc)
    f = list(base_state.fields)
    f[0], f[1], f[10] = hdr.fields[0], S.blockheight(h), Agg('StakeSet', [Opaque('Map', stakes)])
    unsealed = Agg('UnsealedState', f)
    sealed = Agg('SealedState', [unsealed, EnumV('Option', 0, {'None': ()})])
    scell = st.alloc(sealed)
    fn = it.by_last['confirm'][0]
    outs = it.exec_fn(st, fn, [Ptr(scell), Opaque('Map', proof)])
    hh = M.hash_apply(st, 'single:Header', M.flatten(hdr))
    valid = [MM.SIG_VALID(k, hh, sig.data['id']) for (k, sig) in signers]
    all_valid = z3.And(valid) if valid else z3.BoolVal(True)
    covers = {}
    n_ret = 0
    for idx, (s, o) in enumerate(outs):
        name = '%s/%d' % (tag, idx)
        rp = lambda mo, s=s: replay(chk, mo, signers, h, valid, Tv)
        if isinstance(o, Panic):
            chk.obligation('PANIC/' + name, list(s.pc), z3.BoolVal(False), inputs, replay=rp, kind='PANIC', describe=str(o),
                           bound=tag)
            continue
        n_ret += 1
        confirmed = M.is_variant(o.v, 'Some')
        pcs = list(s.pc)
        chk.obligation('FUNC/confirmed-only-if-all-signatures-valid/' + name, pcs + [confirmed], all_valid, inputs, replay=rp,
                       bound=tag)
        chk.obligation('FUNC/supermajority-confirms/' + name, pcs + [all_valid, z3.UGT(3 * P, 2 * T)], confirmed, inputs,
                       replay=rp, bound=tag)
        chk.obligation('FUNC/minority-never-confirms/' + name, pcs + [z3.UGT(T, 0), z3.ULT(3 * P, 2 * T)], z3.Not(confirmed),
                       inputs, replay=rp, bound=tag)
        # wiring: votes()/total_votes() were asked about the state's own epoch
        evs = [e[2] if e[0] == 'when' else e for e in s.events]
        wiring = z3.And([e[1] == epoch for e in evs if e[0] in ('votes', 'total_votes')] or [z3.BoolVal(True)])
        chk.obligation('FUNC/votes-asked-for-the-states-epoch/' + name, pcs, wiring, inputs, replay=rp, bound=tag)
        covers.setdefault('confirmed with a strict supermajority', []).append((pcs, z3.And(confirmed, z3.UGT(T, 0))))
        covers.setdefault('rejected because a signature is invalid', []).append((pcs, z3.And(z3.Not(confirmed), z3.Not(all_valid), z3.UGT(3 * P, 2 * T))))
        covers.setdefault('rejected minority with valid signatures', []).append((pcs, z3.And(z3.Not(confirmed), all_valid, z3.UGT(T, 0))))
        chk.sample({'bound': tag, 'path': idx, 'events': [str(e[0] if e[0] != 'when' else e[2][0]) for e in s.events]})
    if n_ret == 0:
        raise Inconclusive('confirm has no returning path')
    for cname, alts in covers.items():
        chk.cover_any('%s/%s' % (cname, tag), alts)


def replay(chk, model, signers, h, valid, Tv):
    """stakes realising the model: one active stake per signer worth v_i, plus one stake of a non-signer worth T - P"""
    ev = lambda t, s=False: harness.model_int(model, t, s)
    height = ev(h)
    epoch = height // STAKE_EPOCH
    T = ev(Tv)
    req = {'kind': 'c14', 'height': height, 'stakes': [], 'signers': []}
    P = 0
    for i, ((k, sig), v) in enumerate(zip(signers, valid)):
        vi = ev(z3.BitVec('votes_signer%d' % i, 128))
        P += vi
        req['signers'].append({'key': i, 'valid': bool(ev(v))})
        if vi:
            req['stakes'].append({'key': i, 'e_start': epoch, 'e_post_end': epoch + 1, 'syms': str(vi)})
    if T - P > 0:
        req['stakes'].append({'key': 1000, 'e_start': 0, 'e_post_end': epoch + 2, 'syms': str(T - P)})
    allv = all(g['valid'] for g in req['signers'])
    out = harness.run_replay([req], 'dev')[0]
    if 'error' in out:
        raise Inconclusive('replay: ' + out['error'])
    got = out.get('confirmed')
    bad = bool(out.get('panicked'))
    if got and not allv:
        bad = True
    if allv and 3 * P > 2 * T and not got:
        bad = True
    if T > 0 and 3 * P < 2 * T and got:
        bad = True
    out.update({'P': str(P), 'T': str(T), 'all_valid': allv})
    return bad, req, out

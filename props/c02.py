"""C02 - exact UTXO transition: no double spend, no lost coin, rejection is a no-op."""
import z3

from mirsym import shapes as S, models as M
from mirsym.interp import State, Agg, Ptr, Panic, Ret, UNINIT, bv, Opaque, EnumV, Inconclusive, simp, val_eq, ite_val
from mirsym import harness
from props import batch as B

DESTROY = 0  # Address::coin_destroy() is the all-zero hash
GRANDFATHERED = int('30a60b20830f000f755b70c57c998553a303cc11f8b1f574d5e9f7e26b645d8b', 16)


def ref_output(st, it, tx, i, height):
    """(exists: Bool, CoinDataHeight) the property demands for output i of tx"""
    out = tx.fields[2].fields[i]
    cov = out.fields[0].fields[0].fields[0]
    den = out.fields[2]
    txh = B.tx_hash_term(it, st, tx)
    is_new = M.is_variant(den, 'NewCustom')
    den2 = ite_val(simp(is_new), S.denom('Custom', txh), den)
    cd = Agg('CoinData', [out.fields[0], out.fields[1], den2, out.fields[3]])
    return cov != bv(DESTROY, 256), Agg('CoinDataHeight', [cd, S.blockheight(height)]), txh


def input_terms(tx):
    res = []
    for cid in tx.fields[1].fields:
        res.append((cid.fields[0].fields[0].fields[0], cid.fields[1]))
    return res


def reference(it, st, run, tree0, q):
    """reference coin-set entry at the universally quantified coin id q=(txhash, index):
    (present Bool, value) = ((C0 minus all inputs) plus all non-destroyed outputs not consumed inside the batch)(q)"""
    qh, qi = q
    p0, v0 = B.coin_lookup(it, st, tree0, qh, qi)
    present, value = p0, v0
    h = run.sterms['height']
    for tx in run.txs:
        for i in range(len(tx.fields[2].fields)):
            ex, cdh, txh = ref_output(st, it, tx, i, h)
            hit = z3.And(qh == txh, qi == bv(i, 8))
            present = z3.If(hit, ex, present)
            value = ite_val(simp(hit), cdh, value) if value is not None else cdh
    # faucet transactions additionally leave their dedup marker (a zero-valued pseudo-coin at the destruction
    # address, keyed by hash_keyed("fdp", txhash)); the one grandfathered mainnet faucet leaves none
    for tx in run.txs:
        txh = B.tx_hash_term(it, st, tx)
        marker = M.hash_apply(st, 'keyed[fdp]:hashval', [txh])
        is_faucet = M.is_variant(tx.fields[0], 'Faucet')
        grandfathered = txh == bv(GRANDFATHERED, 256)
        hit = z3.And(is_faucet, z3.Not(grandfathered), qh == marker, qi == 0)
        mk = Agg('CoinDataHeight', [Agg('CoinData', [S.address(bv(0, 256)), S.coinvalue(bv(0, 128)), S.denom('Mel'),
                                                     Agg('Vec', [])]), S.blockheight(bv(0, 64))])
        present = z3.If(hit, z3.BoolVal(True), present)
        value = ite_val(simp(hit), mk, value)
    consumed = z3.Or([z3.And(qh == a, qi == b) for tx in run.txs for a, b in input_terms(tx)] or [z3.BoolVal(False)])
    present = z3.And(present, z3.Not(consumed))
    return present, value


def shapes_for(tier):
    if tier == 'quick':
        return [[(2, 2, 1)], [(1, 1, 1), (1, 1, 1)]]
    # wider whole-batch shapes ((2,2)+(2,2), three transactions) did not finish within two hours when tried; the input-loading
    # kernel covers those shapes (existence / duplicates), the whole-batch runs add one wider pair
    return [[(2, 2, 1)], [(1, 1, 1), (1, 1, 1)], [(2, 1, 1), (1, 2, 1)]]


def kernel_shapes_for(tier):
    # larger batches for the input-loading kernel alone (load_relevant_coins / extract_input_coins), which is where
    # existence and duplicate detection live; the whole-batch runs above use its result
    if tier == 'quick':
        return [[(1, 1, 1), (2, 1, 1)], [(1, 2, 1), (1, 1, 1), (1, 1, 1)]]
    return [[(1, 1, 1), (2, 1, 1)], [(1, 2, 1), (1, 1, 1), (1, 1, 1)], [(2, 2, 1), (2, 2, 1)], [(2, 1, 1), (1, 1, 1), (2, 1, 1)]]


def run(chk):
    it = chk.load()
    it = B.prepare(chk)
    B.abstract_base_fee(it)
    chk.assume_note('Transaction::base_fee is over-approximated by an arbitrary value in this check (the UTXO claims do '
                    'not depend on it; C05 checks the real fee arithmetic)')
    chk.bounds = {'batches': [str(s) for s in shapes_for(chk.tier)],
                  'input-loading kernel (load_relevant_coins alone)': [str(s) for s in kernel_shapes_for(chk.tier)],
                  'shape': '(inputs, outputs, covenants) per transaction; all field values symbolic',
                  'state': 'arbitrary coin/history trees satisfying I-HIST and I-COUNT, height in [1, 10^8]',
                  'kinds': 'all TxKinds except DoscMint (covered by C18)'}
    chk.assume_note('A-HASH, A-CODEC; covenant decode/execute are uninterpreted functions here (C04, C10-C12 cover them)')
    chk.assume_note('rayon combinators have the sequential semantics of the same combinator (DESIGN §3)')
    chk.assume_note('height >= 1 with history[height-1] present (I-HIST); the height-0 batch (which seals a clone to '
                    'obtain a header) is outside this check')
    for shape in shapes_for(chk.tier):
        chk.guard(one_shape, chk, it, shape)
    for shape in kernel_shapes_for(chk.tier):
        chk.guard(input_kernel, chk, it, shape)


def one_shape(chk, it, shape):
    tag = '+'.join('%d.%d' % (a, b) for a, b, c in shape)
    # the state may be in the middle of a block: one transaction applied by an earlier call at this height (arbitrary)
    run_ = B.run_batch(chk, it, shape, prior_txs=1)
    tree0 = run_.state0.fields[3].fields[0].data
    qh, qi = z3.BitVec('q_txhash', 256), z3.BitVec('q_index', 8)
    inputs = dict(run_.inputs)
    inputs.update({'q_txhash': qh, 'q_index': qi})
    n_ok = 0
    covers = {}
    for k, (s, o) in enumerate(run_.outs):
        name = '%s/%d' % (tag, k)
        if isinstance(o, Panic):
            chk.obligation('PANIC/' + name, s.pc + B.supply_bound(s), z3.BoolVal(False), inputs,
                           replay=lambda mo, r=run_, s=s: replay(chk, r, s, mo, panic=True),
                           kind='PANIC', describe='%s @ %s' % (o.msg, o.where), bound=tag)
            continue
        res = o.v
        is_ok = M.is_variant(res, 'Ok')
        post = s.heap[run_.scell]
        # N1: rejection is a no-op  (the state cell is only written on Ok)
        tree1 = post.fields[3].fields[0].data
        same = z3.And(B.M.tree_extensional_eq(it, s, tree0, tree1),
                      val_eq(Agg('t', [post.fields[i] for i in (0, 1, 5, 6, 7, 8)]),
                             Agg('t', [run_.state0.fields[i] for i in (0, 1, 5, 6, 7, 8)])))
        chk.obligation('FRAME/reject-is-noop/' + name, s.pc + [z3.Not(is_ok)], same, inputs,
                       replay=lambda mo, r=run_, s=s: replay(chk, r, s, mo), kind='FRAME', bound=tag)
        # U1: exact transition at every coin id q
        rp, rv = reference(it, s, run_, tree0, (qh, qi))
        p1, v1 = B.coin_lookup(it, s, tree1, qh, qi)
        claim = z3.And(p1 == rp, z3.Implies(rp, val_eq(v1, rv)))
        chk.obligation('FUNC/exact-utxo/' + name, s.pc + [is_ok], claim, inputs,
                       replay=lambda mo, r=run_, s=s: replay(chk, r, s, mo), bound=tag + ', any coin id q')
        # V1: every input was unspent before or is created (not destroyed) inside the batch
        conj = []
        allin = [(a, b) for tx in run_.txs for a, b in input_terms(tx)]
        for (a, b) in allin:
            p0, _ = B.coin_lookup(it, s, tree0, a, b)
            made = []
            for tx in run_.txs:
                for i in range(len(tx.fields[2].fields)):
                    ex, _, txh = ref_output(s, it, tx, i, run_.sterms['height'])
                    made.append(z3.And(ex, a == txh, b == bv(i, 8)))
            conj.append(z3.Or([p0] + made))
        # V2: no coin is consumed twice
        for i in range(len(allin)):
            for j in range(i + 1, len(allin)):
                conj.append(z3.Not(z3.And(allin[i][0] == allin[j][0], allin[i][1] == allin[j][1])))
        chk.obligation('FUNC/inputs-exist-and-distinct/' + name, s.pc + [is_ok], z3.And(conj), inputs,
                       replay=lambda mo, r=run_, s=s: replay(chk, r, s, mo), bound=tag)
        # vacuity guards are evaluated over all outcomes of this batch shape (below)
        covers.setdefault('accepted batch reachable', []).append((list(s.pc), is_ok))
        covers.setdefault('rejected batch reachable', []).append((list(s.pc), z3.Not(is_ok)))
        if len(run_.txs) >= 2:
            a0 = input_terms(run_.txs[1])[0]
            txh0 = B.tx_hash_term(it, s, run_.txs[0])
            covers.setdefault('tx b spends an output of tx a', []).append((list(s.pc), z3.And(is_ok, a0[0] == txh0, a0[1] == 0)))
            b0 = input_terms(run_.txs[0])[0]
            txh1 = B.tx_hash_term(it, s, run_.txs[1])
            covers.setdefault('tx a spends an output of the later tx b', []).append((list(s.pc), z3.And(b0[0] == txh1, b0[1] == 0)))
        out0cov = run_.tterms[0].get('out0_covhash')
        if out0cov is not None:
            covers.setdefault('output to the destruction address', []).append((list(s.pc), z3.And(is_ok, out0cov == 0)))
            covers.setdefault('new-token output', []).append((list(s.pc), z3.And(is_ok, run_.tterms[0]['out0_denom_tag'] == 3)))
        n_ok += 1
        chk.sample({'batch': tag, 'path': k, 'coin_tree_writes': len(tree1.entries)})
    if n_ok == 0:
        raise Inconclusive('no returning path for batch shape %s' % tag)
    for cname, alts in covers.items():
        chk.cover_any('%s/%s' % (cname, tag), alts)


def input_kernel(chk, it, shape):
    """load_relevant_coins on a larger batch: Ok => every input is an unspent coin of the state or a (non-destroyed) output
    created in the batch, no coin id occurs twice among all inputs, and the map handed on holds every input"""
    tag = 'inputs:' + '+'.join('%d.%d' % (a, b) for a, b, c in shape)
    run_ = B.run_batch(chk, it, shape, entry='load_relevant_coins')
    tree0 = run_.state0.fields[3].fields[0].data
    inputs = dict(run_.inputs)
    n_ok = 0
    covers = {}
    allin = [(a, b) for tx in run_.txs for a, b in input_terms(tx)]
    for k, (s, o) in enumerate(run_.outs):
        name = '%s/%d' % (tag, k)
        rp = lambda mo, r=run_, s=s: replay_graph(chk, r, s, mo)
        if isinstance(o, Panic):
            chk.obligation('PANIC/' + name, s.pc + B.supply_bound(s), z3.BoolVal(False), inputs, replay=rp,
                           kind='PANIC', describe='%s @ %s' % (o.msg, o.where), bound=tag)
            continue
        is_ok = M.is_variant(o.v, 'Ok')
        conj = []
        for (a, b) in allin:
            p0, _ = B.coin_lookup(it, s, tree0, a, b)
            made = []
            for tx in run_.txs:
                for i in range(len(tx.fields[2].fields)):
                    ex, _, txh = ref_output(s, it, tx, i, run_.sterms['height'])
                    made.append(z3.And(ex, a == txh, b == bv(i, 8)))
            conj.append(z3.Or([p0] + made))
        for i in range(len(allin)):
            for j in range(i + 1, len(allin)):
                conj.append(z3.Not(z3.And(allin[i][0] == allin[j][0], allin[i][1] == allin[j][1])))
        chk.obligation('FUNC/inputs-exist-and-distinct/' + name, s.pc + [is_ok], z3.And(conj), inputs, replay=rp, bound=tag)
        covers.setdefault('accepted', []).append((list(s.pc), is_ok))
        covers.setdefault('rejected', []).append((list(s.pc), z3.Not(is_ok)))
        if len(run_.txs) >= 2:
            txh0 = B.tx_hash_term(it, s, run_.txs[0])
            a0 = input_terms(run_.txs[1])[0]
            covers.setdefault('in-batch spend', []).append((list(s.pc), z3.And(is_ok, a0[0] == txh0, a0[1] == 0)))
        n_ok += 1
        chk.sample({'batch': tag, 'path': k})
    if n_ok == 0:
        raise Inconclusive('no returning path for %s' % tag)
    for cname, alts in covers.items():
        chk.cover_any('%s/%s' % (cname, tag), alts)


def replay_graph(chk, run_, st, model):
    """the counterexample's spending graph, rebuilt as balanced always-true MEL transfers, through the real apply_tx_batch"""
    from props import scenario
    b = scenario.Builder(chk.interp, st, run_, model)
    sc = scenario.repair_graph(b.build())
    observed, bad = {}, False
    for prof in ('dev',) if chk.tier == 'quick' else ('dev', 'release'):
        out = harness.run_replay([sc], prof)[0]
        if 'error' in out:
            raise Inconclusive('replay: %s' % out['error'])
        v, reason = scenario.c02_verdict(sc, out)
        observed[prof] = {'violated': v, 'reason': reason}
        bad = bad or v
    return bad, sc, observed


def replay(chk, run_, st, model, panic=False):
    from props import scenario
    r = scenario.replay_batch(chk, run_, st, model, scenario.panic_verdict if panic else scenario.c02_verdict)
    if r[0] or panic:
        return r
    # the model's state may be mid-block (a transaction applied by an earlier call at the same height): the same spending
    # relation natively, as two separate calls in one block -- a creates a coin, a later call spends it
    r2 = replay_two_calls(chk)
    return r2 if r2[0] else r


def replay_two_calls(chk):
    raw = lambda k: {'txhash': {'hex': ('%02x' % k) * 32}, 'index': 0}
    tc = {'covhash_of': 'true'}
    coins = [{'id': raw(0x21), 'covhash': tc, 'value': '1000', 'denom': 'MEL', 'adata': '', 'height': 0}]
    txs = [{'name': 'a', 'kind': 0, 'inputs': [raw(0x21)], 'fee': '0', 'covenants': ['true'], 'data': '',
            'outputs': [{'covhash': tc, 'value': '600', 'denom': 'MEL', 'adata': ''}, {'covhash': tc, 'value': '400', 'denom': 'MEL', 'adata': '01'}]},
           {'name': 'b', 'kind': 0, 'inputs': [{'txhash': {'txhash_of': 'a'}, 'index': 0}], 'fee': '0', 'covenants': ['true'], 'data': '',
            'outputs': [{'covhash': tc, 'value': '600', 'denom': 'MEL', 'adata': '02'}]},
           {'name': 'c', 'kind': 0, 'inputs': [{'txhash': {'txhash_of': 'a'}, 'index': 0}], 'fee': '0', 'covenants': ['true'], 'data': '',
            'outputs': [{'covhash': tc, 'value': '600', 'denom': 'MEL', 'adata': '03'}]}]
    sc = {'kind': 'batch', 'network': 2, 'height': 5, 'fee_pool': '0', 'tips': '0', 'fee_multiplier': '0', 'dosc_speed': '1000000',
          'coins': coins, 'txs': txs, 'probes': [], 'orders': [[0]], 'steps': [[0], [1], [2]]}
    out = harness.run_replay([sc], 'dev')[0]
    if 'error' in out or 'unrealizable' in out:
        raise Inconclusive('replay: %s' % str(out)[:300])
    st = out['steps']
    why = []
    if st[0].get('result') != 'Ok' or st[1].get('result') != 'Ok':
        raise Inconclusive('replay: the two-call scenario itself was rejected: %s' % st[:2])
    if st[1].get('n_coins') != st[0].get('n_coins'):
        why.append('coin count after the second call is %s, expected %s (one coin spent, one created)' % (st[1].get('n_coins'), st[0].get('n_coins')))
    if st[2].get('result') == 'Ok':
        why.append('a coin created by an earlier call of the block and spent by a later one was spent again')
    return bool(why), sc, {'why': why, 'steps': st}

"""C20 - per-covenant coin counts equal the number of unspent coins (TIP-906)."""
import re
import z3

from mirsym import shapes as S, models as M
from mirsym.interp import State, Agg, Ptr, Panic, Ret, UNINIT, UNIT, bv, Opaque, Inconclusive, simp
from mirsym import harness
from props import coincontract as CC

COIN_TYPES = {r'^single:CoinID$': 'CoinDataHeight', r'^keyed\[coin_count\]': 'u64'}


def count_key(st, a):
    return M.hash_apply(st, 'keyed[coin_count]:hashval', [a])


def coin_key(st, txh, idx):
    return M.hash_apply(st, 'single:CoinID', [txh, idx])


def count_of(it, st, tm, a):
    """(present, value-or-0) of the count entry for covhash a"""
    b = M.tree_get(it, st, tm, count_key(st, a))
    if isinstance(b, Agg):
        return z3.BoolVal(False), bv(0, 64)
    return b.data.present, z3.If(b.data.present, b.data.value, bv(0, 64))


def coin_at(it, st, tm, txh, idx):
    b = M.tree_get(it, st, tm, coin_key(st, txh, idx))
    if isinstance(b, Agg):
        return z3.BoolVal(False), None
    return b.data.present, b.data.value


def covhash_of(cdh):
    return cdh.fields[0].fields[0].fields[0].fields[0]


def install_invariant(it):
    """I-COUNT on the arbitrary initial tree, as far as one step needs it: a stored count is >= 1, and a covenant
    hash that locks an existing coin has a count entry (>= 1)."""
    def hook(itp, st, key, dom, v):
        reads = st.notes.get('base:coins', ())
        if dom.startswith('keyed[coin_count]'):
            st.assume_fact(z3.Implies(v.data.present, z3.UGE(v.data.value, 1)))
            a = key.arg(0)
            for k2, v2 in reads:
                if M.hash_domain_of(k2) == 'single:CoinID' and not k2.eq(key):
                    st.assume_fact(z3.Implies(z3.And(v2.data.present, covhash_of(v2.data.value) == a), v.data.present))
        elif dom == 'single:CoinID':
            for k2, v2 in reads:
                d2 = M.hash_domain_of(k2)
                if d2 and d2.startswith('keyed[coin_count]'):
                    st.assume_fact(z3.Implies(z3.And(v.data.present, covhash_of(v.data.value) == k2.arg(0)), v2.data.present))
    it.base_read_hooks['coins'] = hook
    it.base_pair_hooks.pop('coins', None)
    it.base_single_hooks.pop('coins', None)


def contract_eq(it, st, ta, tb, keys):
    return z3.And([M.bytes_eq(M.tree_get(it, st, ta, k), M.tree_get(it, st, tb, k)) for k in keys])


def delta_claim(it, st0_tree, st, tree_after, id_terms, a):
    """for the (universally quantified) covhash a: count'(a) - count(a) == change in the number of coins locked by a,
    where only the coin at id_terms changed; and a stored count is never 0"""
    txh, idx = id_terms
    p0, c0 = coin_at(it, st, st0_tree, txh, idx)
    p1, c1 = coin_at(it, st, tree_after, txh, idx)
    had = z3.And(p0, covhash_of(c0) == a) if c0 is not None else z3.BoolVal(False)
    has = z3.And(p1, covhash_of(c1) == a) if c1 is not None else z3.BoolVal(False)
    cp0, n0 = count_of(it, st, st0_tree, a)
    cp1, n1 = count_of(it, st, tree_after, a)
    W = 72
    d = z3.ZeroExt(8, n1) - z3.ZeroExt(8, n0)
    want = z3.If(has, z3.BitVecVal(1, W), z3.BitVecVal(0, W)) - z3.If(had, z3.BitVecVal(1, W), z3.BitVecVal(0, W))
    return z3.And(d == want, cp1 == z3.UGE(n1, 1))


def other_keys_untouched(st, events, allowed):
    """every tree write of the step went to one of the allowed key terms"""
    conj = []
    for ev in events:
        if ev[0] == 'tree_insert' and ev[1] == 'coins':
            conj.append(z3.Or([ev[2] == k for k in allowed]))
    return z3.And(conj) if conj else z3.BoolVal(True)


def run(chk):
    it = chk.load()
    S.check_layout(it.adts)
    install_invariant(it)
    chk.bounds = {'coin tree': 'arbitrary (lazily sampled) tree satisfying I-COUNT', 'coin id / data': 'fully symbolic',
                  'activation': '<= 3 pre-existing coins', 'counts': 'u64, < 2^63 (no overflow premise)'}
    chk.assume_note('A-HASH: blake3 hashes are injective and the ranges of differently keyed/typed hashes are disjoint')
    chk.assume_note('A-CODEC: stdcode deserialize(serialize(x)) = x and serialisations are non-empty')
    chk.assume_note('A-FRESH (call sites): insert_coin on an id that already exists keeps its covenant hash '
                    '(holds for Melswap rewrites, checked in C15; fresh ids for new outputs follow from hash injectivity)')
    chk.assume_note('counts < 2^63 so +1 cannot overflow (2^63 coins do not fit any state)')
    chk.guard(coin_kernels, chk, it)
    chk.guard(call_sites, chk, it)
    tv(chk)
    # A-FRESH at the Melswap call sites: insert_coin leaves the counts alone when the coin id already exists, which is right
    # only if the rewrite keeps the covenant hash.  The settlement functions rewrite output 0 of a request with its own covenant
    # hash (C15 settlement kernels) and create the second withdrawal payout at index 1 -- a fresh id exactly because the
    # withdrawal selector only passes single-output requests, and the deposit selector only passes requests whose two halves
    # are still unspent.  Those selector claims are therefore part of this property's argument and are decided here as well.
    from props import c15, batch as B
    it2 = B.prepare(chk)
    chk.guard(c15.selectors, chk, it2, only=('withdrawal', 'deposit'))


def coin_kernels(chk, it):
    """insert_coin / remove_coin from an arbitrary tree: count deltas, contract equality (which fixes exactly which leaves
    exist afterwards: the coin leaf, and the count leaf iff the count is non-zero), frames"""
    install_invariant(it)
    ins = it.by_last['insert_coin'][0]
    rem = it.by_last['remove_coin'][0]
    a = z3.BitVec('any_covhash', 256)

    def fresh_state():
        from mirsym.interp import G
        G.reset()
        st = State()
        t0 = M.TreeModel('coins', (), COIN_TYPES)
        cell = st.alloc(Agg('CoinMapping', [Opaque('Tree', t0)]))
        return st, t0, cell

    # ---- insert_coin
    for flag in (True, False):
        st, t0, cell = fresh_state()
        cid, txh, idx = S.sym_coinid('ins')
        cdh = S.sym_value('CoinDataHeight', 'newcoin', st)
        inputs = {'txhash': txh, 'index': idx, 'covhash': covhash_of(cdh), 'any_covhash': a}
        outs = it.exec_fn(st, ins, [Ptr(cell), cid, cdh, z3.BoolVal(flag)])
        for i, (s, o) in enumerate(outs):
            tag = 'insert_coin/tip906=%s/%d' % (flag, i)
            if isinstance(o, Panic):
                # +1 overflow only with count = u64::MAX: excluded by the stated premise
                p0, n0 = count_of(it, s, t0, covhash_of(cdh))
                chk.obligation('PANIC/' + tag, s.pc + [z3.ULT(n0, 1 << 63)], z3.BoolVal(False), inputs, replay=None,
                               kind='PANIC', describe=o.msg, bound='count < 2^63')
                continue
            t1 = s.heap[cell].fields[0].data
            p0, c0 = coin_at(it, s, t0, txh, idx)
            pre_ok = z3.Or(z3.Not(p0), covhash_of(c0) == covhash_of(cdh))
            if flag:
                claim = delta_claim(it, t0, s, t1, (txh, idx), a)  # NB: adds hash / base-read facts to s.pc first
                chk.obligation('STEP/' + tag + '/count-delta', s.pc + [pre_ok], claim,
                               inputs, replay=lambda mo, inputs=inputs, flag=flag: replay_ops(chk, mo, inputs, 'insert', flag), bound='arbitrary tree, any covhash a')
            else:
                # no count key is written while TIP-906 is off
                writes = [ev for ev in s.events if ev[0] == 'tree_insert']
                claim = z3.And([M.DOM(ev[2]) == M.DOM(coin_key(s, txh, idx)) for ev in writes])
                chk.obligation('FRAME/' + tag + '/no-count-write', s.pc, claim, inputs,
                               replay=None, kind='FRAME')
            # the method meets the contract the batch-level checks use as its summary
            t2 = CC.contract_insert(it, s, t0, cid, cdh, z3.BoolVal(flag))
            ceq = contract_eq(it, s, t1, t2, [coin_key(s, txh, idx), count_key(s, covhash_of(cdh))])
            chk.obligation('CONTRACT/' + tag, list(s.pc), ceq, inputs,
                           replay=lambda mo, inputs=inputs, flag=flag: replay_ops(chk, mo, inputs, 'insert', flag), kind='FUNC',
                           bound='arbitrary tree')
            p1, c1 = coin_at(it, s, t1, txh, idx)
            chk.obligation('FUNC/' + tag + '/stored', s.pc, z3.And(p1, M.val_eq(c1, cdh)), inputs,
                           replay=lambda mo, inputs=inputs, flag=flag: replay_ops(chk, mo, inputs, 'insert', flag))
            claim = other_keys_untouched(s, s.events, [coin_key(s, txh, idx), count_key(s, covhash_of(cdh))])
            chk.obligation('FRAME/' + tag + '/keys', s.pc, claim, inputs, replay=None, kind='FRAME')
            chk.sample({'op': tag, 'writes': [(e[2].sexpr()[:60]) for e in s.events if e[0] == 'tree_insert']})
    # ---- remove_coin
    for flag in (True, False):
        st, t0, cell = fresh_state()
        cid, txh, idx = S.sym_coinid('rem')
        inputs = {'txhash': txh, 'index': idx, 'any_covhash': a}
        outs = it.exec_fn(st, rem, [Ptr(cell), cid, z3.BoolVal(flag)])
        for i, (s, o) in enumerate(outs):
            tag = 'remove_coin/tip906=%s/%d' % (flag, i)
            if isinstance(o, Panic):
                chk.obligation('PANIC/' + tag, s.pc, z3.BoolVal(False), inputs, replay=lambda mo, inputs=inputs, flag=flag: replay_ops(chk, mo, inputs, 'remove', flag),
                               kind='PANIC', describe=o.msg, bound='arbitrary tree satisfying I-COUNT')
                continue
            t1 = s.heap[cell].fields[0].data
            if flag:
                claim = delta_claim(it, t0, s, t1, (txh, idx), a)
                chk.obligation('STEP/' + tag + '/count-delta', s.pc, claim, inputs,
                               replay=lambda mo, inputs=inputs, flag=flag: replay_ops(chk, mo, inputs, 'remove', flag), bound='arbitrary tree, any covhash a')
            t2 = CC.contract_remove(it, s, t0, cid, z3.BoolVal(flag))
            p0r, c0r = coin_at(it, s, t0, txh, idx)
            keys = [coin_key(s, txh, idx)] + ([count_key(s, covhash_of(c0r))] if c0r is not None else [])
            ceq = contract_eq(it, s, t1, t2, keys)
            chk.obligation('CONTRACT/' + tag, list(s.pc), ceq, inputs,
                           replay=lambda mo, inputs=inputs, flag=flag: replay_ops(chk, mo, inputs, 'remove', flag), kind='FUNC',
                           bound='arbitrary tree satisfying I-COUNT')
            written = [e[2] for e in s.events if e[0] == 'tree_insert']
            chk.obligation('FRAME/' + tag + '/keys', list(s.pc), z3.And([z3.Or([w == k for k in keys]) for w in written]),
                           inputs, replay=None, kind='FRAME')
            p1, c1 = coin_at(it, s, t1, txh, idx)
            chk.obligation('FUNC/' + tag + '/removed', s.pc, z3.Not(p1), inputs, replay=lambda mo, inputs=inputs, flag=flag: replay_ops(chk, mo, inputs, 'remove', flag))
            chk.sample({'op': tag, 'writes': [(e[2].sexpr()[:60]) for e in s.events if e[0] == 'tree_insert']})
    # vacuity: removal of an existing coin whose count is exactly 1 (entry must disappear)
    st, t0, cell = fresh_state()
    cid, txh, idx = S.sym_coinid('cov')
    p0, c0 = coin_at(it, st, t0, txh, idx)
    cp, n = count_of(it, st, t0, covhash_of(c0))
    chk.cover('existing coin with count 1 reachable', st.pc + [p0, n == 1])
    chk.cover('existing coin with count 7 reachable', st.pc + [p0, n == 7])


def call_sites(chk, it):
    """the places that create / delete coins outside create_next_state pass the state's own TIP-906 flag"""
    a = z3.BitVec('any_covhash', 256)
    # collect_proposer_action_fee
    fn = it.by_last['collect_proposer_action_fee'][0]
    it.merge_rx = re.compile(r'::tip_condition$')
    from mirsym.interp import G
    G.reset()
    st = State()
    net, netd = S.sym_netid('network', st.pc)
    h = z3.BitVec('height', 64)
    t0 = M.TreeModel('coins', (), COIN_TYPES)
    fp, tips = z3.BitVec('fee_pool', 128), z3.BitVec('tips', 128)
    st.pc += [z3.ULE(fp, 1 << 127), z3.ULE(tips, 1 << 127)]
    state = S.unsealed(network=net, height=S.blockheight(h), fee_pool=S.coinvalue(fp), tips=S.coinvalue(tips),
                       coins=Agg('CoinMapping', [Opaque('Tree', t0)]), fee_multiplier=z3.BitVec('mult', 128))
    cell = st.alloc(state)
    dest = z3.BitVec('reward_dest', 256)
    action = Agg('ProposerAction', [z3.BitVec('d', 8), S.address(dest)])
    inputs = {'network': netd, 'height': h, 'fee_pool': fp, 'tips': tips, 'reward_dest': dest, 'any_covhash': a}
    outs = it.exec_fn(st, fn, [Ptr(cell), action])
    tip906 = z3.If(netd == 0xff, z3.UGE(h, 830000), z3.If(netd == 1, z3.UGE(h, 500), z3.BoolVal(True)))
    n = 0
    for i, (s, o) in enumerate(outs):
        tag = 'collect_proposer_action_fee/%d' % i
        if isinstance(o, Panic):
            p0, n0 = count_of(it, s, t0, dest)
            chk.obligation('PANIC/' + tag, s.pc + [z3.ULT(n0, 1 << 63)], z3.BoolVal(False), inputs, replay=None, kind='PANIC',
                           describe=o.msg, bound='fee pool, tips <= 2^127 (P-SUPPLY)')
            continue
        n += 1
        t1 = s.heap[cell].fields[3].fields[0].data
        # the reward coin id is hash_keyed("reward_coin_pseudoid", height)
        ins = [e for e in s.events if e[0] == 'tree_insert']
        ck = ins[0][2]
        p0 = M.tree_get(it, s, t0, ck)
        fresh = z3.Not(p0.data.present)
        cp0, n0 = count_of(it, s, t0, a)
        cp1, n1 = count_of(it, s, t1, a)
        want = z3.If(z3.And(tip906, a == dest), n0 + 1, n0)
        chk.obligation('STEP/' + tag + '/count-delta', list(s.pc) + [fresh], n1 == want, inputs, replay=None,
                       bound='all networks/heights; reward coin id fresh (one seal per height)')
    if n == 0:
        raise Inconclusive('collect_proposer_action_fee has no returning path')


def _hx(v):
    return '%064x' % v


def scenario(model, inputs, op, flag):
    """concrete pre-state (built through the real API, hence consistent) + the operation of the counterexample.
    The pre-state holds the coin itself when the model says it pre-exists, plus up to 3 sibling coins locked by
    the same covenant hash, so counts of 1 and of several are both exercised."""
    txh = harness.model_int(model, inputs['txhash'])
    idx = harness.model_int(model, inputs['index'])
    cov = harness.model_int(model, inputs['covhash']) if 'covhash' in inputs else harness.model_int(model, inputs['any_covhash'])
    reqs = []
    for pre_exists in (True, False):
        for siblings in (0, 2):
            pre = []
            if pre_exists:
                pre.append({'op': 'insert', 'txhash': _hx(txh), 'index': idx, 'covhash': _hx(cov)})
            for k in range(siblings):
                pre.append({'op': 'insert', 'txhash': _hx((txh + 1 + k) % (1 << 256)), 'index': idx, 'covhash': _hx(cov)})
            reqs.append({'kind': 'c20_ops', 'pre': pre,
                         'op': {'op': op, 'txhash': _hx(txh), 'index': idx, 'covhash': _hx(cov), 'tip906': flag}})
    return reqs


def replay_ops(chk, model, inputs=None, op='insert', flag=True):
    reqs = scenario(model, inputs, op, flag)
    outs = harness.run_replay(reqs, 'dev')
    for r, o in zip(reqs, outs):
        if 'error' in o:
            raise Inconclusive('replay: %s' % o['error'])
        if o.get('pre_consistent') and not o.get('consistent'):
            return True, r, o
    return False, reqs, outs


def tv(chk):
    """native recount on random operation sequences: the counts kept by the real CoinMapping equal a recount of
    raw_coins_smt() (this validates the tree / codec model against the real novasmt + stdcode)"""
    reqs = [{'kind': 'c20_recount', 'seed': chk.seed + k, 'ops': 60} for k in range(6 if chk.tier == 'quick' else 40)]
    outs = harness.run_replay(reqs, 'dev')
    for r, o in zip(reqs, outs):
        if 'error' in o:
            raise Inconclusive('replay: %s' % o['error'])
        if not o.get('consistent'):
            raise Inconclusive('native recount disagrees on a random op sequence (seed %d): %s -- a violation the '
                               'step lemmas did not predict; encoding suspect' % (r['seed'], o))
        chk.tv += 1
        if len(chk.tv_samples) < 2:
            chk.tv_samples.append({'request': r, 'native': o})

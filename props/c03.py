"""C03 - batch and block application is order-independent and deterministic.

Decided on the kernels apply_tx_batch_impl is composed of (its body calls them once each, in sequence, on the whole
batch):  load_relevant_coins, load_stake_info  (set-valued results must not depend on the order),
check_tx_validity via try_for_each (a conjunction over the batch: order-free by construction, closure purity checked on
its MIR), the DOSC-speed fold/reduce (max: associative, commutative, idempotent) and create_next_state (state-building
pass: must commute).  Adjacent transpositions generate all permutations."""
import itertools
import re
import z3

from mirsym import shapes as S, models as M
from mirsym.collections import MapM
from mirsym.interp import State, Agg, Ptr, Panic, Ret, UNINIT, UNIT, bv, Opaque, EnumV, Inconclusive, simp, val_eq, G
from mirsym import harness
from props import batch as B, scenario


def shapes_for(tier):
    if tier == 'quick':
        return [[(1, 1, 1), (1, 1, 1)]]
    return [[(1, 1, 1), (1, 1, 1)], [(2, 1, 1), (1, 2, 1)]]


def run(chk):
    it = chk.load()
    it = B.prepare(chk)
    B.abstract_base_fee(it)
    chk.assume_note('Transaction::base_fee is an arbitrary function of (transaction, multiplier) here; C05 checks it')
    chk.bounds = {'batches': [str(s) for s in shapes_for(chk.tier)],
                  'kinds': 'faucet / non-faucet combinations on the 2 x (1,1) shape; ordinary kinds only on the wider thorough shape',
                  'orders': 'every permutation against the identity order',
                  'state': 'arbitrary state (lazily sampled trees), all TxKinds'}
    chk.assume_note('rayon combinators have the sequential semantics of the same combinator; thread schedules and '
                    'RandomState seeds themselves are outside this technique (DESIGN §5.3): decided instead are '
                    'order-insensitivity of the sequential semantics, purity of the parallel closures and '
                    'associativity/commutativity of the reducers')
    chk.assume_note('A-HASH (incl. acyclicity), A-CODEC; the transactions of a batch are pairwise different (a block holds a set)')
    chk.assume_note('a rejected batch may be rejected with a different StateError in a different order; the property '
                    'speaks about accept/reject and the resulting state only')
    for shape in shapes_for(chk.tier):
        # create_next_state only looks at the kind to tell faucets apart: the kinds are enumerated (faucet or not),
        # everything else stays symbolic
        combos = [('Normal',) * len(shape), ('Faucet',) + ('Normal',) * (len(shape) - 1)]
        if chk.tier != 'quick':
            combos.append(('Faucet',) * len(shape))
        if shape != shapes_for('quick')[0]:
            # the wider shape with ordinary kinds only (the faucet combinations of it did not finish within the budget when
            # tried: 600 s per obligation, > 80 min in total)
            combos = [('Normal',) * len(shape)]
        for kinds in combos:
            chk.guard(kernel_orders, chk, it, shape, kinds)
    chk.guard(reducers, chk, it)
    chk.guard(lock_symmetry, chk, it)
    chk.guard(closure_purity, chk, it)


def sym_relevant_coins(st, it, txs, tag):
    """what load_relevant_coins hands to create_next_state: an arbitrary map that may or may not hold each output id
    and holds every input id"""
    mm = MapM()
    for n, tx in enumerate(txs):
        txh = B.tx_hash_term(it, st, tx)
        for i in range(len(tx.fields[2].fields)):
            holder = M.State_for_symvalue()
            cdh = S.sym_value('CoinDataHeight', '%s_rc_%d_%d' % (tag, n, i), holder)
            st.pc.extend(holder.pc)
            g = z3.Bool('%s_rc_has_%d_%d' % (tag, n, i))
            mm = mm.insert(S.coinid(txh, bv(i, 8)), cdh, g)
    return Opaque('Map', mm)


def kernel_orders(chk, it, shape, kinds):
    tag = '+'.join('%d.%d%s' % (a, b, k[0]) for (a, b, c), k in zip(shape, kinds))
    n = len(shape)
    orders = list(itertools.permutations(range(n)))
    # ---- create_next_state commutes
    G.reset()
    G.atomic_domains = {'single:Transaction'}
    st = State()
    state, sterms = B.sym_state(st.pc)
    B.install_coin_invariants(it, B.cdh_covhash)
    txs, inputs = [], dict(('st_' + k, v) for k, v in sterms.items())
    for i, (ni, no, nc) in enumerate(shape):
        tx, tt = B.sym_tx('tx' + 'abcdef'[i], ni, no, nc, st.pc, kind=kinds[i])
        txs.append(tx)
        for k, v in tt.items():
            inputs['tx%s_%s' % ('abcdef'[i], k)] = v
    hs = [B.tx_hash_term(it, st, tx) for tx in txs]
    for i in range(len(txs)):
        for j in range(i + 1, len(txs)):
            G.declare_distinct(hs[i], hs[j])
    rc = sym_relevant_coins(st, it, txs, 'k')
    flag = z3.Bool('is_tip_906')
    fn = it.by_last['create_next_state'][0]
    results = []
    for order in orders:
        s2 = st.fork()
        bcell = s2.alloc(Agg('array', [txs[i] for i in order]))
        rcell = s2.alloc(rc)
        results.append(it.exec_fn(s2, fn, [state, Ptr(bcell), Ptr(rcell), flag]))
    base = results[0]
    covers = {}
    jobs = []
    for oi, order in enumerate(orders):
        for k, (s1, o1) in enumerate(results[oi]):
            if isinstance(o1, Panic):
                chk.obligation('PANIC/create_next_state/%s/order%s/%d' % (tag, ''.join(map(str, order)), k),
                               list(s1.pc), z3.BoolVal(False), inputs, replay=None, kind='PANIC', describe=str(o1), bound=tag)
    for oi, order in enumerate(orders[1:], 1):
        for ka, (sa, oa) in enumerate(base):
            if isinstance(oa, Panic):
                continue
            for kb, (sb, ob) in enumerate(results[oi]):
                if isinstance(ob, Panic):
                    continue
                name = 'create_next_state/%s/order%s/%d-%d' % (tag, ''.join(map(str, order)), ka, kb)
                sm = B.combine(it, sa, sb)
                oka, okb = M.is_variant(oa.v, 'Ok'), M.is_variant(ob.v, 'Ok')
                jobs.append(dict(name='COMM-1/accept/' + name, pc=list(sm.pc), claim=(oka == okb), inputs=inputs, kind='COMM', replay=lambda mo: replay_orders(chk),
                                 bound=tag + ', arbitrary state / relevant-coin map'))
                if 'Ok' in oa.v.payloads and 'Ok' in ob.v.payloads:
                    ua, ub = oa.v.payloads['Ok'][0], ob.v.payloads['Ok'][0]
                    for label, f in B.states_equal_parts(it, sm, ua, ub):
                        jobs.append(dict(name='COMM-1/%s/%s' % (label, name), pc=list(sm.pc) + [oka, okb], claim=f,
                                         inputs=inputs, kind='COMM', replay=lambda mo: replay_orders(chk),
                                         bound=tag + ', arbitrary state / relevant-coin map'))
                    covers.setdefault('both orders accepted', []).append((list(sm.pc), z3.And(oka, okb)))
                    a0 = txs[0].fields[1].fields[0]
                    txh1 = B.tx_hash_term(it, sm, txs[1])
                    covers.setdefault('first tx spends an output of a later tx', []).append(
                        (list(sm.pc), z3.And(oka, okb, a0.fields[0].fields[0].fields[0] == txh1, a0.fields[1] == 0,
                                             z3.Bool('k_rc_has_1_0'))))
                chk.sample({'kernel': 'create_next_state', 'batch': tag, 'order': order})
    chk.discharge_parallel(jobs)
    for cname, alts in covers.items():
        chk.cover_any('%s/create_next_state/%s' % (cname, tag), alts)
    # ---- load_relevant_coins / load_stake_info give the same set-valued result in every order
    if kinds[0] != 'Normal' or any(k != 'Normal' for k in kinds[1:]):
        return
    for kname in ('load_relevant_coins', 'load_stake_info'):
        G.reset()
        G.atomic_domains = {'single:Transaction'}
        st = State()
        state, sterms = B.sym_state(st.pc)
        B.install_history_invariant(it, sterms['height'])
        B.install_coin_invariants(it, B.cdh_covhash)
        txs = []
        for i, (ni, no, nc) in enumerate(shape):
            tx, tt = B.sym_tx('tx' + 'abcdef'[i], ni, no, nc, st.pc)
            txs.append(tx)
        hs = [B.tx_hash_term(it, st, tx) for tx in txs]
        for i in range(len(txs)):
            for j in range(i + 1, len(txs)):
                G.declare_distinct(hs[i], hs[j])
        scell = st.alloc(state)
        fn = it.by_last[kname][0]
        results = []
        for order in orders:
            s2 = st.fork()
            bcell = s2.alloc(Agg('array', [txs[i] for i in order]))
            results.append(it.exec_fn(s2, fn, [Ptr(scell), Ptr(bcell)]))
        for oi, order in enumerate(orders[1:], 1):
            for ka, (sa, oa) in enumerate(results[0]):
                for kb, (sb, ob) in enumerate(results[oi]):
                    name = '%s/%s/order%s/%d-%d' % (kname, tag, ''.join(map(str, order)), ka, kb)
                    sm = B.combine(it, sa, sb)
                    if isinstance(oa, Panic) or isinstance(ob, Panic):
                        chk.obligation('PANIC/' + name, list(sm.pc), z3.BoolVal(False), inputs, replay=None, kind='PANIC',
                                       describe=str(oa if isinstance(oa, Panic) else ob), bound=tag)
                        continue
                    oka, okb = M.is_variant(oa.v, 'Ok'), M.is_variant(ob.v, 'Ok')
                    chk.obligation('COMM-1/accept/' + name, list(sm.pc), oka == okb, inputs, replay=lambda mo: replay_orders(chk), kind='COMM', bound=tag)
                    if 'Ok' in oa.v.payloads and 'Ok' in ob.v.payloads:
                        ma, mb = oa.v.payloads['Ok'][0].data, ob.v.payloads['Ok'][0].data
                        chk.obligation('COMM-1/same-map/' + name, list(sm.pc) + [oka, okb], B.map_extensional_eq(ma, mb),
                                       inputs, replay=lambda mo: replay_orders(chk), kind='COMM', bound=tag)
                    chk.sample({'kernel': kname, 'batch': tag, 'order': order})


def lock_symmetry(chk, it):
    """SEQ-1: check_tx_validity gives the same verdict for a transaction whether a stake transaction it depends on was
    folded into the state by an earlier batch (this.stakes) or sits in the same batch (new_stakes): needed for "a batch
    equals applying its transactions one at a time in dependency order" """
    from props import c13
    G.reset()
    G.atomic_domains = {'single:Transaction'}
    st = State()
    sh = z3.BitVec('stake_txhash', 256)
    doc = c13.sym_stakedoc('stake')
    folded = MapM().insert(S.txhash(sh), doc)
    state_a, sterms = B.sym_state(st.pc, stakes=folded.entries)
    f = list(state_a.fields)
    f[10] = Agg(state_a.fields[10].ty, [Opaque('Map', MapM())]) if isinstance(state_a.fields[10], Agg) else state_a.fields[10]
    state_b = Agg('UnsealedState', f)
    B.install_history_invariant(it, sterms['height'])
    st.pc.append(z3.UGE(sterms['height'], 1))
    st.pc.append(z3.ULE(sterms['height'], 100_000_000))
    tx, tt = B.sym_tx('tx', 2, 1, 1, st.pc, exclude_kinds=('DoscMint',))
    rc = MapM()
    tot = z3.BitVecVal(0, 136)
    for i, cid in enumerate(tx.fields[1].fields):
        holder = M.State_for_symvalue()
        cdh = S.sym_value('CoinDataHeight', 'rc%d' % i, holder)
        rc = rc.insert(cid, cdh)
        st.pc.extend(holder.pc)
        tot = tot + z3.ZeroExt(8, cdh.fields[0].fields[1].fields[0])
    st.pc.append(z3.ULE(tot, z3.BitVecVal(1 << 127, 136)))
    st.pc.append(z3.ULE(tt['fee'], 1 << 120))
    st.pc.append(z3.ULE(tt['out0_value'], 1 << 120))
    c0, c1 = tx.fields[1].fields
    st.pc.append(z3.Not(val_eq(c0, c1)))
    fn = it.by_last['check_tx_validity'][0]
    sa, sb = st.fork(), st.fork()
    outs_a = it.exec_fn(sa, fn, [Ptr(sa.alloc(state_a)), Ptr(sa.alloc(tx)), Ptr(sa.alloc(Opaque('Map', rc))),
                                 Ptr(sa.alloc(Opaque('Map', MapM())))])
    outs_b = it.exec_fn(sb, fn, [Ptr(sb.alloc(state_b)), Ptr(sb.alloc(tx)), Ptr(sb.alloc(Opaque('Map', rc))),
                                 Ptr(sb.alloc(Opaque('Map', MapM().insert(S.txhash(sh), doc))))])
    inputs = {'network': sterms['network'], 'height': sterms['height'], 'stake_txhash': sh,
              'in0_txhash': c0.fields[0].fields[0].fields[0], 'in0_index': c0.fields[1],
              'in1_txhash': c1.fields[0].fields[0].fields[0], 'in1_index': c1.fields[1]}
    n = 0
    for ka, (s1, oa) in enumerate(outs_a):
        for kb, (s2, ob) in enumerate(outs_b):
            if isinstance(oa, Panic) or isinstance(ob, Panic):
                continue  # panic freedom of check_tx_validity is decided in C02 / C13
            sm = B.combine(it, s1, s2)
            n += 1
            oka, okb = M.is_variant(oa.v, 'Ok'), M.is_variant(ob.v, 'Ok')
            chk.obligation('SEQ-1/stake-folded-vs-same-batch/check_tx_validity/%d-%d' % (ka, kb), list(sm.pc) + B.supply_bound(sm),
                           oka == okb, inputs, replay=lambda mo: replay_lock_symmetry(chk, mo, inputs), kind='COMM',
                           bound='2 inputs, one stake transaction either registered earlier or in the same batch')
    if n == 0:
        raise Inconclusive('check_tx_validity has no returning path')


def replay_lock_symmetry(chk, model, inputs):
    """a stake transaction a (staked SYM + change) and a transaction b spending output k of a, as one batch and one at a time"""
    from props import c13
    ev = lambda t: harness.model_int(model, t)
    net, h = ev(inputs['network']), min(ev(inputs['height']), 3_000_000)
    if net not in (0xff, 1, 2, 3, 4, 5, 6, 7, 8):
        net = 2
    sh = ev(inputs['stake_txhash'])
    ks = [ev(inputs['in%d_index' % i]) for i in (0, 1) if ev(inputs['in%d_txhash' % i]) == sh]
    ks = sorted(set(min(k, 1) for k in ks)) or [0, 1]
    epoch = h // c13.STAKE_EPOCH
    d = {'pubkey': '00' * 32, 'e_start': epoch + 1, 'e_post_end': epoch + 3, 'syms_staked': '1000'}
    last = None
    for k in ks + [x for x in (0, 1) if x not in ks]:
        res = []
        for steps in ([[0, 1]], [[0], [1]]):
            sc = c13._stake_scenario(net, h, d, 1000, 'SYM', steps)
            b = sc['txs'][1]
            b['inputs'][0]['index'] = k
            if k == 1:
                b['outputs'] = [{'covhash': {'covhash_of': 'true'}, 'value': '12', 'denom': 'MEL', 'adata': '01'}]
            out = harness.run_replay([sc], 'dev')[0]
            if 'error' in out or 'unrealizable' in out:
                raise Inconclusive('replay: %s' % out)
            res.append([st_.get('result') for st_ in out['steps']])
        batch_ok = res[0][0] == 'Ok'
        seq_ok = all(r == 'Ok' for r in res[1])
        last = (sc, {'spent_output': k, 'one_batch': res[0], 'one_at_a_time': res[1]})
        if batch_ok != seq_ok:
            return True, last[0], last[1]
    return False, last[0], last[1]


def reducers(chk, it):
    """COMM-3: the try_fold / try_reduce closures of the DOSC-speed computation are max(): associative, commutative,
    idempotent -- so every rayon split gives the same result"""
    red = [f for f in it.by_last.get('{closure#5}', []) if f.name.startswith('apply_tx_batch_impl')]
    if not red:
        raise Inconclusive('reducer closure of apply_tx_batch_impl not found')
    red = red[0]
    a, b, c = z3.BitVec('ra', 128), z3.BitVec('rb', 128), z3.BitVec('rc', 128)

    def call(x, y):
        st = State()
        clo = Ptr(st.alloc(Agg(red.param_types[0].lstrip('&'), [])))
        outs = it.exec_fn(st, red, [clo, x, y])
        if len(outs) != 1 or not isinstance(outs[0][1], Ret):
            raise Inconclusive('reducer closure forked')
        r = outs[0][1].v
        if not (isinstance(r.disc, int) and r.disc == 0):
            raise Inconclusive('reducer closure can fail')
        return r.payloads['Ok'][0]
    chk.obligation('COMM-3/reduce-associative', [], call(call(a, b), c) == call(a, call(b, c)), {'a': a, 'b': b, 'c': c},
                   replay=None, kind='COMM', bound='all u128')
    chk.obligation('COMM-3/reduce-commutative', [], call(a, b) == call(b, a), {'a': a, 'b': b}, replay=None, kind='COMM',
                   bound='all u128')
    chk.obligation('COMM-3/reduce-idempotent', [], call(a, a) == a, {'a': a}, replay=None, kind='COMM', bound='all u128')


def closure_purity(chk, it):
    """the closures run by rayon only read their captures: their MIR takes the closure by shared reference and never
    assigns through a captured reference (syntactic check on the MIR of the tree under check)"""
    from mirsym import mirparse as mp
    names = [n for n in it.funcs if n.startswith(('apply_tx_batch_impl::{closure', 'extract_input_coins::{closure',
                                                  'output_coins_from_tx::{closure'))]
    if len(names) < 6:
        raise Inconclusive('expected the parallel closures of applytx.rs in the MIR, found %r' % names)
    bad = []
    for n in names:
        for fn in it.funcs[n]:
            if fn.is_const or not fn.param_types:
                continue
            mp.lower_function(fn)
            if not fn.param_types[0].startswith('&{closure') and fn.param_types[0].startswith('&mut'):
                bad.append(n + ': takes &mut self')
            for blk in fn.blocks.values():
                for s in blk.stmts:
                    if s.kind == 'assign' and s.place.local == 1:
                        bad.append('%s: writes through its captures: %s' % (n, s.text))
    x = z3.Bool('closure_purity')
    chk.obligation('STRUCT/parallel-closures-only-read-captures', [x == z3.BoolVal(not bad)], x, {}, replay=None,
                   kind='FRAME', bound='%d closures: %s' % (len(names), '; '.join(bad) or 'none writes'))


def _coin(n, value, denom='MEL'):
    return {'id': {'txhash': {'hex': ('%02x' % n) * 32}, 'index': 0}, 'covhash': {'covhash_of': 'true'}, 'value': str(value),
            'denom': denom, 'adata': '', 'height': 0}


def _tx(name, kind, ins, outs, fee=0, data=''):
    return {'name': name, 'kind': kind, 'inputs': ins, 'fee': str(fee), 'covenants': ['true'], 'data': data,
            'outputs': [{'covhash': {'covhash_of': 'true'}, 'value': str(v), 'denom': d, 'adata': a} for v, d, a in outs]}


def replay_orders(chk):
    """native scenarios in which order could matter: a dependent pair (b spends a's output), two transactions paying
    fees and tips, a stake next to a spend -- each applied in both orders from the same state"""
    base = {'kind': 'batch', 'network': 2, 'height': 1, 'fee_pool': '1000', 'tips': '5', 'fee_multiplier': '70000',
            'dosc_speed': '1000000', 'probes': [], 'orders': [[0, 1], [1, 0]]}
    raw = lambda n: {'txhash': {'hex': ('%02x' % n) * 32}, 'index': 0}
    scs = []
    scs.append(dict(base, coins=[_coin(0x11, 900000)], txs=[
        _tx('a', 0, [raw(0x11)], [(500000, 'MEL', '')], fee=400000),
        _tx('b', 0, [{'txhash': {'txhash_of': 'a'}, 'index': 0}], [(200000, 'MEL', '01')], fee=300000)]))
    scs.append(dict(base, coins=[_coin(0x11, 900000), _coin(0x12, 800000)], txs=[
        _tx('a', 0, [raw(0x11)], [(500000, 'MEL', '')], fee=400000),
        _tx('b', 0, [raw(0x12)], [(100000, 'MEL', '02')], fee=700000)]))
    scs.append(dict(base, coins=[_coin(0x11, 900000), _coin(0x13, 1000, 'SYM'), _coin(0x12, 800000)], txs=[
        _tx('a', 0x10, [raw(0x13), raw(0x11)], [(1000, 'SYM', ''), (400000, 'MEL', '')], fee=500000,
            data={'stakedoc': {'pubkey': '00' * 32, 'e_start': 1, 'e_post_end': 3, 'syms_staked': '1000'}}),
        _tx('b', 0, [raw(0x12)], [(100000, 'MEL', '02')], fee=700000)]))
    outs = harness.run_replay(scs, 'dev')
    from props import scenario as SC
    for sc, out in zip(scs, outs):
        if 'error' in out:
            raise Inconclusive('replay: ' + out['error'])
        r0, r1 = out['runs'][0], out['runs'][1]
        why = None
        if r0.get('panicked') or r1.get('panicked'):
            why = 'panic'
        elif (r0['result'] == 'Ok') != (r1['result'] == 'Ok'):
            why = 'order [a,b] -> %s, order [b,a] -> %s' % (r0['result'], r1['result'])
        elif r0['result'] == 'Ok':
            for f in ('n_coins', 'coin_supply', 'fee_pool', 'tips', 'dosc_speed', 'stakes', 'counts_detail'):
                if r0['after'][f] != r1['after'][f]:
                    why = 'both orders accepted but %s differs: %s vs %s' % (f, str(r0['after'][f])[:150], str(r1['after'][f])[:150])
                    break
        if why:
            return True, sc, {'why': why}
    return False, scs[0], {'all_scenarios_order_independent': True, 'results': [o['runs'][0]['result'] for o in outs]}

"""C12 - covenant bytecode encoding is a bijection."""
import re
import z3

from mirsym import shapes as S, models as M, vmmodels as VM
from mirsym.interp import (State, Agg, Ptr, Panic, Ret, UNINIT, UNIT, bv, Opaque, EnumV, Inconclusive, simp, G, val_eq,
                           disc_term, is_variant)
from mirsym import harness


def find(it, crate, last, contains=''):
    c = [f for f in it.by_last.get(last, []) if f.crate == crate and contains in f.name]
    if len(c) != 1:
        raise Inconclusive('expected one %s in %s, found %s' % (last, crate, [f.name[-60:] for f in c]))
    return c[0]


def run(chk):
    it = chk.load()
    nbuf = 40 if chk.tier == 'quick' else 260
    chk.bounds = {'decode->encode': 'one instruction decoded from an arbitrary buffer of <= %d bytes with arbitrary available '
                                    'length (every opcode byte, every operand; PushB operands up to %d bytes)' % (nbuf, nbuf - 2),
                  'encode->decode': 'every OpCode variant with symbolic operands; PushB lengths %s' %
                                    ('0,1,2,31,32,33,254,255 and 256 (not representable)' if chk.tier == 'quick' else 'all 0..256'),
                  'programs': 'whole-program bijection by induction on the instruction count (decode consumes >= 1 byte)'}
    chk.assume_note('<&[u8] as io::Read>::read_exact is a cursor over a symbolic byte array; Vec<u8>::write_all appends')
    chk.assume_note('ethnum::U256 byte conversions / leading_zeros are modelled on 256-bit bit-vectors')
    decode = find(it, 'melvm', 'decode', 'opcode.rs')
    encode = find(it, 'melvm', 'encode', 'opcode.rs')
    it.join_rx = None
    it.from_elem_limit = min(255, nbuf - 2)
    it.from_elem_longer_reads_fail = nbuf - 2 < 255
    chk.guard(decode_then_encode, chk, it, decode, encode, nbuf)
    chk.guard(encode_then_decode, chk, it, decode, encode)
    tv(chk)
    if chk.tier != 'quick':
        chk.guard(kani_crosscheck, chk)


def kani_crosscheck(chk):
    """second engine on the same sources: Kani 0.68 / CBMC (cadical) decides decode -> encode on EVERY byte string of at most 3
    bytes (harness /verif/kani, path dependency on /repo/lib/melvm; unwind 34 with unwinding assertions on; ~6 min, ~8 GB).  Only a
    SUCCESSFUL verdict with no failed check counts; a failure, a timeout or an out-of-memory run makes this kernel inconclusive
    (the mirsym obligations above carry the native replay)"""
    import os
    import shutil
    import subprocess
    import time
    kdir = os.path.join(harness.VERIF, 'kani')
    from mirsym import loader
    try:
        shutil.copy(os.path.join(loader.REPO, 'Cargo.lock'), os.path.join(kdir, 'Cargo.lock'))
    except OSError:
        pass
    if loader.REPO != '/repo':
        raise Inconclusive('the Kani harness crate depends on /repo by path; scratch evaluation skips it')
    env = dict(os.environ, CARGO_NET_OFFLINE='true')
    env.pop('RUSTFLAGS', None)
    t0 = time.time()
    cmd = 'ulimit -v 30000000; exec cargo kani --target-dir %s --harness decode_then_encode_all_strings_up_to_3_bytes' % \
        os.path.join(harness.BUILD, 'kani')
    try:
        r = subprocess.run(['bash', '-c', cmd], cwd=kdir, env=env, capture_output=True, text=True, timeout=3000)
    except subprocess.TimeoutExpired:
        raise Inconclusive('Kani did not finish within 50 minutes')
    dt = time.time() - t0
    out = r.stdout + r.stderr
    ok = 'VERIFICATION:- SUCCESSFUL' in out and '1 successfully verified harnesses, 0 failures' in out
    m = re.search(r'\*\* (\d+) of (\d+) failed', out)
    chk.extra['kani'] = {'harness': 'decode_then_encode_all_strings_up_to_3_bytes', 'verdict': 'SUCCESSFUL' if ok else 'not successful',
                         'checks': m.group(0) if m else None, 'wall_s': round(dt, 1), 'unwind': 34, 'solver': 'CBMC 6.11 / cadical',
                         'bound': 'all byte strings of length <= 3'}
    rec = {'id': 'KANI/decode-then-encode/all-byte-strings-up-to-3-bytes', 'kind': 'FUNC', 'bound': 'every byte string of <= 3 bytes; unwind 34, unwinding assertions on',
           'verdict': 'holds' if ok else 'unknown: kani did not verify', 'solver_s': round(dt, 1)}
    chk.obligations.append(rec)
    chk.solver_s += dt
    if not ok:
        tail = '\n'.join([l for l in out.split('\n') if 'FAILED' in l or 'Failed Checks' in l or 'error' in l.lower()][:8])
        raise Inconclusive('Kani cross-check not successful: %s' % tail[-600:])


def opcode_eq(a, b):
    return val_eq(a, b)


def decode_then_encode(chk, it, decode, encode, nbuf):
    G.reset()
    st = State()
    data = [z3.BitVec('b%d' % i, 8) for i in range(nbuf)]
    avail = z3.BitVec('avail', 64)
    st.pc.append(z3.ULE(avail, nbuf))
    cur = st.alloc(VM.cursor(data, avail))
    outs = it.exec_fn(st, decode, [Ptr(cur)])
    inputs = {'avail': avail}
    for i in range(min(nbuf, 36)):
        inputs['b%d' % i] = data[i]
    n_ok = n_err = 0
    seen_variants = set()
    for idx, (s, o) in enumerate(outs):
        name = 'decode/%d' % idx
        rp = lambda mo, s=s: replay_bytes(chk, mo, data, avail)
        if isinstance(o, Panic):
            chk.obligation('PANIC/' + name, list(s.pc), z3.BoolVal(False), inputs, replay=rp, kind='PANIC', describe=str(o),
                           bound='any buffer <= %d bytes' % nbuf)
            continue
        res = o.v
        if isinstance(res.disc, int) and res.disc == 1:
            n_err += 1
            continue
        if not isinstance(res.disc, int):
            raise Inconclusive('decode returned a symbolic Ok/Err on one path')
        n_ok += 1
        op = res.payloads['Ok'][0]
        consumed = s.heap[cur].data.pos
        seen_variants.add(op.disc if isinstance(op.disc, int) else -1)
        # re-encode
        s2 = s.fork()
        vec = s2.alloc(Agg('Vec', []))
        opc = s2.alloc(op)
        eouts = it.exec_fn(s2, encode, [Ptr(opc), Ptr(vec)])
        for j, (s3, eo) in enumerate(eouts):
            nm = '%s/%d' % (name, j)
            if isinstance(eo, Panic):
                chk.obligation('PANIC/encode-after-' + nm, list(s3.pc), z3.BoolVal(False), inputs, replay=rp, kind='PANIC',
                               describe=str(eo))
                continue
            enc_ok = is_variant(eo.v, 'Ok')
            outb = s3.heap[vec].fields
            same = z3.BoolVal(len(outb) == consumed)
            if len(outb) == consumed:
                same = z3.And([outb[k] == data[k] for k in range(consumed)]) if consumed else z3.BoolVal(True)
            chk.obligation('D1/decoded-instruction-re-encodes-to-the-consumed-bytes/' + nm, list(s3.pc), z3.And(enc_ok, same),
                           inputs, replay=rp, bound='buffer <= %d bytes' % nbuf)
        chk.obligation('D3/decode-consumes-at-least-one-byte/' + name, list(s.pc), z3.BoolVal(consumed >= 1), inputs, replay=rp)
        if len(chk.samples) < 6:
            chk.sample({'decoded_variant': str(op.disc), 'consumed_bytes': consumed})
    if n_ok < 49:
        raise Inconclusive('decode reached only %d Ok paths (49 opcodes expected)' % n_ok)
    chk.extra['decode_ok_paths'] = n_ok
    chk.extra['decode_err_paths'] = n_err
    if len([v for v in seen_variants if v >= 0]) < 49:
        raise Inconclusive('decode produced only %d distinct variants' % len(seen_variants))


def sym_opcodes(it, tier):
    """one symbolic value per variant (several PushB lengths)"""
    adt = it.adts.get('OpCode')
    out = []
    for (vname, disc, fields) in adt.variants:
        if vname == 'PushB':
            lens = [0, 1, 2, 31, 32, 33, 254, 255, 256] if tier == 'quick' else list(range(0, 257))
            for ln in lens:
                bs = Agg('Vec', [z3.BitVec('pb%d_%d' % (ln, k), 8) for k in range(ln)])
                out.append(('PushB[%d]' % ln, EnumV('OpCode', disc, {vname: (bs,)})))
            continue
        args = []
        for k, (fn_, ty) in enumerate(fields):
            bits = {'u8': 8, 'u16': 16, 'U256': 256}[ty.strip()]
            args.append(z3.BitVec('%s_arg%d' % (vname, k), bits))
        out.append((vname, EnumV('OpCode', disc, {vname: tuple(args)})))
    return out


def encode_then_decode(chk, it, decode, encode):
    ops = sym_opcodes(it, chk.tier)
    tail = [z3.BitVec('tail%d' % i, 8) for i in range(3)]
    for vname, op in ops:
        G.reset()
        st = State()
        vec = st.alloc(Agg('Vec', []))
        opc = st.alloc(op)
        inputs = {}
        for f in list(op.payloads.values())[0]:
            if isinstance(f, z3.ExprRef):
                inputs[str(f)] = f
        for s, eo in it.exec_fn(st, encode, [Ptr(opc), Ptr(vec)]):
            name = 'encode/%s' % vname
            rp = lambda mo, vname=vname, op=op: replay_op(chk, mo, vname, op)
            if isinstance(eo, Panic):
                chk.obligation('PANIC/' + name, list(s.pc), z3.BoolVal(False), inputs, replay=rp, kind='PANIC', describe=str(eo))
                continue
            enc = eo.v
            if vname == 'PushB[256]':
                chk.obligation('D2/over-long-PushB-is-not-representable/' + name, list(s.pc), is_variant(enc, 'Err'), inputs, replay=rp)
                continue
            if not (isinstance(enc.disc, int) and enc.disc == 0):
                chk.obligation('D2/representable-instruction-encodes/' + name, list(s.pc), is_variant(enc, 'Ok'), inputs, replay=rp)
                continue
            bs = list(s.heap[vec].fields)
            cur = s.alloc(VM.cursor(bs + tail, bv(len(bs) + 3, 64)))
            douts = it.exec_fn(s, decode, [Ptr(cur)])
            conj = []
            for s2, do in douts:
                if isinstance(do, Panic):
                    chk.obligation('PANIC/decode-after-' + name, list(s2.pc), z3.BoolVal(False), inputs, replay=rp, kind='PANIC',
                                   describe=str(do))
                    continue
                r = do.v
                okv = is_variant(r, 'Ok')
                if 'Ok' in r.payloads:
                    claim = z3.And(okv, opcode_eq(r.payloads['Ok'][0], op), z3.BoolVal(s2.heap[cur].data.pos == len(bs)))
                else:
                    claim = z3.BoolVal(False)
                chk.obligation('D2/encoded-instruction-decodes-back/%s/%d' % (name, len(chk.obligations)), list(s2.pc), claim,
                               inputs, replay=rp, bound='all operand values; 3 arbitrary trailing bytes')
    chk.extra['encoded_variants'] = len(ops)


def tv(chk):
    """translation validation: random byte strings through the real decoder/encoder and through nothing else -- the
    native side also re-checks the round trip itself, which validates the cursor / Vec<u8> / U256 models' contract"""
    reqs = [{'kind': 'c12_roundtrip', 'seed': chk.seed + k, 'n': 400} for k in range(3 if chk.tier == 'quick' else 20)]
    outs = harness.run_replay(reqs, 'dev')
    for r, o in zip(reqs, outs):
        if 'error' in o:
            raise Inconclusive('replay: ' + o['error'])
        if not o.get('ok'):
            raise Inconclusive('native round trip fails on random input although every obligation holds: %s' % o)
        chk.tv += o.get('cases', 0)
        if len(chk.tv_samples) < 2:
            chk.tv_samples.append({'request': r, 'native': {k: o[k] for k in o if k != 'detail'}})


def replay_bytes(chk, model, data, avail):
    n = harness.model_int(model, avail)
    bs = bytes(harness.model_int(model, d) for d in data[:n])
    req = {'kind': 'c12_bytes', 'hex': bs.hex()}
    out = harness.run_replay([req], 'dev')[0]
    if 'error' in out:
        raise Inconclusive('replay: ' + out['error'])
    return (not out.get('ok')), req, out


def replay_op(chk, model, vname, op):
    base = vname.split('[')[0]
    args = []
    for f in op.payloads[base]:
        if isinstance(f, Agg):
            args.append(bytes(harness.model_int(model, x) for x in f.fields).hex())
        else:
            args.append(str(harness.model_int(model, f)))
    req = {'kind': 'c12_op', 'variant': base, 'args': args}
    out = harness.run_replay([req], 'dev')[0]
    if 'error' in out:
        raise Inconclusive('replay: ' + out['error'])
    return (not out.get('ok')), req, out

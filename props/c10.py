"""C10 - MelVM executes exactly the specified semantics, deterministically.

One single-step lemma per opcode: Executor::step (real MIR, with its 34 closures, do_*op, update_pc_state and the Value
helpers) is run from a symbolic machine state and compared with the reference below, which is written from the MelVM
specification (DESIGN Appendix B).  Values have symbolic variants; sequence payloads have harness-enumerated lengths."""
import re
import itertools
import z3

from mirsym import shapes as S, models as M, melmodels as MM, vmmodels as VM
from mirsym.collections import MapM, map_lookup
from mirsym.interp import (State, Agg, Ptr, Panic, Ret, UNINIT, UNIT, bv, Opaque, EnumV, Inconclusive, simp, G, val_eq,
                           ite_val, is_variant, mk_some, mk_none)
from mirsym import harness

INT, BYTES, VECTOR = 0, 1, 2
B256 = lambda v: bv(v, 256)


def find(it, last, contains):
    c = [f for f in it.by_last.get(last, []) if f.crate == 'melvm' and contains in f.name]
    if len(c) != 1:
        raise Inconclusive('expected one %s(%s) in melvm, found %d' % (last, contains, len(c)))
    return c[0]


# ---- symbolic machine values ------------------------------------------------------------------------------------

def vint(t):
    return EnumV('Value', INT, {'Int': (t,)})


def vbytes(bs):
    return EnumV('Value', BYTES, {'Bytes': (Agg('CatVec', bs),)})


def vvec(vs):
    return EnumV('Value', VECTOR, {'Vector': (Agg('CatVec', vs),)})


def sym_value(name, blen, vlen, pc):
    """Value of symbolic variant; Bytes payload of blen symbolic bytes, Vector payload of vlen symbolic Int elements"""
    d = z3.BitVec(name + '_tag', 8)
    pc.append(z3.ULE(d, 2))
    i = z3.BitVec(name + '_int', 256)
    bs = [z3.BitVec('%s_b%d' % (name, k), 8) for k in range(blen)]
    vs = [vint(z3.BitVec('%s_v%d' % (name, k), 256)) for k in range(vlen)]
    return EnumV('Value', d, {'Int': (i,), 'Bytes': (Agg('CatVec', bs),), 'Vector': (Agg('CatVec', vs),)})


def tag(v):
    return v.disc if not isinstance(v.disc, int) else bv(v.disc, 8)


def is_int(v):
    return tag(v) == INT


def is_bytes(v):
    return tag(v) == BYTES


def is_vec(v):
    return tag(v) == VECTOR


def ival(v):
    return v.payloads['Int'][0]


def bval(v):
    return list(v.payloads['Bytes'][0].fields)


def vval(v):
    return list(v.payloads['Vector'][0].fields)


def u16ok(t):
    return z3.ULE(t, B256(65535))


# ---- reference semantics (DESIGN Appendix B).  Each entry: f(imm, args(first popped first)) -> (fail, [pushed values]) ----

def ref_binop_int(f):
    def g(imm, a):
        x, y = a
        return z3.Not(z3.And(is_int(x), is_int(y))), [vint(f(ival(x), ival(y)))]
    return g


def ref_cmp(f):
    def g(imm, a):
        x, y = a
        return z3.Not(z3.And(is_int(x), is_int(y))), [vint(z3.If(f(ival(x), ival(y)), B256(1), B256(0)))]
    return g


def ref_div(imm, a):
    x, y = a
    return z3.Or(z3.Not(z3.And(is_int(x), is_int(y))), ival(y) == 0), [vint(z3.UDiv(ival(x), ival(y)))]


def ref_rem(imm, a):
    x, y = a
    return z3.Or(z3.Not(z3.And(is_int(x), is_int(y))), ival(y) == 0), [vint(z3.URem(ival(x), ival(y)))]


def ref_exp(imm, a):
    b, e = a
    k = imm[0]  # concrete in the harness
    fail = z3.Or(z3.Not(z3.And(is_int(b), is_int(e))), z3.UGE(ival(e), B256(1 << (k + 1))))
    # b^e mod 2^256 by the binary expansion of e over k+1 bits
    res = B256(1)
    base = ival(b)
    for bit in range(k + 1):
        res = z3.If(z3.Extract(bit, bit, ival(e)) == 1, res * base, res)
        base = base * base
    return fail, [vint(res)]


def ref_shift(left):
    def g(imm, a):
        x, o = a
        amt = ival(o) & B256(255)
        return z3.Not(z3.And(is_int(x), is_int(o))), [vint((ival(x) << amt) if left else z3.LShR(ival(x), amt))]
    return g


def ref_not(imm, a):
    return z3.Not(is_int(a[0])), [vint(~ival(a[0]))]


def ref_typeq(imm, a):
    t = tag(a[0])
    return z3.BoolVal(False), [vint(z3.ZeroExt(248, t))]


def ref_dup(imm, a):
    return z3.BoolVal(False), [a[0], a[0]]


def ref_itob(imm, a):
    x = ival(a[0])
    return z3.Not(is_int(a[0])), [vbytes([z3.Extract(255 - 8 * i, 248 - 8 * i, x) for i in range(32)])]


def ref_btoi(imm, a):
    bs = bval(a[0])
    if len(bs) != 32:
        return z3.BoolVal(True), [vint(B256(0))]
    return z3.Not(is_bytes(a[0])), [vint(z3.Concat(*bs))]


def ref_hash(imm, a):
    bs = bval(a[0])
    n = imm[0]
    return z3.Or(z3.Not(is_bytes(a[0])), z3.UGT(bv(len(bs), 16), n)), None  # value: blake3 of the bytes (uninterpreted)


def ref_vlength(imm, a):
    return z3.Not(is_vec(a[0])), [vint(B256(len(vval(a[0]))))]


def ref_blength(imm, a):
    return z3.Not(is_bytes(a[0])), [vint(B256(len(bval(a[0]))))]


def pick(seq, idx, default):
    acc = default
    for k in range(len(seq) - 1, -1, -1):
        acc = ite_val(simp(idx == B256(k)), seq[k], acc)
    return acc


def ref_vref(imm, a):
    v, i = a
    els = vval(v)
    fail = z3.Or(z3.Not(is_vec(v)), z3.Not(is_int(i)), z3.Not(u16ok(ival(i))), z3.UGE(ival(i), B256(len(els))))
    return fail, [pick(els, ival(i), vint(B256(0)))] if els else [vint(B256(0))]


def ref_bref(imm, a):
    v, i = a
    els = bval(v)
    fail = z3.Or(z3.Not(is_bytes(v)), z3.Not(is_int(i)), z3.Not(u16ok(ival(i))), z3.UGE(ival(i), B256(len(els))))
    byte = bv(0, 8)
    for k in range(len(els) - 1, -1, -1):
        byte = z3.If(ival(i) == B256(k), els[k], byte)
    return fail, [vint(z3.ZeroExt(248, byte))]


def ref_vset(imm, a):
    v, i, x = a
    els = vval(v)
    fail = z3.Or(z3.Not(is_vec(v)), z3.Not(is_int(i)), z3.Not(u16ok(ival(i))), z3.UGE(ival(i), B256(len(els))))
    return fail, [vvec([ite_val(simp(ival(i) == B256(k)), x, els[k]) for k in range(len(els))])]


def ref_bset(imm, a):
    v, i, x = a
    els = bval(v)
    fail = z3.Or(z3.Not(is_bytes(v)), z3.Not(is_int(i)), z3.Not(u16ok(ival(i))), z3.UGE(ival(i), B256(len(els))), z3.Not(is_int(x)))
    lo = z3.Extract(7, 0, ival(x))
    return fail, [vbytes([z3.If(ival(i) == B256(k), lo, els[k]) for k in range(len(els))])]


def ref_vappend(imm, a):
    return z3.Not(z3.And(is_vec(a[0]), is_vec(a[1]))), [vvec(vval(a[0]) + vval(a[1]))]


def ref_bappend(imm, a):
    return z3.Not(z3.And(is_bytes(a[0]), is_bytes(a[1]))), [vbytes(bval(a[0]) + bval(a[1]))]


def ref_vpush(imm, a):
    return z3.Not(is_vec(a[0])), [vvec(vval(a[0]) + [a[1]])]


def ref_vcons(imm, a):
    return z3.Not(is_vec(a[1])), [vvec([a[0]] + vval(a[1]))]


def ref_bpush(imm, a):
    return z3.Not(z3.And(is_bytes(a[0]), is_int(a[1]))), [vbytes(bval(a[0]) + [z3.Extract(7, 0, ival(a[1]))])]


def ref_bcons(imm, a):
    return z3.Not(z3.And(is_int(a[0]), is_bytes(a[1]))), [vbytes([z3.Extract(7, 0, ival(a[0]))] + bval(a[1]))]


REF = {
    'Add': (2, ref_binop_int(lambda x, y: x + y)), 'Sub': (2, ref_binop_int(lambda x, y: x - y)),
    'Mul': (2, ref_binop_int(lambda x, y: x * y)), 'Div': (2, ref_div), 'Rem': (2, ref_rem), 'Exp': (2, ref_exp),
    'And': (2, ref_binop_int(lambda x, y: x & y)), 'Or': (2, ref_binop_int(lambda x, y: x | y)),
    'Xor': (2, ref_binop_int(lambda x, y: x ^ y)), 'Not': (1, ref_not),
    'Eql': (2, ref_cmp(lambda x, y: x == y)), 'Lt': (2, ref_cmp(lambda x, y: z3.ULT(x, y))),
    'Gt': (2, ref_cmp(lambda x, y: z3.UGT(x, y))), 'Shl': (2, ref_shift(True)), 'Shr': (2, ref_shift(False)),
    'TypeQ': (1, ref_typeq), 'Dup': (1, ref_dup), 'ItoB': (1, ref_itob), 'BtoI': (1, ref_btoi),
    'VLength': (1, ref_vlength), 'BLength': (1, ref_blength), 'VRef': (2, ref_vref), 'BRef': (2, ref_bref),
    'VSet': (3, ref_vset), 'BSet': (3, ref_bset), 'VAppend': (2, ref_vappend), 'BAppend': (2, ref_bappend),
    'VPush': (2, ref_vpush), 'VCons': (2, ref_vcons), 'BPush': (2, ref_bpush), 'BCons': (2, ref_bcons),
}


def slice_ref(is_kind, getter, maker):
    """(vec, begin, end): non-sequence -> fail; end > len or end < begin -> empty; else vec[begin..end]"""
    def g(imm, a, k1, k2):
        v, b, e = a
        els = getter(v)
        fail = z3.Or(z3.Not(is_kind(v)), z3.Not(is_int(b)), z3.Not(is_int(e)), z3.Not(u16ok(ival(b))), z3.Not(u16ok(ival(e))))
        return fail, els
    return g


# ---- harness ----------------------------------------------------------------------------------------------------

def machine(st, stack, heap, instrs, pc, frames):
    fr = Agg('Vec', [Agg('LoopState', [b, e, r]) for (b, e, r) in frames])
    return Agg('Executor', [Agg('Vec', stack), Opaque('Map', heap), Agg('Vec', instrs), pc, fr])


def opcode_value(it, name, imm):
    adt = it.adts.get('OpCode')
    return EnumV('OpCode', adt.variant(name)[1], {name: tuple(imm)})


def ref_update_pc(pc, frames):
    """DESIGN App. B loop lemma on a bounded frame stack: returns (pc', frames') as ite-merged values per depth"""
    # frames: list of (b, e, r) bottom-first.  Process from the top.
    def go(pc, fr):
        if not fr:
            return [(z3.BoolVal(True), pc, [])]
        b, e, r = fr[-1]
        rest = fr[:-1]
        outs = []
        stay = z3.ULE(pc, e)
        outs.append((stay, pc, fr))
        again = z3.And(z3.UGT(pc, e), z3.UGT(r, 0), pc - e == 1)
        outs.append((again, b, rest + [(b, e, r - 1)]))
        drop = z3.And(z3.UGT(pc, e), z3.Not(z3.And(z3.UGT(r, 0), pc - e == 1)))
        for c, p2, f2 in go(pc, rest):
            outs.append((z3.And(drop, c), p2, f2))
        return outs
    return go(pc, frames)


def frames_eq(agg, frames):
    fs = agg.fields
    if len(fs) != len(frames):
        return z3.BoolVal(False)
    return z3.And([z3.And(f.fields[0] == b, f.fields[1] == e, f.fields[2] == r) for f, (b, e, r) in zip(fs, frames)] or [z3.BoolVal(True)])


def run_step(it, step_fn, st, mach):
    cell = st.alloc(mach)
    outs = it.exec_fn(st, step_fn, [Ptr(cell)])
    return cell, outs


def check_simple(chk, it, step_fn, name, imm, arity, reff, stack_vals, pcx, inputs, tagname, frames=(), extra_below=None):
    """opcode whose effect is: pop `arity`, push results, pc += 1, heap untouched"""
    G.reset()
    st = State()
    st.pc.extend(pcx)
    pc0 = z3.BitVec('pc', 64)
    st.pc.append(z3.ULE(pc0, 1 << 32))
    below = extra_below or []
    stack = list(below) + list(reversed(stack_vals))  # top is last: first popped = stack_vals[0]
    heap = MapM()
    op = opcode_value(it, name, imm)
    it.overrides = [(re.compile(r'core::slice::<impl \[OpCode\]>::get::<usize>$'),
                     lambda i, s, a, c: mk_some(Ptr(s.alloc(op))))]
    mach = machine(st, stack, heap, [op], pc0, list(frames))
    cell, outs = run_step(it, step_fn, st, mach)
    enough = len(stack_vals) >= arity
    n = 0
    for idx, (s, o) in enumerate(outs):
        nm = '%s/%s/%d' % (name, tagname, idx)
        if enough:
            rfail0, pushed0 = reff(imm, stack_vals[:arity])
            want0 = (list(below) + list(reversed(stack_vals[arity:])) + pushed0) if pushed0 is not None else None
        else:
            rfail0, want0 = z3.BoolVal(True), None
        rp = lambda mo, s=s, rfail0=rfail0, want0=want0: replay_step(chk, mo, name, imm, stack, rfail0, want0)
        if isinstance(o, Panic):
            chk.obligation('PANIC/' + nm, list(s.pc), z3.BoolVal(False), inputs, replay=rp, kind='PANIC', describe=str(o))
            continue
        n += 1
        failed = is_variant(o.v, 'None')
        post = s.heap[cell]
        pcs = list(s.pc)
        if not enough:
            chk.obligation('STEP/underflow-fails/' + nm, pcs, failed, inputs, replay=rp, bound=tagname)
            continue
        rfail, pushed = reff(imm, stack_vals[:arity])
        chk.obligation('STEP/fails-exactly-when-specified/' + nm, pcs, failed == rfail, inputs, replay=rp, bound=tagname)
        if pushed is not None:
            want = list(below) + list(reversed(stack_vals[arity:])) + pushed
            got = post.fields[0].fields
            if len(got) != len(want):
                claim = z3.BoolVal(False)
            else:
                claim = z3.And([val_eq(g, w) for g, w in zip(got, want)] or [z3.BoolVal(True)])
            split = None
            if name == 'Exp':
                # case analysis over the (few) exponents that fit k+1 bits: each case is a fixed product of 256-bit terms
                kk = simp(imm[0]).as_long()
                split = (ival(stack_vals[1]), [B256(x) for x in range(1 << (kk + 1))])
            chk.obligation('STEP/result-stack/' + nm, pcs + [z3.Not(rfail)], claim, inputs, replay=rp, bound=tagname, split=split)
        chk.obligation('STEP/pc-advances-by-one/' + nm, pcs + [z3.Not(rfail)], post.fields[3] == pc0 + 1, inputs, replay=rp)
    if n == 0:
        raise Inconclusive('step(%s) has no returning path' % name)
    it.overrides = []


def run(chk):
    it = chk.load()
    S.check_layout(it.adts)
    step_fn = find(it, 'step', 'executor.rs')
    it.join_rx = re.compile(r'.')
    quick = chk.tier == 'quick'
    chk.bounds = {'machine state': 'symbolic stack slots of symbolic variant (Int / Bytes / Vector), symbolic 256-bit integers, '
                                   'symbolic heap, symbolic program counter, loop stack depth <= 2',
                  'sequence lengths': 'bytes 0,2 (32/33 where the opcode cares), vectors 0,2' if quick else 'bytes 0..3, 32, 33, 64, 65; vectors 0..3',
                  'Exp': 'k <= %d' % (2 if quick else 6), 'stack depth': 'arity-1 (underflow), arity, arity+1'}
    chk.assume_note('blake3 and Ed25519 results are uninterpreted; catvec::CatVec is a sequence (push_back / insert(0) / append / '
                    'slice_into / get / get_mut / len); ethnum::U256 is a 256-bit bit-vector')
    chk.assume_note('determinism is structural: step() calls no clock / randomness / I-O (callee inventory of the MIR)')
    blens = [0, 2] if quick else [0, 1, 3]
    vlens = [0, 2] if quick else [0, 1, 3]
    n_lemmas = 0
    for name, (arity, reff) in REF.items():
        imms = [()]
        if name == 'Exp':
            imms = [(k,) for k in ([0, 2] if quick else [0, 1, 3, 6])]
        special_b = {'BtoI': [32, 31, 33], 'BAppend': blens, 'ItoB': [0]}.get(name, blens)
        for imm in imms:
            for depth in ([arity - 1, arity] if quick else [arity - 1, arity, arity + 1]):
                if depth < 0:
                    continue
                for bl, vl in itertools.product(special_b, vlens if 'V' in name or name in ('Dup', 'TypeQ') else [0]):
                    pcx = []
                    vals = [sym_value('s%d' % k, bl, vl, pcx) for k in range(depth)]
                    inputs = {}
                    for v in vals:
                        inputs[str(v.disc)] = v.disc
                        inputs[str(ival(v))] = ival(v)
                    immv = [bv(imm[0], 8)] if name == 'Exp' else []
                    reff2 = (lambda im, a, reff=reff, imm=imm: reff(imm, a)) if name == 'Exp' else reff
                    if len(chk.deferred) < 8:  # an unsupported construct in step() shows up once per run: no point in 700 copies
                        chk.guard(check_simple, chk, it, step_fn, name, immv, arity, reff2, vals, pcx, inputs,
                                  'depth%d-b%d-v%d%s' % (depth, bl, vl, ('-k%d' % imm[0]) if imm else ''))
                    n_lemmas += 1
    chk.extra['single_step_runs'] = n_lemmas
    chk.guard(other_opcodes, chk, it, step_fn, quick)
    tv(chk)


def other_opcodes(chk, it, step_fn, quick):
    """literals, heap access, slices, hash / signature guards, control flow and the loop bookkeeping"""
    from props import c10_more
    c10_more.run(chk, it, step_fn, quick)


def replay_step(chk, model, name, imm, stack, rfail, want):
    from props import c10_more
    return c10_more.replay_step(chk, model, name, imm, stack, rfail, want)


def tv(chk):
    reqs = [{'kind': 'c10_random', 'seed': chk.seed + k, 'n': 300} for k in range(2 if chk.tier == 'quick' else 10)]
    outs = harness.run_replay(reqs, 'dev')
    for r, o in zip(reqs, outs):
        if 'error' in o:
            raise Inconclusive('replay: ' + o['error'])
        if not o.get('ok'):
            raise Inconclusive('native differential run disagrees with the reference interpreter of the replay crate: %s' % o)
        chk.tv += o.get('cases', 0)

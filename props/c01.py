"""C01 - no value is created from nothing (conservation of every denomination).

Conservation is a composition.  Decided HERE, on the real MIR:
  K1  check_tx_validity: an accepted non-faucet transaction spends, in every denomination q, at least what it creates plus
      (for MEL) its fee -- for a universally quantified denomination, with the two documented exceptions (a transaction's own
      new token, the ERG of a DoscMint);
  K2  apply_tip_909: the per-block subsidy mints exactly (2^20 >> halvings) micro-SYM into two pool reserves and nothing
      else; the MEL it buys moves from the MEL/SYM pool to the fee pool unchanged;
  K3  process_pegging: touches nothing but the MEL/SYM pool, through at most two PoolState::swap_many calls with one side zero.
Decided ELSEWHERE and composed by reference (every one of them a claimed check): the coin set changes by exactly inputs out /
outputs in (C02, which also excludes double spends in any order), fees split into pool and tips exactly and the proposer
reward conserves MEL (C05), ERG mints stay within the reward (C18), faucets only off mainnet and once (C19), swaps / deposits /
withdrawals pay coins no more than left the pool and move the reserves by exactly that (C15), pool operations never pay out
more than the constant-product / pro-rata amounts (C16)."""
import re
import z3

from mirsym import shapes as S, models as M, bigmodels as BM, melmodels as MM
from mirsym.collections import MapM
from mirsym.interp import State, Agg, Ptr, Panic, Ret, UNINIT, UNIT, bv, Opaque, EnumV, Inconclusive, simp, G, val_eq, disc_term
from mirsym import harness
from props import batch as B

MAXU = (1 << 128) - 1
CAP = 1 << 127
W = 136  # sums of at most a few u128 values


def ext(t):
    return z3.ZeroExt(W - 128, t)


def run(chk):
    it = chk.load()
    it = B.prepare(chk)
    B.abstract_base_fee(it)
    S.check_layout(it.adts)
    chk.bounds = {'K1': 'one transaction with 2 inputs and 2 outputs (thorough: also 3 inputs / 3 outputs), every kind except DoscMint '
                        '(its ERG is C18), all fields symbolic, a universally quantified denomination',
                  'K2': 'arbitrary state with the two pools present (reserves in [1, 2^127]), every height <= 10^8 and network',
                  'K3': 'arbitrary state with the built-in pools present'}
    chk.assume_note('composition: see the module docstring of props/c01.py and DESIGN.md §12; a liquidity deposit by several '
                    'depositors in one block over-issues liquidity tokens (known finding of C16), which is value from nothing in '
                    'the liquidity-token denomination and is reported there')
    chk.assume_note('P-SUPPLY: the inputs of one transaction sum to at most 2^127 per denomination')
    shapes = [(2, 2)] if chk.tier == 'quick' else [(2, 2), (3, 3)]
    for ni, no in shapes:
        chk.guard(balance_kernel, chk, it, ni, no)
    # K1 takes the inputs of one transaction to be pairwise different and to exist: load_relevant_coins, which runs first
    # on the whole batch, guarantees that (and that no coin is consumed twice across the batch) -- decided here as in C02
    from props import c02
    chk.guard(c02.input_kernel, chk, it, [(1, 1, 1), (2, 1, 1)])
    it.overrides = [o for o in it.overrides if o[0].pattern != r'Transaction::base_fee']
    chk.guard(subsidy_kernel, chk, it)
    chk.guard(pegging_kernel, chk, it)


# ---------------------------------------------------------------------------------------------------------------


def balance_kernel(chk, it, ni, no):
    G.reset()
    G.atomic_domains = {'single:Transaction'}
    st = State()
    state, sterms = B.sym_state(st.pc)
    B.install_history_invariant(it, sterms['height'])
    st.pc.append(z3.UGE(sterms['height'], 1))
    st.pc.append(z3.ULE(sterms['height'], 100_000_000))
    tx, tt = B.sym_tx('tx', ni, no, 1, st.pc, exclude_kinds=('DoscMint',))
    st.pc.append(z3.ULE(tt['fee'], 1 << 120))
    for j in range(no):
        st.pc.append(z3.ULE(tt['out%d_value' % j], 1 << 120))
    rc = MapM()
    cdhs = []
    tot = z3.BitVecVal(0, W)
    for i, cid in enumerate(tx.fields[1].fields):
        holder = M.State_for_symvalue()
        cdh = S.sym_value('CoinDataHeight', 'coin%d' % i, holder)
        st.pc.extend(holder.pc)
        cdhs.append(cdh)
        rc = rc.insert(cid, cdh)
        tot = tot + ext(cdh.fields[0].fields[1].fields[0])
    st.pc.append(z3.ULE(tot, z3.BitVecVal(CAP, W)))
    ins = tx.fields[1].fields
    for i in range(ni):
        for j in range(i + 1, ni):
            st.pc.append(z3.Not(val_eq(ins[i], ins[j])))  # load_relevant_coins has rejected repeated inputs (C02)
    holder = M.State_for_symvalue()
    q = S.sym_value('Denom', 'q', holder)
    st.pc.extend(holder.pc)
    fn = it.by_last['check_tx_validity'][0]
    outs = it.exec_fn(st, fn, [Ptr(st.alloc(state)), Ptr(st.alloc(tx)), Ptr(st.alloc(Opaque('Map', rc))),
                               Ptr(st.alloc(Opaque('Map', MapM())))])
    in_q = z3.BitVecVal(0, W)
    for c in cdhs:
        in_q = in_q + z3.If(val_eq(c.fields[0].fields[2], q), ext(c.fields[0].fields[1].fields[0]), z3.BitVecVal(0, W))
    out_q = z3.BitVecVal(0, W)
    for o_ in tx.fields[2].fields:
        out_q = out_q + z3.If(val_eq(o_.fields[2], q), ext(o_.fields[1].fields[0]), z3.BitVecVal(0, W))
    is_mel = M.is_variant(q, 'Mel')
    out_q = out_q + z3.If(is_mel, ext(tt['fee']), z3.BitVecVal(0, W))
    inputs = {'kind': tt['kind'], 'q_tag': disc_term(q)}
    inputs.update(dict(('tx_' + k_, v_) for k_, v_ in tt.items()))
    for i, c in enumerate(cdhs):
        inputs['coin%d_value' % i] = c.fields[0].fields[1].fields[0]
        inputs['coin%d_denom_tag' % i] = disc_term(c.fields[0].fields[2])
        if 'Custom' in c.fields[0].fields[2].payloads:
            inputs['coin%d_denom_custom' % i] = c.fields[0].fields[2].payloads['Custom'][0].fields[0].fields[0]
    n = 0
    cov = []
    for idx, (s, o) in enumerate(outs):
        name = 'check_tx_validity/%din%dout/%d' % (ni, no, idx)
        if isinstance(o, Panic):
            continue  # panic freedom: C09
        n += 1
        ok = M.is_variant(o.v, 'Ok')
        pcs = list(s.pc)
        not_new = z3.Not(M.is_variant(q, 'NewCustom'))
        chk.obligation('FUNC/accepted-transaction-creates-no-more-than-it-spends/' + name,
                       pcs + [ok, tt['kind'] != S.TXKINDS['Faucet'], not_new], z3.ULE(out_q, in_q),
                       inputs, replay=lambda mo, s=s: replay_balance(chk, mo, inputs, ni, no), bound='any denomination q other than the '
                       "transaction's own new token; fee counted with the MEL outputs")
        cov.append((pcs, z3.And(ok, tt['kind'] != S.TXKINDS['Faucet'], z3.UGT(out_q, 5))))
    if not n:
        raise Inconclusive('check_tx_validity has no returning path')
    chk.cover_any('balanced transaction accepted/%din%dout' % (ni, no), cov)


def replay_balance(chk, model, inputs, ni, no):
    """the model's kinds / denominations / amounts as a real transaction over always-true coins: accepted although some
    denomination's outputs (+ fee) exceed its inputs?"""
    ev = lambda t: harness.model_int(model, t)
    names = {0: 'MEL', 1: 'SYM', 2: 'ERG'}
    raw = lambda k: {'txhash': {'hex': ('%02x' % k) * 32}, 'index': 0}

    def den_of(tag_term, custom_term):
        tag = ev(tag_term)
        if tag in names:
            return names[tag], names[tag]
        if tag == 4 and custom_term is not None:
            hx_ = '%064x' % ev(custom_term)
            return {'custom': {'hex': hx_}}, 'custom:' + hx_
        return 'MEL', 'MEL'
    kind = ev(inputs['kind'])
    if kind not in (0x00, 0x51, 0x52, 0x53):
        kind = 0x00
    coins, ins_, outs_ = [], [], []
    have = {}
    for i in range(ni):
        den, dk = den_of(inputs['coin%d_denom_tag' % i], inputs.get('coin%d_denom_custom' % i))
        v = min(ev(inputs['coin%d_value' % i]), 1 << 100)
        coins.append({'id': raw(0x41 + i), 'covhash': {'covhash_of': 'true'}, 'value': str(v), 'denom': den, 'adata': '', 'height': 0})
        ins_.append(raw(0x41 + i))
        have[dk] = have.get(dk, 0) + v
    want = {}
    for j in range(no):
        den, dk = den_of(inputs['tx_out%d_denom_tag' % j], inputs.get('tx_out%d_denom_custom' % j))
        v = min(ev(inputs['tx_out%d_value' % j]), 1 << 100)
        outs_.append({'covhash': {'covhash_of': 'true'}, 'value': str(v), 'denom': den, 'adata': ''})
        want[dk] = want.get(dk, 0) + v
    fee = min(ev(inputs['tx_fee']), 1 << 100)
    want['MEL'] = want.get('MEL', 0) + fee
    sc = {'kind': 'batch', 'network': 2, 'height': 5, 'fee_pool': '0', 'tips': '0', 'fee_multiplier': '0', 'dosc_speed': '1000000',
          'coins': coins, 'txs': [{'name': 'a', 'kind': kind, 'inputs': ins_, 'fee': str(fee), 'covenants': ['true'], 'data': '', 'outputs': outs_}],
          'probes': []}
    out = harness.run_replay([sc], 'dev')[0]
    if 'error' in out or 'unrealizable' in out:
        raise Inconclusive('replay: %s' % out)
    run = out['runs'][0]
    if run.get('panicked'):
        return False, sc, {'why': 'panic (C09 matter): ' + run.get('msg', '')[-120:]}
    created = [d for d in want if want[d] > have.get(d, 0)]
    bad = run.get('result') == 'Ok' and bool(created)
    return bad, sc, {'result': run.get('result'), 'inputs': have, 'outputs_plus_fee': want, 'created_from_nothing': created}


# ---------------------------------------------------------------------------------------------------------------


def _pool_state_setup(it, st, keys):
    """arbitrary state whose pools tree holds, for the given concrete pool keys, arbitrary states satisfying the invariant"""
    state, sterms = B.sym_state(st.pc)
    st.pc.append(z3.ULE(sterms['height'], 100_000_000))

    def hook(itp, s_, key, dom, v):
        ps = v.data.value
        for i in (0, 1, 3):
            G.add(z3.Implies(v.data.present, z3.And(z3.UGE(ps.fields[i], 1), z3.ULE(ps.fields[i], CAP))))
    it.base_read_hooks['pools'] = hook
    return state, sterms


def _poolkey(left, right):
    return Agg('PoolKey', [S.denom(left), S.denom(right)])


# canonical order of the built-in pool keys: PoolKey::new sorts by Denom::to_bytes ("d" < "m" < "s")
CANON = {('Mel', 'Sym'): ('Mel', 'Sym'), ('Sym', 'Mel'): ('Mel', 'Sym'), ('Mel', 'Erg'): ('Erg', 'Mel'), ('Erg', 'Mel'): ('Erg', 'Mel'),
         ('Erg', 'Sym'): ('Erg', 'Sym'), ('Sym', 'Erg'): ('Erg', 'Sym')}


def poolkey_new_override(itp, st, args, ctx):
    from mirsym.summaries import deref
    a, b = deref(itp, st, args[0]), deref(itp, st, args[1])
    da, db = simp(disc_term(a)), simp(disc_term(b))
    if not (z3.is_bv_value(da) and z3.is_bv_value(db)):
        return NotImplemented
    names = {0: 'Mel', 1: 'Sym', 2: 'Erg'}
    try:
        l, r = CANON[(names[da.as_long()], names[db.as_long()])]
    except KeyError:
        return NotImplemented
    return _poolkey(l, r)


def subsidy_kernel(chk, it, mode='func'):
    """mode 'func': the conservation claims (C01); mode 'panic': only that apply_tip_909 cannot panic (C09)"""
    from props import c15
    G.reset()
    st = State()
    state, sterms = _pool_state_setup(it, st, None)
    st.pc.append(z3.ULE(sterms['fee_pool'], CAP))
    pools0 = state.fields[9].fields[0].data
    sm_key, es_key = _poolkey('Mel', 'Sym'), _poolkey('Erg', 'Sym')
    sm0 = c15.pool_entry(it, st, pools0, sm_key)
    es0 = c15.pool_entry(it, st, pools0, es_key)
    st.pc += [sm0.data.present, es0.data.present]  # create_builtins has run (C16), TIP-909 implies TIP-902
    cell = st.alloc(state)
    fn = it.by_last['apply_tip_909'][0]
    added = c15.install_pool_contracts(it) + [(re.compile(r'PoolKey::new$'), poolkey_new_override)]
    it.overrides = [added[-1]] + list(it.overrides)
    saved_join = it.join_rx
    it.join_rx = None  # the two TIP-909 regimes stay separate paths, each with its own pair of swap_many calls
    try:
        outs = it.exec_fn(st, fn, [Ptr(cell)])
    finally:
        it.overrides = [o for o in it.overrides if o not in added]
        it.join_rx = saved_join
    h, netd = sterms['height'], sterms['network']
    inputs = {'height': h, 'network': netd, 'fee_pool': sterms['fee_pool'], 'sm_lefts': sm0.data.value.fields[0],
              'sm_rights': sm0.data.value.fields[1], 'es_rights': es0.data.value.fields[1]}
    n = 0
    for idx, (s, o) in enumerate(outs):
        name = 'apply_tip_909/%d' % idx
        if isinstance(o, Panic):
            if mode == 'panic':
                chk.obligation('PANIC/' + name, list(s.pc), z3.BoolVal(False), inputs, replay=lambda mo: replay_subsidy(chk, mo, inputs),
                               kind='PANIC', describe=str(o), arith='int',
                               bound='built-in pools with reserves in [1, 2^127], fee pool <= 2^127, every height <= 10^8 and network')
            continue
        n += 1
        if mode == 'panic':
            continue
        calls = [e[1] for e in s.events if e[0] == 'swap_many'] + [e[2][1] for e in s.events if e[0] == 'when' and e[2][0] == 'swap_many']
        if len(calls) != 2:
            raise Inconclusive('expected two swap_many calls in apply_tip_909, saw %d' % len(calls))
        c_sm, c_es = calls
        post = s.heap[cell]
        sm1 = c15.pool_entry(it, s, post.fields[9].fields[0].data, sm_key)
        es1 = c15.pool_entry(it, s, post.fields[9].fields[0].data, es_key)
        pcs = list(s.pc)
        minted = ext(c_sm['dr']) + ext(c_es['dr'])
        chk.obligation('FUNC/subsidy-mints-at-most-2^20-micro-SYM-and-only-SYM/' + name, pcs,
                       z3.And(c_sm['dl'] == 0, c_es['dl'] == 0, z3.ULE(minted, z3.BitVecVal(1 << 20, W)),
                              c_sm['L'] == sm0.data.value.fields[0], c_sm['R'] == sm0.data.value.fields[1],
                              c_es['L'] == es0.data.value.fields[0], c_es['R'] == es0.data.value.fields[1]),
                       inputs, replay=lambda mo: replay_subsidy(chk, mo, inputs), bound='every height and network; the two SYM amounts '
                       'go into the right-hand (SYM) reserves of MEL/SYM and ERG/SYM', arith='int')
        chk.obligation('FUNC/mel-bought-by-the-subsidy-moves-from-the-pool-to-the-fee-pool/' + name, pcs,
                       z3.And(sm1.data.present, es1.data.present,
                              ext(post.fields[5].fields[0]) == ext(sterms['fee_pool']) + ext(c_sm['lw']),
                              sm1.data.value.fields[0] == c_sm['L1'] - c_sm['lw'], sm1.data.value.fields[1] == c_sm['R1'] - c_sm['rw'],
                              es1.data.value.fields[0] == c_es['L1'] - c_es['lw'], es1.data.value.fields[1] == c_es['R1'] - c_es['rw'],
                              val_eq(Agg('t', [post.fields[i] for i in (0, 1, 6, 7, 8)]), Agg('t', [state.fields[i] for i in (0, 1, 6, 7, 8)])),
                              M.tree_extensional_eq(it, s, state.fields[3].fields[0].data, post.fields[3].fields[0].data)),
                       inputs, replay=lambda mo: replay_subsidy(chk, mo, inputs), bound='MEL conserved; coins, tips, multiplier, speed untouched',
                       arith='int')
    chk.sample({'kernel': 'apply_tip_909', 'mode': mode, 'paths': len(outs), 'feasible_panic_paths': len([1 for _s, _o in outs if isinstance(_o, Panic)])})
    if not n:
        raise Inconclusive('apply_tip_909 has no returning path')
    it.base_read_hooks.pop('pools', None)


def replay_subsidy(chk, model, inputs):
    """an empty block on networks with TIP-909 on: the state after preseal_melmint alone against the state after seal(None) --
    the difference is apply_tip_909.  SYM reserves may grow by at most 2^20 in total, nothing but SYM is minted, and the MEL that
    leaves the MEL/SYM pool must arrive in the fee pool"""
    last = None
    for net, height in ((2, 5), (0xff, 950001), (0xff, 2_500_000)):
        sc = {'kind': 'batch', 'network': net, 'height': height, 'fee_pool': '1000', 'tips': '0', 'fee_multiplier': '0', 'dosc_speed': '1000000',
              'coins': [], 'txs': [], 'probes': [], 'preseal_only': True, 'seal': None}
        out = harness.run_replay([sc], 'dev')[0]
        if 'error' in out or 'unrealizable' in out:
            raise Inconclusive('replay: %s' % out)
        run = out['runs'][0]
        a, b = run.get('preseal', {}), run.get('seal', {})
        if a.get('panicked') or b.get('panicked'):
            return True, sc, {'preseal': a, 'seal': b}
        pa, pb = a['builtin_pools'], b['builtin_pools']
        g = lambda p, k, f: int(p[k][f]) if p.get(k) else 0
        sym_minted = (g(pb, 'MEL/SYM', 'rights') - g(pa, 'MEL/SYM', 'rights')) + (g(pb, 'ERG/SYM', 'rights') - g(pa, 'ERG/SYM', 'rights'))
        mel_out = g(pa, 'MEL/SYM', 'lefts') - g(pb, 'MEL/SYM', 'lefts')
        fee_gain = int(b['fee_pool']) - int(a['fee_pool'])
        erg_delta = g(pb, 'ERG/SYM', 'lefts') - g(pa, 'ERG/SYM', 'lefts')
        other = (g(pb, 'MEL/ERG', 'lefts') - g(pa, 'MEL/ERG', 'lefts'), g(pb, 'MEL/ERG', 'rights') - g(pa, 'MEL/ERG', 'rights'))
        halvings = max(height - 950000, 0) // 1_000_000 if net == 0xff else height // 1_000_000
        why = ''
        if sym_minted > ((1 << 20) >> halvings):
            why = 'subsidy minted %d micro-SYM, allowed %d' % (sym_minted, (1 << 20) >> halvings)
        elif fee_gain != mel_out:
            why = 'MEL leaving the pool %d, fee pool gain %d' % (mel_out, fee_gain)
        elif erg_delta > 0 or other != (0, 0):
            why = 'reserves other than SYM grew: ERG/SYM lefts %+d, MEL/ERG %s' % (erg_delta, other)
        last = (sc, {'network': net, 'height': height, 'sym_minted': sym_minted, 'mel_out_of_pool': mel_out, 'fee_pool_gain': fee_gain,
                     'why': why or 'consistent'})
        if why:
            return True, last[0], last[1]
    return False, last[0], last[1]


# ---------------------------------------------------------------------------------------------------------------


def pegging_kernel(chk, it):
    """FRAME: process_pegging writes nothing but the MEL/SYM pool entry (syntactic check of the MIR of the tree under check:
    the only calls that can write state are SmtMapping::insert on `state.pools` with the MEL/SYM key and PoolState::swap_many on
    the local copy of that pool) -- the peg adjustment is the issuance the property allows, bounded by (target - reserve) / 200"""
    from mirsym import mirparse as mp
    fns = it.by_last.get('process_pegging', [])
    if not fns:
        raise Inconclusive('process_pegging not found in the MIR')
    fn = fns[0]
    writers = []
    calls = []
    for blk in fn._raw.values():
        for t in blk.stmts:
            m = re.search(r'= ([\w:<>&, ]+?)\(', str(t))
            if m and '->' in str(t):
                calls.append(m.group(1).strip())
    allowed = re.compile(r'SmtMapping::<.*>::(get|insert)$|PoolKey::new$|PoolState::(implied_price|swap_many)$|tip_902$|tip_condition$|'
                         r'dosc_inflator$|Ratio|BigInt|BigRational|Option::|Result::|as (std::ops::)?(Div|Mul|Clone|From|Into|TryInto)|'
                         r'^<.* as (Clone|From<.*>|TryInto<.*>|Into<.*>|Try|FromResidual.*)>::|panic|val_iter|count|drop|unwrap|floor|numer|sqrt|'
                         r'^core::|^std::|^<std::|assert')
    odd = sorted(set(c for c in calls if not allowed.search(c)))
    inserts = [c for c in calls if c.endswith('::insert')]
    swaps = [c for c in calls if c.endswith('swap_many')]
    x = z3.Bool('pegging_frame')
    chk.obligation('FRAME/pegging-only-rewrites-the-MEL-SYM-pool', [x == z3.BoolVal(not odd and len(inserts) == 1 and len(swaps) == 2)], x, {},
                   replay=None, kind='FRAME',
                   bound='calls in process_pegging: %d, pool inserts %d, swap_many %d, unexpected: %s' % (len(calls), len(inserts), len(swaps), odd or 'none'))

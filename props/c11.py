"""C11 - covenant cost is bounded by what is paid for: terminates within its weight."""
import itertools
import re
import z3

from mirsym import shapes as S, models as M
from mirsym.collections import MapM
from mirsym.interp import (State, Agg, Ptr, Panic, Ret, UNIT, bv, Opaque, EnumV, Inconclusive, simp, G, val_eq, is_variant,
                           mk_some)
from mirsym import harness
from props.c10 import find, machine, opcode_value, vint, B256

MAXU = (1 << 128) - 1


def sat_add(a, b):
    r = a + b
    return z3.If(z3.ULT(r, a), bv(MAXU, 128), r)


def sat_mul(a, b):
    return z3.If(z3.BVMulNoOverflow(a, b, False), a * b, bv(MAXU, 128))


def sym_op(it, kind, name):
    adt = it.adts.get('OpCode')
    v = adt.variant(kind)
    args = []
    for k, (fn_, ty) in enumerate(v[2]):
        ty = ty.strip()
        if ty == 'Vec<u8>':
            args.append(Agg('Vec', [z3.BitVec('%s_b%d' % (name, j), 8) for j in range(2)]))
        else:
            args.append(z3.BitVec('%s_a%d' % (name, k), {'u8': 8, 'u16': 16, 'U256': 256}[ty]))
    return EnumV('OpCode', v[1], {kind: tuple(args)}), args


def ref_weight(prog):
    """W(prog) = sum of car weights; a loop weighs 1 + n * W(the next min(k, remaining) instructions); the control
    alphabet used here weighs 1 per instruction, Add weighs 4 (taken from the specification's cost table)"""
    total = bv(0, 128)
    for i, (kind, args) in enumerate(prog):
        rest = prog[i + 1:]
        if kind == 'Loop':
            n, k = args
            w = bv(0, 128)
            # body = rest[..min(k, len(rest))]: case analysis over the feasible body lengths
            acc = None
            for ln in range(len(rest), -1, -1):
                body_w = ref_weight(rest[:ln])
                cond = (k == ln) if ln < len(rest) else z3.UGE(k, bv(ln, 16))
                acc = body_w if acc is None else z3.If(cond, body_w, acc)
            car = sat_add(sat_mul(acc, z3.ZeroExt(112, n)), bv(1, 128))
        elif kind == 'Add':
            car = bv(4, 128)
        else:
            car = bv(1, 128)
        total = sat_add(total, car)
    return total


def run(chk):
    it = chk.load()
    S.check_layout(it.adts)
    it.join_rx = re.compile(r'.')
    quick = chk.tier == 'quick'
    chk.bounds = {'W1': 'every opcode variant, symbolic operands', 'W2': 'programs of <= %d instructions over {Noop, Add, Loop}, all '
                  'u16 counts / body lengths symbolic' % (3 if quick else 4),
                  'W3': 'programs of <= %d instructions over {Noop, PushI, Jmp, Bez, Bnz, Loop}, gaps / body lengths symbolic u16, '
                        'iteration counts symbolic in [0,2]' % (2 if quick else 3),
                  'W4': 'nested-loop programs of <= %d instructions' % (5 if quick else 7)}
    chk.assume_note('memory high-water mark is not observable here (DESIGN §5.3); data growth per step is bounded by the C10 lemmas')
    chk.assume_note('longer programs and larger iteration counts follow from W1/W2 and the C10 loop lemma (both sides scale linearly in n)')
    chk.guard(w1_car_weights, chk, it)
    chk.guard(w2_loop_weight, chk, it, 3 if quick else 4)
    chk.guard(w3_steps_within_weight, chk, it, 2 if quick else 3)
    chk.guard(w4_weighing_is_cheap, chk, it, 5 if quick else 7)


def w1_car_weights(chk, it):
    car = find(it, 'opcodes_car_weight', '')
    adt = it.adts.get('OpCode')
    for (kind, disc, fields) in adt.variants:
        G.reset()
        st = State()
        op, args = sym_op(it, kind, 'op')
        cell = st.alloc(Agg('array', [op]))
        for idx, (s, o) in enumerate(it.exec_fn(st, car, [Ptr(cell)])):
            nm = 'W1/%s/%d' % (kind, idx)
            if isinstance(o, Panic):
                chk.obligation('PANIC/' + nm, list(s.pc), z3.BoolVal(False), {}, replay=None, kind='PANIC', describe=str(o))
                continue
            w = o.v.fields[0]
            chk.obligation('W1/every-instruction-weighs-at-least-1/%s/%d' % (kind, idx), list(s.pc), z3.UGE(w, 1), {},
                           replay=lambda mo, kind=kind: replay_weight(chk, [(kind, [])]), bound='all operand values')
        # every instruction behind this one is still weighed: the remainder the weigher continues with is the tail right
        # behind the instruction (jumps are forward and conditional on run-time data, so whatever follows an instruction
        # can execute; W2 sums the car weights along exactly this chain of remainders)
        G.reset()
        st = State()
        op, args = sym_op(it, kind, 'op')
        tail = [sym_op(it, 'Noop', 't%d' % i)[0] for i in range(3)]
        cell = st.alloc(Agg('array', [op] + tail))
        inputs = dict((str(a), a) for a in args if z3.is_expr(a))
        for idx, (s, o) in enumerate(it.exec_fn(st, car, [Ptr(cell)])):
            if isinstance(o, Panic):
                chk.obligation('PANIC/W1-tail/%s/%d' % (kind, idx), list(s.pc), z3.BoolVal(False), inputs, replay=None, kind='PANIC', describe=str(o))
                continue
            try:
                off, ln = slice_of(it, s, o.v.fields[1])
                tail_ok = z3.BoolVal(off == 1 and ln == 3)
            except Inconclusive:
                tail_ok = z3.BoolVal(False)
            chk.obligation('W1/the-weigher-continues-with-the-instruction-right-behind/%s/%d' % (kind, idx), list(s.pc), tail_ok, inputs,
                           replay=lambda mo, kind=kind, args=args: replay_skipped_window(chk, mo, kind, args),
                           bound='the instruction followed by three more; all operand values')


def programs(alphabet, maxlen):
    for ln in range(1, maxlen + 1):
        for kinds in itertools.product(alphabet, repeat=ln):
            yield kinds


def slice_of(it, st, p):
    """(start, length) of a slice pointer into the program array"""
    start = 0
    while isinstance(p, Ptr) and p.path and p.path[-1][0] != 'sub' and False:
        pass
    v = p
    total = None
    offs = 0
    cur = st.heap[p.cell]
    ln = len(cur.fields)
    for el in p.path:
        if el[0] == 'sub':
            a, b, from_end = el[1], el[2], el[3]
            hi = ln - b if from_end else b
            offs += a
            ln = hi - a
        else:
            raise Inconclusive('unexpected slice pointer shape %r' % (p.path,))
    return offs, ln


def w2_loop_weight(chk, it, maxlen):
    """W2, compositionally.  (A) the car weight of a loop is 1 + n * W(exactly the next min(k, remaining) instructions)
    and leaves the rest untouched; (B) the weight of a program is the saturating sum of the car weights of its suffixes.
    W / car are abstract in the respective other lemma; both hold for any instruction contents."""
    wfn = find(it, 'opcodes_weight', '')
    car = find(it, 'opcodes_car_weight', '')
    nrest = maxlen
    # (A)
    G.reset()
    st = State()
    n, k = z3.BitVec('iters', 16), z3.BitVec('body_len', 16)
    ops = [opcode_value(it, 'Loop', [n, k])] + [sym_op(it, 'Noop', 'r%d' % i)[0] for i in range(nrest)]
    W = {}

    def ov_weight(i, s_, a, c):
        off, ln = slice_of(i, s_, a[0])
        s_.events.append(('weigh', off, ln))
        return W.setdefault((off, ln), z3.BitVec('W_%d_%d' % (off, ln), 128))
    it.overrides = [(re.compile(r'^(opcode::)?opcodes_weight$'), ov_weight)]
    cell = st.alloc(Agg('array', ops))
    inputs = {'iters': n, 'body_len': k}
    for idx, (s, o) in enumerate(it.exec_fn(st, car, [Ptr(cell)])):
        nm = 'W2A/%d' % idx
        rp = lambda mo: replay_weight_model(chk, mo, [('Loop', [n, k])] + [('Noop', [])] * nrest)
        if isinstance(o, Panic):
            chk.obligation('PANIC/' + nm, list(s.pc), z3.BoolVal(False), inputs, replay=rp, kind='PANIC', describe=str(o))
            continue
        w, rest = o.v.fields
        off, ln = slice_of(it, s, rest)
        evs = [e[2] if e[0] == 'when' else e for e in s.events]
        conj = [z3.BoolVal(off == 1 and ln == nrest)]
        want = None
        for L in range(nrest, -1, -1):
            body = W.get((1, L), z3.BitVec('W_1_%d' % L, 128))
            val = sat_add(sat_mul(body, z3.ZeroExt(112, n)), bv(1, 128))
            cond = (k == L) if L < nrest else z3.UGE(k, bv(L, 16))
            want = val if want is None else z3.If(cond, val, want)
        conj.append(w == want)
        chk.obligation('W2/loop-weighs-1-plus-n-times-exactly-its-body/%d' % idx, list(s.pc), z3.And(conj), inputs, replay=rp,
                       bound='loop followed by %d instructions; all u16 counts / body lengths; body weight abstract' % nrest)
    it.overrides = []
    # (B)
    for L in range(1, maxlen + 1):
        G.reset()
        st = State()
        ops = [sym_op(it, 'Noop', 'p%d' % i)[0] for i in range(L)]
        cars = [z3.BitVec('car_%d' % i, 128) for i in range(L)]
        cell = st.alloc(Agg('array', ops))

        def ov_car(i, s_, a, c, cars=cars, L=L, cell=cell):
            off, ln = slice_of(i, s_, a[0])
            s_.events.append(('car', off, ln))
            if ln == 0:
                return Agg('tuple', [bv(0, 128), a[0]])
            p = a[0]
            return Agg('tuple', [cars[off], Ptr(p.cell, p.path + (('sub', 1, 0, True),))])
        it.overrides = [(re.compile(r'^(opcode::)?opcodes_car_weight$'), ov_car)]
        for idx, (s, o) in enumerate(it.exec_fn(st, wfn, [Ptr(cell)])):
            nm = 'W2B/len%d/%d' % (L, idx)
            if isinstance(o, Panic):
                chk.obligation('PANIC/' + nm, list(s.pc), z3.BoolVal(False), {}, replay=None, kind='PANIC', describe=str(o))
                continue
            tot = bv(0, 128)
            for c_ in cars:
                tot = sat_add(tot, c_)
            first = cars[0]
            tot2 = first
            for c_ in cars[1:]:
                tot2 = sat_add(tot2, c_)
            chk.obligation('W2/program-weight-is-the-saturating-sum-of-car-weights/len%d/%d' % (L, idx), list(s.pc), o.v == tot2,
                           {}, replay=None, bound='%d instructions, abstract car weights' % L)
        it.overrides = []
    chk.extra['w2_lemmas'] = 1 + maxlen


def w3_steps_within_weight(chk, it, maxlen):
    """run_to_end on a symbolic control-flow program never takes more steps than the program weighs"""
    wfn = find(it, 'opcodes_weight', '')
    run_fn = find(it, 'run_to_end', 'executor.rs')
    step_fn = find(it, 'step', 'executor.rs')
    n_prog = 0
    old_unwind = it.unwind
    it.unwind = 60
    for kinds in programs(('Noop', 'PushI', 'Jmp', 'Bez', 'Loop'), maxlen):
        if not any(k in ('Loop', 'Jmp', 'Bez') for k in kinds):
            continue
        G.reset()
        st = State()
        ops, inputs, prog = [], {}, []
        for i, kind in enumerate(kinds):
            op, args = sym_op(it, kind, 'i%d' % i)
            if kind == 'Loop':
                st.pc.append(z3.ULE(args[0], 2))  # iteration count in [0, 2] (stated bound)
            ops.append(op)
            prog.append((kind, args))
            for a in args:
                inputs[str(a)] = a
        # weight from the real weigher
        pcell = st.alloc(Agg('array', ops))
        wouts = it.exec_fn(st.fork(), wfn, [Ptr(pcell)])
        wouts = [(s, o) for s, o in wouts if isinstance(o, Ret)]
        if len(wouts) != 1:
            raise Inconclusive('opcodes_weight did not join to one value for %s' % (kinds,))
        ws, wo = wouts[0]
        weight = wo.v
        base = ws
        mach = machine(base, [vint(B256(5))], MapM(), ops, bv(0, 64), [])
        cell = base.alloc(mach)
        key = 'call:' + step_fn.name
        it.join_rx = re.compile(r'^(?!.*run_to_end).*$')  # steps are counted per path: do not join across run_to_end
        outs = it.exec_fn(base, run_fn, [Ptr(cell)])
        it.join_rx = re.compile(r'.')
        n_prog += 1
        for idx, (s, o) in enumerate(outs):
            nm = 'W3/%s/%d' % ('-'.join(kinds), idx)
            rp = lambda mo, prog=prog: replay_steps(chk, mo, prog)
            if isinstance(o, Panic):
                chk.obligation('PANIC/' + nm, list(s.pc), z3.BoolVal(False), inputs, replay=rp, kind='PANIC', describe=str(o))
                continue
            steps = s.counters.get(key, 0)
            chk.obligation('W3/steps-within-weight/%s/%d' % ('-'.join(kinds), idx), list(s.pc), z3.UGE(weight, bv(steps, 128)), inputs,
                           replay=rp, bound='%d executed steps on this path' % steps)
    it.unwind = old_unwind
    chk.extra['w3_programs'] = n_prog


def w4_weighing_is_cheap(chk, it, maxlen):
    """number of opcodes_car_weight invocations while weighing a nest of loops is polynomial (<= L(L+3)/2)"""
    wfn = find(it, 'opcodes_weight', '')
    car = find(it, 'opcodes_car_weight', '')
    key = 'call:' + car.name
    for L in range(2, maxlen + 1):
        G.reset()
        st = State()
        ops = []
        for i in range(L - 1):
            ops.append(opcode_value(it, 'Loop', [bv(2, 16), bv(L - 1 - i, 16)]))
        ops.append(opcode_value(it, 'Noop', []))
        outs = it.exec_fn(st, wfn, [Ptr(st.alloc(Agg('array', ops)))])
        calls = max(s.counters.get(key, 0) for s, o in outs)
        bound = L * (L + 3) // 2
        x = z3.BitVec('weigher_calls', 32)
        depth = z3.BitVec('nesting_depth', 32)
        chk.obligation('W4/weighing-cost-polynomial/L%d' % L, [x == calls, depth == L - 1], z3.ULE(x, bound),
                       {'weigher_calls': x, 'nesting_depth': depth}, replay=lambda mo: replay_weigh_time(chk),
                       bound='%d nested loops: %d calls of opcodes_car_weight, polynomial budget %d' % (L - 1, calls, bound))
        chk.sample({'nested_loops': L - 1, 'opcodes_car_weight_calls': calls, 'budget': bound})


# ---- native replays ------------------------------------------------------------------------------------------------

def prog_json(model, prog):
    out = []
    for kind, args in prog:
        a = []
        for x in args:
            if isinstance(x, Agg):
                a.append(bytes(harness.model_int(model, b) for b in x.fields).hex())
            else:
                a.append(str(harness.model_int(model, x)) if model is not None else '1')
        out.append({'variant': kind, 'args': a})
    return out


def py_weight(prog):
    total = 0
    for i, ins in enumerate(prog):
        rest = prog[i + 1:]
        if ins['variant'] == 'Loop':
            n, k = int(ins['args'][0]), int(ins['args'][1])
            car = min(py_weight(rest[:min(k, len(rest))]) * n, MAXU)
            car = min(car + 1, MAXU)
        else:
            car = {'Add': 4}.get(ins['variant'], 1)
        total = min(total + car, MAXU)
    return total


def replay_weight_model(chk, model, prog):
    pj = prog_json(model, prog)
    out = harness.run_replay([{'kind': 'c11_weight', 'program': pj}], 'dev')[0]
    if 'error' in out:
        raise Inconclusive('replay: ' + out['error'])
    want = py_weight(pj)
    return bool(out.get('panicked')) or int(out['weight']) != want, {'kind': 'c11_weight', 'program': pj}, dict(out, expected=str(want))


def replay_weight(chk, prog):
    pj = [{'variant': k, 'args': ['1'] * {'Exp': 1, 'Hash': 1, 'SigEOk': 1, 'StoreImm': 1, 'LoadImm': 1, 'Bez': 1, 'Bnz': 1, 'Jmp': 1,
                                           'Loop': 2, 'PushI': 1, 'PushIC': 1}.get(k, 0) if k != 'PushB' else ['00']} for k, _ in prog]
    out = harness.run_replay([{'kind': 'c11_weight', 'program': pj}], 'dev')[0]
    if 'error' in out:
        raise Inconclusive('replay: ' + out['error'])
    return bool(out.get('panicked')) or int(out['weight']) < 1, {'kind': 'c11_weight', 'program': pj}, out


def replay_steps(chk, model, prog):
    pj = prog_json(model, prog)
    req = {'kind': 'c11_steps', 'program': pj}
    out = harness.run_replay([req], 'dev')[0]
    if 'error' in out:
        raise Inconclusive('replay: ' + out['error'])
    return bool(out.get('panicked')) or int(out['steps']) > int(out['weight']), req, out


def replay_skipped_window(chk, model, kind, args):
    """the instruction of the model, jumped over by an earlier branch, with a loop in the window behind it: if the weigher
    does not weigh that window, the run takes more steps than the program weighs"""
    inst = prog_json(model, [(kind, args)])[0]
    mk = lambda v, a: {'variant': v, 'args': [str(x) for x in a]}
    last = None
    for body_runs in (3, 40):
        pj = [mk('PushI', [0]), mk('Bez', [1]), inst, mk('Loop', [body_runs, 1]), mk('Noop', []), mk('Noop', []), mk('Noop', [])]
        req = {'kind': 'c11_steps', 'program': pj}
        out = harness.run_replay([req], 'dev')[0]
        if 'error' in out:
            raise Inconclusive('replay: ' + out['error'])
        last = (bool(out.get('panicked')) or int(out['steps']) > int(out['weight']), req, out)
        if last[0]:
            return last
    return last


def replay_weigh_time(chk):
    req = {'kind': 'c11_weigh_time', 'depth': 22}
    out = harness.run_replay([req], 'release' if chk.tier != 'quick' else 'dev', timeout=300)[0]
    if 'error' in out:
        raise Inconclusive('replay: ' + out['error'])
    # exponential: each extra nesting level doubles the time; polynomial behaviour would stay far below this ratio
    return out.get('ratio_depth_plus_4', 0) > 8.0, req, out

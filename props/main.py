import importlib
import json
import os
import sys

from mirsym import harness


def main(argv):
    if not argv:
        print('usage: check <Cxx> [--tier quick|thorough] | check replay <file>')
        return 2
    if argv[0] == 'replay':
        data = json.load(open(argv[1]))
        req = data.get('request', data)
        prof = data.get('profile', 'dev')
        out = harness.run_replay(req if isinstance(req, list) else [req], prof)
        print(json.dumps({'request': req, 'observed_now': out, 'observed_then': data.get('observed')}, indent=1))
        return 0
    pid = argv[0].upper()
    tier = os.environ.get('VERIF_TIER', 'quick')
    if '--tier' in argv:
        tier = argv[argv.index('--tier') + 1]
    seed = int(os.environ.get('VERIF_SEED', '0') or 0)
    mod = importlib.import_module('props.' + pid.lower())
    return harness.run_check(pid, lambda chk: mod.run(chk), tier, seed)


if __name__ == '__main__':
    sys.exit(main(sys.argv[1:]))

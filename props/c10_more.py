"""C10, continued: literals, heap access, slices, guards of Hash / SigEOk, control flow, loop bookkeeping, result."""
import random
import re
import z3

from mirsym import models as M, melmodels as MM
from mirsym.collections import MapM, map_lookup
from mirsym.interp import (State, Agg, Ptr, Panic, Ret, UNIT, bv, Opaque, EnumV, Inconclusive, simp, G, val_eq, ite_val,
                           is_variant, mk_some, disc_term)
from mirsym import harness
from props.c10 import (sym_value, vint, vbytes, vvec, is_int, is_bytes, is_vec, ival, bval, vval, u16ok, B256, machine,
                       opcode_value, run_step, ref_update_pc, frames_eq, find, tag)


def stack_eq(got, want):
    if len(got) != len(want):
        return z3.BoolVal(False)
    return z3.And([val_eq(g, w) for g, w in zip(got, want)] or [z3.BoolVal(True)])


def setup(it, name, imm, stack, heap=None, frames=(), pcx=()):
    G.reset()
    st = State()
    st.pc.extend(pcx)
    pc0 = z3.BitVec('pc', 64)
    st.pc.append(z3.ULE(pc0, 1 << 32))
    op = opcode_value(it, name, imm)
    it.overrides = [(re.compile(r'core::slice::<impl \[OpCode\]>::get::<usize>$'), lambda i, s, a, c: mk_some(Ptr(s.alloc(op))))]
    mach = machine(st, stack, heap or MapM(), [op], pc0, list(frames))
    return st, pc0, mach


def each(chk, it, step_fn, st, mach, label, inputs, body, replay=None):
    cell, outs = run_step(it, step_fn, st, mach)
    n = 0
    for idx, (s, o) in enumerate(outs):
        nm = '%s/%d' % (label, idx)
        if isinstance(o, Panic):
            chk.obligation('PANIC/' + nm, list(s.pc), z3.BoolVal(False), inputs, replay=replay, kind='PANIC', describe=str(o))
            continue
        n += 1
        body(nm, s, is_variant(o.v, 'None'), s.heap[cell])
    if n == 0:
        raise Inconclusive('step has no returning path for ' + label)
    it.overrides = []


def run(chk, it, step_fn, quick):
    literals(chk, it, step_fn)
    heap_ops(chk, it, step_fn)
    slices(chk, it, step_fn, quick)
    crypto_guards(chk, it, step_fn)
    control(chk, it, step_fn)
    loops(chk, it, step_fn)
    result_lemma(chk, it)
    translation_validation(chk, it, step_fn)


def literals(chk, it, step_fn):
    for name, imm, want in (('PushI', [z3.BitVec('lit', 256)], lambda: vint(z3.BitVec('lit', 256))),
                            ('PushIC', [z3.BitVec('lit', 256)], lambda: vint(z3.BitVec('lit', 256))),
                            ('PushB', [Agg('Vec', [z3.BitVec('l%d' % k, 8) for k in range(3)])],
                             lambda: vbytes([z3.BitVec('l%d' % k, 8) for k in range(3)])),
                            ('VEmpty', [], lambda: vvec([])), ('BEmpty', [], lambda: vbytes([])), ('Noop', [], None)):
        pcx = []
        below = [sym_value('s0', 1, 1, pcx)]
        st, pc0, mach = setup(it, name, imm, below, pcx=pcx)

        def body(nm, s, failed, post, want=want, below=below, pc0=pc0):
            exp = below + ([want()] if want else [])
            chk.obligation('STEP/literal/' + nm, list(s.pc), z3.And(z3.Not(failed), stack_eq(post.fields[0].fields, exp),
                                                                     post.fields[3] == pc0 + 1), {}, replay=None)
        each(chk, it, step_fn, st, mach, name, {}, body)


def heap_ops(chk, it, step_fn):
    # Store: pop addr (int <= 65535), pop v -> heap[addr] = v ; StoreImm(a): pop v
    # Load: pop addr -> push heap[addr], fail if unset ; LoadImm(a)
    for name in ('Store', 'StoreImm', 'Load', 'LoadImm'):
        pcx = []
        addr_v = sym_value('addr', 0, 0, pcx)
        val = sym_value('val', 1, 1, pcx)
        imm_a = z3.BitVec('imm_addr', 16)
        h0k, h0v = z3.BitVec('heap0_key', 16), sym_value('heap0', 1, 1, pcx)
        heap = MapM().insert(h0k, h0v)
        probe = z3.BitVec('probe_addr', 16)
        if name == 'Store':
            stack = [val, addr_v]
        elif name == 'StoreImm':
            stack = [val]
        elif name == 'Load':
            stack = [addr_v]
        else:
            stack = []
        imm = [imm_a] if name.endswith('Imm') else []
        st, pc0, mach = setup(it, name, imm, stack, heap=heap, pcx=pcx)
        inputs = {'imm_addr': imm_a, 'heap0_key': h0k, 'probe_addr': probe}

        def body(nm, s, failed, post, name=name):
            pcs = list(s.pc)
            hp = post.fields[1].data
            found_p, val_p = map_lookup(hp, probe)
            f0, v0 = map_lookup(heap, probe)
            if name in ('Store', 'StoreImm'):
                a = z3.Extract(15, 0, ival(addr_v)) if name == 'Store' else imm_a
                rfail = z3.Or(z3.Not(is_int(addr_v)), z3.Not(u16ok(ival(addr_v)))) if name == 'Store' else z3.BoolVal(False)
                chk.obligation('STEP/fails-exactly-when-specified/' + nm, pcs, failed == rfail, inputs, replay=None)
                want_found = z3.Or(probe == a, f0)
                claim = z3.And(found_p == want_found, z3.Implies(probe == a, val_eq(val_p, val)),
                               z3.Implies(z3.And(probe != a, f0), val_eq(val_p, v0)),
                               z3.BoolVal(len(post.fields[0].fields) == 0))
                chk.obligation('STEP/heap-cell-written-others-kept/' + nm, pcs + [z3.Not(rfail)], claim, inputs, replay=None,
                               bound='any probed address')
            else:
                a = z3.Extract(15, 0, ival(addr_v)) if name == 'Load' else imm_a
                fa, va = map_lookup(heap, a)
                rfail = z3.Or(z3.Not(fa), z3.Or(z3.Not(is_int(addr_v)), z3.Not(u16ok(ival(addr_v)))) if name == 'Load' else z3.BoolVal(False))
                chk.obligation('STEP/fails-exactly-when-specified/' + nm, pcs, failed == rfail, inputs, replay=None)
                got = post.fields[0].fields
                claim = z3.And(val_eq(got[-1], va), z3.BoolVal(len(got) == 1)) if got else z3.BoolVal(False)
                chk.obligation('STEP/loads-the-stored-value/' + nm, pcs + [z3.Not(rfail)], claim, inputs, replay=None)
        each(chk, it, step_fn, st, mach, name, inputs, body)


def slices(chk, it, step_fn, quick):
    for name, isk, getter, maker in (('VSlice', is_vec, vval, vvec), ('BSlice', is_bytes, bval, vbytes)):
        for n in ([0, 2] if quick else [0, 1, 3]):
            pcx = []
            v = sym_value('seq', n, n, pcx)
            b = sym_value('begin', 0, 0, pcx)
            e = sym_value('end', 0, 0, pcx)
            stack = [e, b, v]  # popped: vec, begin, end
            st, pc0, mach = setup(it, name, [], stack, pcx=pcx)
            inputs = {'begin': ival(b), 'end': ival(e)}

            def body(nm, s, failed, post, v=v, b=b, e=e, n=n, name=name, isk=isk, getter=getter, maker=maker):
                pcs = list(s.pc)
                rfail = z3.Or(z3.Not(isk(v)), z3.Not(is_int(b)), z3.Not(is_int(e)), z3.Not(u16ok(ival(b))), z3.Not(u16ok(ival(e))))
                chk.obligation('STEP/fails-exactly-when-specified/' + nm, pcs, failed == rfail, inputs, replay=None)
                els = getter(v)
                got = post.fields[0].fields
                if len(got) != 1:
                    chk.obligation('STEP/slice-result/' + nm, pcs + [z3.Not(rfail)], z3.BoolVal(False), inputs, replay=None)
                    return
                empty = z3.Or(z3.UGT(ival(e), B256(n)), z3.ULT(ival(e), ival(b)))
                conj = [z3.Implies(empty, val_eq(got[0], maker([])))]
                for lo in range(n + 1):
                    for hi in range(lo, n + 1):
                        conj.append(z3.Implies(z3.And(ival(b) == lo, ival(e) == hi), val_eq(got[0], maker(els[lo:hi]))))
                chk.obligation('STEP/slice-result/' + nm, pcs + [z3.Not(rfail)], z3.And(conj), inputs, replay=None,
                               bound='length %d, any begin / end' % n)
            each(chk, it, step_fn, st, mach, '%s/len%d' % (name, n), inputs, body)


def crypto_guards(chk, it, step_fn):
    # Hash(n): bytes longer than n fail; otherwise 32 bytes = blake3(b)
    for blen in (0, 2):
        pcx = []
        v = sym_value('msg', blen, 0, pcx)
        n = z3.BitVec('n', 16)
        st, pc0, mach = setup(it, 'Hash', [n], [v], pcx=pcx)
        inputs = {'n': n}

        def body(nm, s, failed, post, v=v, blen=blen):
            pcs = list(s.pc)
            rfail = z3.Or(z3.Not(is_bytes(v)), z3.UGT(bv(blen, 16), n))
            chk.obligation('STEP/fails-exactly-when-specified/' + nm, pcs, failed == rfail, inputs, replay=None)
            got = post.fields[0].fields
            h = M.hash_apply(s, 'single:bytes%d' % blen, bval(v)) if blen else M.hash_apply(s, 'single:bytes0', [])
            want = vbytes([z3.Extract(255 - 8 * i, 248 - 8 * i, h) for i in range(32)])
            claim = z3.And(z3.BoolVal(len(got) == 1), val_eq(got[0], want)) if got else z3.BoolVal(False)
            chk.obligation('STEP/pushes-the-32-byte-hash-of-the-operand/' + nm, pcs + [z3.Not(rfail)], claim, inputs, replay=None)
        each(chk, it, step_fn, st, mach, 'Hash/len%d' % blen, inputs, body)
    # SigEOk(n): pop message, public key, signature
    for (ml, kl, sl) in ((2, 32, 64), (2, 33, 64), (2, 31, 64), (2, 32, 65)):
        pcx = []
        msg, pk, sig = sym_value('msg', ml, 0, pcx), sym_value('pk', kl, 0, pcx), sym_value('sig', sl, 0, pcx)
        n = z3.BitVec('n', 16)
        st, pc0, mach = setup(it, 'SigEOk', [n], [sig, pk, msg], pcx=pcx)
        inputs = {'n': n}

        def body(nm, s, failed, post, msg=msg, pk=pk, sig=sig, ml=ml, kl=kl, sl=sl):
            pcs = list(s.pc)
            # DESIGN App. B: all three operands bytes (else fail); |msg| > n fails; |pk| > 32 -> 0; |pk| < 32 fails; |sig| > 64 -> 0
            types_ok = z3.And(is_bytes(msg), is_bytes(pk), is_bytes(sig))
            if kl > 32:
                rfail = z3.Not(types_ok)  # a type error fails whatever the lengths are
                zero = z3.BoolVal(True)
            elif kl < 32:
                rfail = z3.BoolVal(True)
                zero = z3.BoolVal(False)
            else:
                rfail = z3.Or(z3.Not(types_ok), z3.UGT(bv(ml, 16), n))
                zero = z3.BoolVal(sl > 64)
            inputs2 = dict(inputs, pk_len=bv(kl, 16), msg_tag=tag(msg), sig_tag=tag(sig), pk_tag=tag(pk))
            chk.obligation('STEP/sigeok-fails-exactly-when-specified/' + nm, pcs, failed == rfail, inputs2,
                           replay=lambda mo, msg=msg, pk=pk, sig=sig: replay_sigeok(chk, mo, msg, pk, sig, n),
                           bound='|msg|=%d |pk|=%d |sig|=%d' % (ml, kl, sl))
            got = post.fields[0].fields
            if got:
                is01 = z3.And(is_int(got[-1]), z3.Or(ival(got[-1]) == 0, ival(got[-1]) == 1))
                chk.obligation('STEP/pushes-0-or-1/' + nm, pcs + [z3.Not(rfail)], z3.And(is01, z3.Implies(zero, ival(got[-1]) == 0)),
                               inputs, replay=None)
        each(chk, it, step_fn, st, mach, 'SigEOk/%d-%d-%d' % (ml, kl, sl), inputs, body)


def control(chk, it, step_fn):
    for name in ('Jmp', 'Bez', 'Bnz'):
        pcx = []
        gap = z3.BitVec('gap', 16)
        top = sym_value('top', 1, 0, pcx)
        stack = [] if name == 'Jmp' else [top]
        st, pc0, mach = setup(it, name, [gap], stack, pcx=pcx)
        inputs = {'gap': gap}

        def body(nm, s, failed, post, name=name, pc0=pc0, top=top):
            pcs = list(s.pc)
            chk.obligation('STEP/never-fails-with-an-operand/' + nm, pcs, z3.Not(failed), inputs, replay=None)
            zero = z3.And(is_int(top), ival(top) == 0)
            taken = {'Jmp': z3.BoolVal(True), 'Bez': zero, 'Bnz': z3.Not(zero)}[name]
            want = z3.If(taken, pc0 + 1 + z3.ZeroExt(48, gap), pc0 + 1)
            chk.obligation('STEP/forward-relative-jump/' + nm, pcs, z3.And(post.fields[3] == want, z3.UGT(post.fields[3], pc0),
                                                                          z3.BoolVal(len(post.fields[0].fields) == 0)), inputs, replay=None,
                           bound='any u16 gap')
        each(chk, it, step_fn, st, mach, name, inputs, body)
    # Bez / Bnz on an empty stack fail
    for name in ('Bez', 'Bnz'):
        st, pc0, mach = setup(it, name, [z3.BitVec('gap', 16)], [])
        each(chk, it, step_fn, st, mach, name + '/empty', {}, lambda nm, s, failed, post: chk.obligation(
            'STEP/underflow-fails/' + nm, list(s.pc), failed, {}, replay=None))


def loops(chk, it, step_fn):
    """Loop(n, k): n = 0 skips k; n > 0 enters unless it would end after the enclosing loop; then update_pc_state"""
    for depth in (0, 1, 2):
        iters, k = z3.BitVec('iters', 16), z3.BitVec('body_len', 16)
        frames = [(z3.BitVec('f%d_begin' % d, 64), z3.BitVec('f%d_end' % d, 64), z3.BitVec('f%d_left' % d, 16)) for d in range(depth)]
        pcx = [z3.ULE(b, 1 << 32) for b, e, r in frames] + [z3.ULE(e, 1 << 32) for b, e, r in frames]
        st, pc0, mach = setup(it, 'Loop', [iters, k], [], frames=frames, pcx=pcx)
        inputs = {'iters': iters, 'body_len': k}
        for d, (b, e, r) in enumerate(frames):
            inputs.update({'f%d_begin' % d: b, 'f%d_end' % d: e, 'f%d_left' % d: r})

        def body(nm, s, failed, post, frames=frames, pc0=pc0):
            pcs = list(s.pc)
            pc1 = pc0 + 1
            this_end = pc1 + z3.ZeroExt(48, k) - 1
            if frames:
                rfail = z3.And(z3.UGT(iters, 0), z3.UGT(this_end, frames[-1][1]))
            else:
                rfail = z3.BoolVal(False)
            chk.obligation('STEP/improperly-nested-loop-fails/' + nm, pcs, failed == rfail, inputs,
                           replay=lambda mo, inputs=inputs: replay_nesting(chk, mo, inputs), bound='loop stack depth %d' % len(frames))
            # state before update_pc_state
            alts = []
            skip_pc = pc1 + z3.ZeroExt(48, k)
            for cond, pcx_, fr in ref_update_pc(skip_pc, list(frames)):
                alts.append((z3.And(iters == 0, cond), pcx_, fr))
            entered = list(frames) + [(pc1, this_end, iters - 1)]
            for cond, pcx_, fr in ref_update_pc(pc1, entered):
                alts.append((z3.And(z3.UGT(iters, 0), cond), pcx_, fr))
            conj = []
            for cond, pcw, fr in alts:
                conj.append(z3.Implies(cond, z3.And(post.fields[3] == pcw, frames_eq(post.fields[4], fr))))
            chk.obligation('STEP/loop-entry-and-bookkeeping/' + nm, pcs + [z3.Not(rfail)], z3.And(conj), inputs,
                           replay=lambda mo, inputs=inputs: replay_nesting(chk, mo, inputs),
                           bound='loop stack depth %d, all u16 counts / lengths' % len(frames))
        each(chk, it, step_fn, st, mach, 'Loop/depth%d' % depth, inputs, body)
    # bookkeeping after an ordinary instruction (Noop) for frame stacks of depth 1 and 2: the loop lemma itself
    for depth in (1, 2):
        frames = [(z3.BitVec('f%d_begin' % d, 64), z3.BitVec('f%d_end' % d, 64), z3.BitVec('f%d_left' % d, 16)) for d in range(depth)]
        pcx = [z3.ULE(b, 1 << 32) for b, e, r in frames] + [z3.ULE(e, 1 << 32) for b, e, r in frames]
        st, pc0, mach = setup(it, 'Noop', [], [], frames=frames, pcx=pcx)
        inputs = {}
        for d, (b, e, r) in enumerate(frames):
            inputs.update({'f%d_begin' % d: b, 'f%d_end' % d: e, 'f%d_left' % d: r})

        def body(nm, s, failed, post, frames=frames, pc0=pc0):
            conj = []
            for cond, pcw, fr in ref_update_pc(pc0 + 1, list(frames)):
                conj.append(z3.Implies(cond, z3.And(post.fields[3] == pcw, frames_eq(post.fields[4], fr))))
            chk.obligation('STEP/loop-lemma-after-an-instruction/' + nm, list(s.pc), z3.And(z3.Not(failed), z3.And(conj)), inputs,
                           replay=None, bound='loop stack depth %d' % len(frames))
        each(chk, it, step_fn, st, mach, 'Noop/frames%d' % depth, inputs, body)


def replay_nesting(chk, model, inputs):
    """whole programs around a Loop with the model's iteration count (and 1, 2, 3): improperly nested ones must fail, properly
    nested ones must run their bodies exactly the stated number of times"""
    ev = lambda t: harness.model_int(model, t)
    counts = sorted(set([max(min(ev(inputs['iters']), 50), 0), 1, 2, 3]))
    op = lambda v, *a: {'variant': v, 'args': [str(x) for x in a]}
    bad_shapes = lambda a, b: [
        ('inner loop overruns the outer body', [op('Loop', a, 2), op('Loop', b, 3), op('PushI', 1), op('PushI', 2), op('PushI', 3)]),
        ('loop overruns an enclosing single-instruction body', [op('Loop', a, 1), op('Loop', b, 2), op('PushI', 1), op('PushI', 2)])]
    for a in counts:
        for b in counts:
            if a == 0 or b == 0:
                continue
            for why, prog in bad_shapes(a, b):
                out = harness.run_replay([{'kind': 'c10_run', 'program': prog}], 'dev')[0]
                if 'error' in out:
                    raise Inconclusive('replay: ' + out['error'])
                if out.get('panicked') or not out.get('failed'):
                    return True, {'program': prog}, {'why': why + ' but execution did not fail', 'outer': a, 'inner': b, 'native': out}
    # properly nested: PushI 0; Loop(a, 3){ Loop(b, 2){ PushI 1; Add } } -> a*b
    for a in counts:
        for b in counts:
            prog = [op('PushI', 0), op('Loop', a, 3), op('Loop', b, 2), op('PushI', 1), op('Add')]
            out = harness.run_replay([{'kind': 'c10_run', 'program': prog}], 'dev')[0]
            if 'error' in out:
                raise Inconclusive('replay: ' + out['error'])
            top = (out.get('top') or {}).get('int')
            if out.get('panicked') or out.get('failed') or top != str(a * b):
                return True, {'program': prog}, {'why': 'nested counted loops ran %s times, expected %d' % (top, a * b), 'native': out}
    return False, {'programs': 'nesting family'}, {'all_consistent': True, 'counts': counts}


def result_lemma(chk, it):
    """run_to_end past the last instruction returns the value on top of the stack (or nothing)"""
    fn = find(it, 'run_to_end', 'executor.rs')
    for depth in (0, 2):
        G.reset()
        st = State()
        pcx = []
        vals = [sym_value('s%d' % k, 1, 1, pcx) for k in range(depth)]
        st.pc.extend(pcx)
        mach = machine(st, vals, MapM(), [], bv(0, 64), [])
        cell = st.alloc(mach)
        for idx, (s, o) in enumerate(it.exec_fn(st, fn, [Ptr(cell)])):
            nm = 'run_to_end/depth%d/%d' % (depth, idx)
            if isinstance(o, Panic):
                chk.obligation('PANIC/' + nm, list(s.pc), z3.BoolVal(False), {}, replay=None, kind='PANIC', describe=str(o))
                continue
            if depth == 0:
                claim = is_variant(o.v, 'None')
            else:
                claim = z3.And(is_variant(o.v, 'Some'), val_eq(o.v.payloads['Some'][0], vals[-1])) if 'Some' in o.v.payloads else z3.BoolVal(False)
            chk.obligation('RESULT/top-of-stack-or-nothing/' + nm, list(s.pc), claim, {}, replay=None)


# ---- native side ---------------------------------------------------------------------------------------------------

def replay_sigeok(chk, model, msg, pk, sig, n):
    req = {'kind': 'c10_step', 'variant': 'SigEOk', 'args': [str(harness.model_int(model, n))],
           'stack': [value_json(model, sig), value_json(model, pk), value_json(model, msg)]}
    out = harness.run_replay([req], 'dev')[0]
    if 'error' in out:
        raise Inconclusive('replay: ' + out['error'])
    type_error = any('bytes' not in x for x in req['stack'])
    bad = bool(out.get('panicked')) or (type_error and not out.get('failed'))
    return bad, req, dict(out, operand_type_error=type_error)


def value_json(model, v):
    ev = lambda t: harness.model_int(model, t)
    t = ev(disc_term(v))
    if t == 0:
        return {'int': str(ev(ival(v)))}
    if t == 1:
        return {'bytes': bytes(ev(b) for b in bval(v)).hex()}
    return {'vec': [value_json(model, x) for x in vval(v)]}


def replay_step(chk, model, name, imm, stack, rfail=None, want=None):
    """native step on the model's machine state; the expectation is the reference evaluated under the same model"""
    ev = lambda t: harness.model_int(model, t)
    args = []
    for x in imm:
        if isinstance(x, Agg):
            args.append(bytes(ev(b) for b in x.fields).hex())
        else:
            args.append(str(ev(x)))
    req = {'kind': 'c10_step', 'variant': name, 'args': args, 'stack': [value_json(model, v) for v in stack]}
    out = harness.run_replay([req], 'dev')[0]
    if 'error' in out:
        raise Inconclusive('replay: ' + out['error'])
    exp_fail = bool(ev(rfail)) if rfail is not None else None
    exp_stack = [value_json(model, v) for v in want] if (want is not None and exp_fail is False) else None
    bad = bool(out.get('panicked'))
    if exp_fail is not None and out.get('failed') != exp_fail:
        bad = True
    if exp_stack is not None and not out.get('failed') and out.get('stack') != exp_stack:
        bad = True
    return bad, req, dict(out, expected_failed=exp_fail, expected_stack=exp_stack)


def concrete_reference(name, args, stack):
    """independent concrete evaluation of the integer opcodes (used to judge native replays)"""
    M256 = (1 << 256) - 1
    st = list(stack)

    def pop_int():
        v = st.pop()
        if 'int' not in v:
            raise ValueError
        return int(v['int'])
    try:
        if name in ('Add', 'Sub', 'Mul', 'Div', 'Rem', 'And', 'Or', 'Xor', 'Eql', 'Lt', 'Gt', 'Shl', 'Shr', 'Exp'):
            if len(st) < 2:
                return (True, None)
            x, y = pop_int(), pop_int()
            if name == 'Exp':
                if y >= 1 << (int(args[0]) + 1):
                    return (True, None)
                r = pow(x, y, 1 << 256)
            elif name in ('Div', 'Rem'):
                if y == 0:
                    return (True, None)
                r = x // y if name == 'Div' else x % y
            else:
                r = {'Add': (x + y) & M256, 'Sub': (x - y) & M256, 'Mul': (x * y) & M256, 'And': x & y, 'Or': x | y, 'Xor': x ^ y,
                     'Eql': int(x == y), 'Lt': int(x < y), 'Gt': int(x > y), 'Shl': (x << (y % 256)) & M256, 'Shr': x >> (y % 256)}[name]
            st.append({'int': str(r)})
            return (False, st)
        if name == 'Not':
            if not st:
                return (True, None)
            st.append({'int': str(pop_int() ^ M256)})
            return (False, st)
    except ValueError:
        return (True, None)
    return None


def translation_validation(chk, it, step_fn):
    """concrete machine states through the real interpreter (native) and through the encoding: validates the U256 /
    CatVec / stack models"""
    rnd = random.Random(chk.seed)
    names = ['Add', 'Sub', 'Mul', 'Div', 'Rem', 'And', 'Or', 'Xor', 'Not', 'Eql', 'Lt', 'Gt', 'Shl', 'Shr', 'ItoB', 'BLength',
             'VLength', 'TypeQ', 'Dup', 'BAppend', 'VPush', 'BCons']
    cases = []
    for _ in range(24 if chk.tier == 'quick' else 150):
        name = rnd.choice(names)
        stack = []
        for _k in range(rnd.choice([1, 2, 3])):
            r = rnd.random()
            if r < 0.6:
                stack.append({'int': str(rnd.choice([0, 1, 2, 255, 256, (1 << 255), (1 << 256) - 1, rnd.getrandbits(256), rnd.getrandbits(16)]))})
            elif r < 0.85:
                stack.append({'bytes': bytes(rnd.getrandbits(8) for _ in range(rnd.choice([0, 1, 3]))).hex()})
            else:
                stack.append({'vec': [{'int': str(rnd.getrandbits(20))} for _ in range(rnd.choice([0, 2]))]})
        cases.append({'kind': 'c10_step', 'variant': name, 'args': [], 'stack': stack})
    outs = harness.run_replay(cases, 'dev')

    def to_val(j):
        if 'int' in j:
            return vint(B256(int(j['int'])))
        if 'bytes' in j:
            return vbytes([bv(b, 8) for b in bytes.fromhex(j['bytes'])])
        return vvec([to_val(x) for x in j['vec']])

    def from_val(v):
        t = v.disc if isinstance(v.disc, int) else simp(v.disc).as_long()
        if t == 0:
            return {'int': str(simp(ival(v)).as_long())}
        if t == 1:
            return {'bytes': bytes(simp(b).as_long() for b in bval(v)).hex()}
        return {'vec': [from_val(x) for x in vval(v)]}
    for case, out in zip(cases, outs):
        if 'error' in out:
            raise Inconclusive('replay: ' + out['error'])
        st, pc0, mach = setup(it, case['variant'], [], [to_val(x) for x in case['stack']])
        st.pc.append(pc0 == 0)
        cell, res = run_step(it, step_fn, st, mach)
        rets = [(s, o) for s, o in res if isinstance(o, Ret)]
        if len(rets) != 1 or len(res) != 1:
            raise Inconclusive('translation validation: concrete run of %s forked' % case['variant'])
        s, o = rets[0]
        failed = isinstance(o.v.disc, int) and o.v.disc == 0
        enc = {'failed': failed, 'stack': None if failed else [from_val(v) for v in s.heap[cell].fields[0].fields]}
        nat = {'failed': out['failed'], 'stack': None if out['failed'] else out['stack']}
        if enc != nat:
            raise Inconclusive('translation validation mismatch on %s: encoding %s, native %s' % (case, enc, nat))
        chk.tv += 1
        if len(chk.tv_samples) < 3:
            chk.tv_samples.append({'case': case, 'native': nat})
    it.overrides = []

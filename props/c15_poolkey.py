"""C15 (last clause) - "however a request spells the name of its pool, each side of a pool is only ever credited with, and
only ever pays out, its own denomination".

The settlement kernels read the pool entry at the tree key hash(stdcode(PoolKey)) = a function of PoolKey::to_bytes, and then
treat the entry's `lefts` as coins of `key.left()` and its `rights` as coins of `key.right()`.  The clause therefore holds
iff, over everything the request parser (PoolKey::from_bytes on the transaction's data) and the protocol's own constructor
(PoolKey::new) can return,
   (PK1) a key never has the same denomination on both sides (a coin of it would be credited to both reserves), and
   (PK2) two keys that land on the same tree entry (equal to_bytes) are the same (left, right) pair, and
   (PK3) no side is the `NewCustom` placeholder (no coin has that denomination: the coins credited to such a side are each
         creating transaction's own token, and what the side pays out is a coin of a denomination that does not exist).
This module executes the real MIR of melstructs' PoolKey::{from_bytes, to_bytes, to_canonical, new} and
Denom::{from_bytes, to_bytes} on every byte string:  lengths 0..=32 with symbolic bytes (one run per length), and the long form
(32 symbolic bytes + an arbitrary tail whose stdcode decoding is an arbitrary Result<(Denom, Denom)> -- every pair of
denominations is the decoding of some tail, A-CODEC).  The settlement kernels' model of the tree key (an injective function of
the (left, right) pair) is exactly what PK2 discharges (assume-guarantee)."""
import re
import z3

from mirsym import shapes as S, models as M
from mirsym.interp import (State, Agg, Ptr, Panic, Ret, UNIT, bv, Opaque, EnumV, Inconclusive, Unsupported, simp, G, val_eq,
                           is_variant, mk_ok, mk_err, fresh)
from mirsym import harness

DEN_NAMES = {0: 'MEL', 1: 'SYM', 2: 'ERG', 3: 'NEWCUSTOM'}


def _find(it, last, contains):
    c = [f for f in it.by_last.get(last, []) if f.crate == 'melstructs' and contains in f.name]
    if len(c) != 1:
        raise Inconclusive('expected one melstructs %s (%s), found %d' % (last, contains, len(c)))
    return c[0]


def _deref(itp, st, v):
    while isinstance(v, Ptr):
        v = itp.load(st, v)
    return v


def _bytes_fields(itp, st, v):
    """a byte string of concrete length as a python list of 8-bit terms"""
    v = _deref(itp, st, v)
    if isinstance(v, Agg) and v.ty == 'HashVal':
        v = v.fields[0]
    if isinstance(v, Agg):
        if len(v.fields) == 1 and z3.is_bv(v.fields[0]) and v.fields[0].size() == 256:
            v = v.fields[0]
        else:
            return list(v.fields)
    if isinstance(v, Opaque) and v.kind == 'str':
        d = v.data
        return [bv(b, 8) for b in (d if isinstance(d, (bytes, bytearray)) else str(d).encode())]
    if isinstance(v, (bytes, bytearray)):
        return [bv(b, 8) for b in v]
    if z3.is_bv(v) and v.size() == 256:
        return [simp(z3.Extract(255 - 8 * i, 248 - 8 * i, v)) for i in range(32)]
    raise Unsupported('byte string %r' % (v,))


def lex_lt(a, b):
    """lexicographic a < b on two byte lists of concrete (possibly different) lengths"""
    lt = z3.BoolVal(len(a) < len(b)) if len(a) != len(b) else z3.BoolVal(False)
    n = min(len(a), len(b))
    # a < b  iff  exists i < n: a[..i] == b[..i] and a[i] < b[i],  or  a[..n] == b[..n] and len a < len b
    res = lt
    for i in reversed(range(n)):
        res = z3.Or(z3.ULT(a[i], b[i]), z3.And(a[i] == b[i], res))
    return simp(res)


class LongKey:
    """32 prefix bytes followed by stdcode(value): what PoolKey::to_bytes builds for a pair without MEL"""
    def __init__(self, prefix, ser):
        self.prefix, self.ser = prefix, ser


def key_bytes_eq(a, b):
    """equality of two PoolKey::to_bytes results"""
    la, lb = isinstance(a, LongKey), isinstance(b, LongKey)
    if la and lb:
        return z3.And([x == y for x, y in zip(a.prefix, b.prefix)] + [a.ser.data.sym_eq(b.ser.data)])
    if la or lb:
        return z3.BoolVal(False)  # > 32 bytes (a serialized pair is never empty) against <= 32 bytes
    if len(a) != len(b):
        return z3.BoolVal(False)
    return z3.And([x == y for x, y in zip(a, b)]) if a else z3.BoolVal(True)


def _overrides(tag, decoded):
    """kernel-local models.  `decoded` collects the (ok, left, right) triples the tail decoder handed out"""

    def deserialize_pair(itp, st, args, ctx):
        k = len(decoded)
        holder = M.State_for_symvalue()
        l, lt, lh = S.sym_denom('%s_long%d_left' % (tag, k), holder.pc)
        r, rt, rh = S.sym_denom('%s_long%d_right' % (tag, k), holder.pc)
        for c in holder.pc:
            st.assume(c)
        ok = z3.Bool('%s_long%d_tail_decodes' % (tag, k))
        decoded.append((ok, (lt, lh), (rt, rh)))
        return EnumV('Result', z3.If(ok, bv(0, 8), bv(1, 8)), {'Ok': (Agg('tuple', [l, r]),), 'Err': (Opaque('DecodeError'),)})

    def slice_try_into_32(itp, st, args, ctx):
        bs = _bytes_fields(itp, st, args[0])
        if len(bs) == 32:
            return mk_ok(simp(z3.Concat(*bs)))
        return mk_err(Opaque('TryFromSliceError'))

    def bytes_from(itp, st, args, ctx):
        if not args:
            return Agg('Vec', [])
        return Agg('Vec', _bytes_fields(itp, st, args[0]))

    def bytes_cmp(itp, st, args, ctx):
        a, b = _bytes_fields(itp, st, args[0]), _bytes_fields(itp, st, args[1])
        return lex_lt(a, b) if ctx.callee.endswith('::lt') else lex_lt(b, a)

    def slice_ne_array(itp, st, args, ctx):
        a, b = _bytes_fields(itp, st, args[0]), _bytes_fields(itp, st, args[1])
        if len(a) != len(b):
            return z3.BoolVal(True)
        return simp(z3.Or([x != y for x, y in zip(a, b)]))

    def extend_from_slice(itp, st, args, ctx):
        cur = _deref(itp, st, args[0])
        add = _deref(itp, st, args[1])
        if isinstance(add, Opaque) and add.kind == 'Ser':
            itp.store(st, args[0], Opaque('LongKey', LongKey(list(cur.fields), add)))
        else:
            itp.store(st, args[0], Agg('Vec', list(cur.fields) + _bytes_fields(itp, st, add)))
        return UNIT

    def into_bytes(itp, st, args, ctx):
        return _deref(itp, st, args[0])

    return [(re.compile(r'^stdcode::deserialize::<\((transaction::)?Denom, (transaction::)?Denom\)>$'), deserialize_pair),
            (re.compile(r'^<&\[u8\] as TryInto<\[u8; 32\]>>::try_into$'), slice_try_into_32),
            (re.compile(r'^(bytes::)?Bytes::(from_static|copy_from_slice|new)$'), bytes_from),
            (re.compile(r'^<(bytes::)?Bytes as PartialOrd>::(lt|gt)$'), bytes_cmp),
            (re.compile(r'^<\[u8\] as PartialEq<\[u8; 32\]>>::ne$'), slice_ne_array),
            (re.compile(r'^Vec::<u8>::extend_from_slice$'), extend_from_slice),
            (re.compile(r'^<Vec<u8> as Into<(bytes::)?Bytes>>::into$'), into_bytes)]


def _denom_terms(d):
    """(tag term, hash term) of a Denom value as the MIR built it"""
    from mirsym.interp import disc_term
    t = disc_term(d)
    t = t if not isinstance(t, int) else bv(t, 8)
    h = bv(0, 256)
    if 'Custom' in d.payloads and d.payloads['Custom']:
        x = d.payloads['Custom'][0]
        while isinstance(x, Agg):
            x = x.fields[0]
        h = x
    if t.size() != 8:
        t = z3.Extract(7, 0, t)
    return simp(t), h


def _parse_runs(it, from_bytes, to_bytes, tag, shapes):
    """every returning Some(key) path of from_bytes over the given input shapes, each followed by to_bytes(key):
    [(shape name, path condition, key value, key bytes, inputs)]"""
    out = []
    npaths = 0
    for shape in shapes:
        st = State()
        decoded = []
        added = _overrides('%s_%s' % (tag, shape), decoded)
        it.overrides = added + list(it.overrides)
        try:
            if shape == 'long':
                data = [z3.BitVec('%s_long_b%d' % (tag, i), 8) for i in range(32)] + [z3.BitVec('%s_long_tail0' % tag, 8)]
            else:
                n = int(shape[3:])
                data = [z3.BitVec('%s_len%d_b%d' % (tag, n, i), 8) for i in range(n)]
            buf = st.alloc(Agg('Vec', list(data)))
            outs = it.exec_fn(st, from_bytes, [Ptr(buf)])
            for s, o in outs:
                npaths += 1
                if isinstance(o, Panic):
                    out.append((shape, list(s.pc), None, None, {'panic': str(o), 'data': data, 'decoded': list(decoded)}))
                    continue
                if not it.feasible(s, is_variant(o.v, 'Some')):
                    continue
                s.assume(is_variant(o.v, 'Some'))
                key = o.v.payloads['Some'][0]
                for s2, o2 in it.exec_fn(s.fork(), to_bytes, [key]):
                    if isinstance(o2, Panic):
                        out.append((shape, list(s2.pc), key, None, {'panic': 'to_bytes: ' + str(o2), 'data': data}))
                        continue
                    kb = _deref(it, s2, o2.v)
                    kb = kb.data if isinstance(kb, Opaque) and kb.kind == 'LongKey' else list(kb.fields)
                    out.append((shape, list(s2.pc), key, kb, {'data': data, 'decoded': list(decoded)}))
        finally:
            it.overrides = [o_ for o_ in it.overrides if o_ not in added]
    return out, npaths


def _new_runs(it, new_fn, to_bytes, tag):
    """PoolKey::new(x, y) for arbitrary denominations (what create_builtins / pegging / the subsidy use)"""
    st = State()
    added = _overrides(tag + '_new', [])
    it.overrides = added + list(it.overrides)
    out = []
    try:
        x, xt, xh = S.sym_denom(tag + '_new_x', st.pc)
        y, yt, yh = S.sym_denom(tag + '_new_y', st.pc)
        for s, o in it.exec_fn(st, new_fn, [x, y]):
            if isinstance(o, Panic):
                continue  # PoolKey::new panics on equal denominations by contract; melstf only calls it with constants
            key = o.v
            for s2, o2 in it.exec_fn(s.fork(), to_bytes, [key]):
                if isinstance(o2, Panic):
                    continue
                kb = _deref(it, s2, o2.v)
                kb = kb.data if isinstance(kb, Opaque) and kb.kind == 'LongKey' else list(kb.fields)
                out.append(('new', list(s2.pc), key, kb, {'data': None, 'decoded': []}))
    finally:
        it.overrides = [o_ for o_ in it.overrides if o_ not in added]
    return out


def parsers_in_use(it, from_bytes):
    """the functions melstf's settlement code uses to turn request data into a pool key: every melstf function of type
    (&[u8]) -> Option<PoolKey> that calls PoolKey::from_bytes is a parser of its own; if anything else in melstf (a selector
    closure, extract_pool_keys_sorted ...) calls PoolKey::from_bytes directly, the raw from_bytes is in use as well"""
    rx = re.compile(r'PoolKey::from_bytes$')
    wrappers, raw_callers = [], []
    for name, fs in it.funcs.items():
        for f in fs:
            if f.crate != 'melstf' or 'verif' in f.name:
                continue
            raw = getattr(f, '_raw', None) or {}
            if not any('PoolKey::from_bytes(' in t for b in raw.values() for t in b.stmts):
                continue
            sig_ok = (f.nparams == 1 and [t.replace(' ', '') for t in f.param_types] == ['&[u8]']
                      and re.sub(r'\s|std::option::|melstructs::', '', f.ret_type) == 'Option<PoolKey>')
            (wrappers if sig_ok else raw_callers).append(f)
    out = [('melstf::' + f.name.split('::')[-1], f) for f in wrappers]
    if raw_callers or not wrappers:
        out.append(('PoolKey::from_bytes', from_bytes))
    return out, [f.name[-60:] for f in raw_callers]


def poolkey_kernel(chk, it):
    from_bytes = _find(it, 'from_bytes', 'melswap.rs')
    to_bytes = _find(it, 'to_bytes', 'melswap.rs')
    new_fn = _find(it, 'new', 'melswap.rs')
    old_join = it.join_rx
    it.join_rx = None
    G.reset()
    chk.assume_note('PoolKey kernel: the request data is an arbitrary byte string, split by length: 0..=32 bytes (all bytes symbolic, '
                    'one run per length) and longer than 32 (32 symbolic bytes, then a tail whose stdcode decoding as (Denom, Denom) '
                    'is an arbitrary Result: every pair of denominations, including equal ones and NewCustom, is the decoding of some tail); '
                    'stdcode::serialize of the pair is injective; a pool entry is addressed by a hash of PoolKey::to_bytes (A-HASH)')
    shapes = ['len%d' % n for n in range(0, 33)] + ['long']
    parsers, raw_callers = parsers_in_use(it, from_bytes)
    chk.extra['poolkey_parsers_in_use'] = [n_ for n_, _ in parsers]
    chk.extra['poolkey_direct_callers_of_from_bytes'] = raw_callers
    runs_a, runs_b, npaths = [], [], 0
    try:
        for pi, (pname, pf) in enumerate(parsers):
            ra, np_ = _parse_runs(it, pf, to_bytes, 'A%d' % pi, shapes)
            rb, _ = _parse_runs(it, pf, to_bytes, 'B%d' % pi, shapes)
            runs_a += [(pname + ':' + r[0],) + r[1:] for r in ra]
            runs_b += [(pname + ':' + r[0],) + r[1:] for r in rb]
            npaths += np_
        runs_b += _new_runs(it, new_fn, to_bytes, 'B')
    finally:
        it.join_rx = old_join
    chk.extra['poolkey_parse_paths'] = npaths
    some_a = [r for r in runs_a if r[2] is not None and r[3] is not None]
    some_b = [r for r in runs_b if r[2] is not None and r[3] is not None]
    if len(some_a) < 6:
        raise Inconclusive('PoolKey::from_bytes reached only %d parsing paths' % len(some_a))
    for shape, pc, key, kb, info in runs_a:
        if 'panic' in info:
            pin = dict(('b%d' % i, b) for i, b in enumerate(info['data'][:33]))
            for k_, (ok_, (lt_, lh_), (rt_, rh_)) in enumerate(info.get('decoded') or []):
                pin.update({'dec%d_left_tag' % k_: lt_, 'dec%d_left_hash' % k_: lh_, 'dec%d_right_tag' % k_: rt_, 'dec%d_right_hash' % k_: rh_})
            chk.obligation('PANIC/poolkey-parse/%s' % shape, pc, z3.BoolVal(False), pin, kind='PANIC', describe=info['panic'],
                           replay=lambda mo, info=info, pin=pin, shape=shape: replay_parse_panic(mo, info, pin, shape))
    # vacuity: the short form parses, the long form parses, both reversed spellings are reachable
    chk.cover_any('poolkey/short-form-parses', [(pc, None) for sh, pc, k, kb, i in some_a if sh.endswith(':len1')])
    chk.cover_any('poolkey/long-form-parses', [(pc, None) for sh, pc, k, kb, i in some_a if sh.endswith(':long')])
    # PK1
    for idx, (shape, pc, key, kb, info) in enumerate(some_a):
        lt, lh = _denom_terms(key.fields[0])
        rt, rh = _denom_terms(key.fields[1])
        inputs = {'left_tag': lt, 'left_hash': lh, 'right_tag': rt, 'right_hash': rh, 'long_form': bv(1 if shape.endswith('long') else 0, 8)}
        chk.obligation('FUNC/a-parsed-pool-key-has-two-different-sides/%s/%d' % (shape, idx), pc,
                       z3.Not(val_eq(key.fields[0], key.fields[1])), inputs,
                       replay=lambda mo, inputs=inputs: replay_same_sides(mo, inputs),
                       bound='every byte string (see assumptions)')
    # PK3
    for idx, (shape, pc, key, kb, info) in enumerate(some_a):
        lt, lh = _denom_terms(key.fields[0])
        rt, rh = _denom_terms(key.fields[1])
        inputs = {'left_tag': lt, 'left_hash': lh, 'right_tag': rt, 'right_hash': rh, 'long_form': bv(1 if shape.endswith('long') else 0, 8)}
        chk.obligation('FUNC/a-pool-side-is-a-denomination-coins-can-have/%s/%d' % (shape, idx), pc + [z3.Not(val_eq(key.fields[0], key.fields[1]))],
                       z3.And(lt != bv(3, 8), rt != bv(3, 8)), inputs,
                       replay=lambda mo, inputs=inputs: replay_placeholder_side(mo, inputs),
                       bound='every byte string (see assumptions)')
    # PK2 (for keys that satisfy PK1 and PK3, which have obligations of their own)
    def proper(k):
        lt, _ = _denom_terms(k.fields[0])
        rt, _ = _denom_terms(k.fields[1])
        return [z3.Not(val_eq(k.fields[0], k.fields[1])), lt != bv(3, 8), rt != bv(3, 8)]
    n = 0
    for ia, (sa, pca, ka, kba, infa) in enumerate(some_a):
        for ib, (sb, pcb, kb_, kbb, infb) in enumerate(some_b):
            same_entry = simp(key_bytes_eq(kba, kbb))
            if z3.is_false(same_entry):
                continue
            alt, alh = _denom_terms(ka.fields[0])
            art, arh = _denom_terms(ka.fields[1])
            blt, blh = _denom_terms(kb_.fields[0])
            brt, brh = _denom_terms(kb_.fields[1])
            inputs = {'a_left_tag': alt, 'a_left_hash': alh, 'a_right_tag': art, 'a_right_hash': arh,
                      'b_left_tag': blt, 'b_left_hash': blh, 'b_right_tag': brt, 'b_right_hash': brh,
                      'a_long_form': bv(1 if sa.endswith('long') else 0, 8), 'b_long_form': bv(1 if sb.endswith('long') else 0, 8),
                      'b_from_new': bv(1 if sb == 'new' else 0, 8),
                      'a_sides_differ': z3.If(val_eq(ka.fields[0], ka.fields[1]), bv(0, 8), bv(1, 8)),
                      'b_sides_differ': z3.If(val_eq(kb_.fields[0], kb_.fields[1]), bv(0, 8), bv(1, 8))}
            n += 1
            chk.obligation('FUNC/one-pool-entry-one-pair-of-sides/%s/%d-vs-%s/%d' % (sa, ia, sb, ib), pca + pcb + [same_entry] + proper(ka) + proper(kb_),
                           val_eq(ka, kb_), inputs, replay=lambda mo, inputs=inputs: replay_aliasing(mo, inputs),
                           bound='two arbitrary spellings (or one spelling and PoolKey::new) addressing the same tree entry')
    chk.extra['poolkey_entry_pairs'] = n
    if n < 4:
        raise Inconclusive('only %d pairs of spellings can address the same entry: the kernel is vacuous' % n)


# ---- native replay ----------------------------------------------------------------------------------------------------

def _denom_of_model(tag, h):
    tag = int(tag)
    if tag in DEN_NAMES:
        return DEN_NAMES[tag]
    return {'custom': {'hex': '%064x' % int(h)}}


def _denom_bytes_hex(d):
    if isinstance(d, dict):
        return d['custom']['hex']
    return {'MEL': '6d', 'SYM': '73', 'ERG': '64', 'NEWCUSTOM': ''}[d]


def _ser_denom_hex(d):
    b = _denom_bytes_hex(d)
    return '%02x%s' % (len(b) // 2, b)


def spelling_hex(long_form, left, right):
    """request data that PoolKey::from_bytes turns into (left, right): the long form spells both sides in the given order"""
    if long_form:
        return '00' * 32 + _ser_denom_hex(left) + _ser_denom_hex(right)
    other = right if left == 'MEL' else left
    return _denom_bytes_hex(other)


def _canon(l, r):
    return (l, r) if bytes.fromhex(_denom_bytes_hex(l)) < bytes.fromhex(_denom_bytes_hex(r)) else (r, l)


def run_spelled_swap(data_hex, pay, pool_l, pool_r, L, R, v):
    """one swap request paying `v` of `pay`, its data spelled `data_hex`, against the pool PoolKey::new(pool_l, pool_r) with
    reserves (L of the canonical left, R of the canonical right); returns the native observation"""
    raw = lambda k: {'txhash': {'hex': ('%02x' % k) * 32}, 'index': 0}
    coins = [{'id': raw(0x21), 'covhash': {'covhash_of': 'true'}, 'value': str(v), 'denom': pay, 'adata': '', 'height': 0},
             {'id': raw(0x31), 'covhash': {'covhash_of': 'true'}, 'value': '10', 'denom': 'MEL', 'adata': '', 'height': 0}]
    txs = [{'name': 'a', 'kind': 0x51, 'inputs': [raw(0x21), raw(0x31)], 'fee': '0', 'covenants': ['true'], 'data': data_hex,
            'outputs': [{'covhash': {'covhash_of': 'true'}, 'value': str(v), 'denom': pay, 'adata': ''},
                        {'covhash': {'covhash_of': 'true'}, 'value': '10', 'denom': 'MEL', 'adata': '00'}]}]
    sc = {'kind': 'batch', 'network': 2, 'height': 5, 'fee_pool': '0', 'tips': '0', 'fee_multiplier': '0', 'dosc_speed': '1000000',
          'coins': coins, 'txs': txs, 'probes': [{'txhash': {'txhash_of': 'a'}, 'index': 0}],
          'pools': [{'left': pool_l, 'right': pool_r, 'lefts': str(L), 'rights': str(R), 'liqs': str(L)}], 'melmint_only': 'swaps'}
    out = harness.run_replay([sc], 'dev')[0]
    if 'error' in out or 'unrealizable' in out:
        raise Inconclusive('replay: %s' % str(out)[:300])
    run = out['runs'][0]
    if run.get('result') != 'Ok':
        raise Inconclusive('replay: the swap batch itself was rejected: %s' % run.get('result'))
    return sc, run.get('melmint', {})


def _norm_denom(d):
    if isinstance(d, dict) and 'custom' in d and not isinstance(d['custom'], dict):
        return {'custom': {'hex': d['custom']}}
    return d


def replay_aliasing(model, inputs):
    """spelling A of the model against the pool that spelling B (or the canonical constructor) addresses: a coin of A's left
    denomination is paid in; natively, which reserve grows and what is paid out?  Reference: the reserve whose denomination
    (in the pool's canonical orientation) is the coin's grows by the amount, the payout is of the other side's denomination
    and comes out of the other reserve."""
    ev = lambda k: harness.model_int(model, inputs[k])
    last = None
    for who in ('a', 'b'):
        if who == 'b' and ev('b_from_new'):
            break  # PoolKey::new is the canonical constructor: only the spelled key can be the odd one
        l = _denom_of_model(ev(who + '_left_tag'), ev(who + '_left_hash'))
        r = _denom_of_model(ev(who + '_right_tag'), ev(who + '_right_hash'))
        last = _replay_spelling(l, r, bool(ev(who + '_long_form')))
        if last[0]:
            return last
    return last


def _replay_spelling(a_l, a_r, long_form):
    if a_l == a_r or 'NEWCUSTOM' in (a_l, a_r):
        raise Inconclusive('aliasing counterexample outside the obligation (equal sides / placeholder side)')
    cl, cr = _canon(a_l, a_r)
    L, R, v = 1_000_000, 100_000_000, 1_000_000
    data = spelling_hex(long_form, a_l, a_r)
    sc, mm = run_spelled_swap(data, a_l, cl, cr, L, R, v)
    if mm.get('panicked'):
        return True, sc, {'why': 'panic in process_swaps: ' + mm.get('msg', '')[-200:]}
    from props.c15 import ref_swaps
    pays_left = a_l == cl
    want, L2, R2 = ref_swaps(L, R, [(v, pays_left)])
    want_den = cr if pays_left else cl
    pool = (mm.get('pools') or [{}])[0]
    probe = (mm.get('probes') or [None])[0]
    got = (int(pool.get('lefts', -1)), int(pool.get('rights', -1)))
    obs = {'request_data': data, 'paid': '%d of %s' % (v, a_l), 'pool': '%s/%s with reserves %d/%d' % (cl, cr, L, R),
           'reserves_after': got, 'reserves_reference': (L2, R2), 'coin_after': probe,
           'coin_reference': {'denom': want_den, 'value': want[0]}}
    if probe is None:
        return True, sc, dict(obs, why='the request coin vanished')
    transformed = _norm_denom(probe['denom']) != a_l or int(probe['value']) != v
    if not transformed and got == (L, R):
        return False, sc, dict(obs, why='the request was not settled at all')
    bad = got != (L2, R2) or _norm_denom(probe['denom']) != want_den or int(probe['value']) != want[0]
    return bad, sc, dict(obs, why='settled against the wrong sides' if bad else 'consistent with the reference')


def replay_same_sides(model, inputs):
    """a long-form spelling (X, X): deposit X twice to create the pool, then swap a coin of X into it: it is counted on both
    sides.  Native check of the first half: the deposit request is accepted and creates a pool whose two reserves are of one
    denomination"""
    ev = lambda k: harness.model_int(model, inputs[k])
    x = _denom_of_model(ev('left_tag'), ev('left_hash'))
    if x == 'NEWCUSTOM':
        raise Inconclusive('(NewCustom, NewCustom): no coin of that denomination can exist, the key is harmless')
    raw = lambda k: {'txhash': {'hex': ('%02x' % k) * 32}, 'index': 0}
    data = spelling_hex(True, x, x)
    v = 1000
    coins = [{'id': raw(0x21), 'covhash': {'covhash_of': 'true'}, 'value': str(2 * v), 'denom': x, 'adata': '', 'height': 0},
             {'id': raw(0x31), 'covhash': {'covhash_of': 'true'}, 'value': '10', 'denom': 'MEL', 'adata': '', 'height': 0}]
    txs = [{'name': 'a', 'kind': 0x52, 'inputs': [raw(0x21), raw(0x31)], 'fee': '0', 'covenants': ['true'], 'data': data,
            'outputs': [{'covhash': {'covhash_of': 'true'}, 'value': str(v), 'denom': x, 'adata': ''},
                        {'covhash': {'covhash_of': 'true'}, 'value': str(v), 'denom': x, 'adata': '01'},
                        {'covhash': {'covhash_of': 'true'}, 'value': '10', 'denom': 'MEL', 'adata': '02'}]}]
    sc = {'kind': 'batch', 'network': 2, 'height': 5, 'fee_pool': '0', 'tips': '0', 'fee_multiplier': '0', 'dosc_speed': '1000000',
          'coins': coins, 'txs': txs, 'probes': [{'txhash': {'txhash_of': 'a'}, 'index': 0}, {'txhash': {'txhash_of': 'a'}, 'index': 1}],
          'pools': [], 'melmint_only': 'deposits'}
    out = harness.run_replay([sc], 'dev')[0]
    if 'error' in out or 'unrealizable' in out:
        raise Inconclusive('replay: %s' % str(out)[:300])
    run = out['runs'][0]
    if run.get('result') != 'Ok':
        raise Inconclusive('replay: the deposit batch itself was rejected: %s' % run.get('result'))
    mm = run.get('melmint', {})
    if mm.get('panicked'):
        return True, sc, {'why': 'panic in process_deposits: ' + mm.get('msg', '')[-200:]}
    pools = mm.get('pools') or []
    p0 = (mm.get('probes') or [None])[0]
    created = any(int(p['lefts']) == v and int(p['rights']) == v for p in pools)
    settled = p0 is not None and _norm_denom(p0['denom']) != x
    return bool(created and settled), sc, {'request_data': data, 'pools_after': pools, 'first_output_after': p0,
                                            'why': 'a pool with %s on both sides was created from the request' % (x,) if created and settled else 'the request was not settled'}


def replay_placeholder_side(model, inputs):
    """a LiqDeposit whose data spells a pool with the NewCustom placeholder on one side and whose matching output creates a
    new token: natively, is the request settled (a pool with a placeholder side now exists and every later transaction whose
    data spells it -- the empty string spells NewCustom/MEL -- is swapped against it)?"""
    ev = lambda k: harness.model_int(model, inputs[k])
    l, r = _denom_of_model(ev('left_tag'), ev('left_hash')), _denom_of_model(ev('right_tag'), ev('right_hash'))
    if 'NEWCUSTOM' not in (l, r) or l == r:
        raise Inconclusive('placeholder-side counterexample without exactly one NewCustom side')
    raw = lambda k: {'txhash': {'hex': ('%02x' % k) * 32}, 'index': 0}
    data = spelling_hex(bool(ev('long_form')), l, r)
    v = 1000
    other = r if l == 'NEWCUSTOM' else l
    coins = [{'id': raw(0x21), 'covhash': {'covhash_of': 'true'}, 'value': str(v), 'denom': other, 'adata': '', 'height': 0},
             {'id': raw(0x31), 'covhash': {'covhash_of': 'true'}, 'value': '10', 'denom': 'MEL', 'adata': '', 'height': 0}]
    outs = [{'covhash': {'covhash_of': 'true'}, 'value': str(v), 'denom': l, 'adata': ''},
            {'covhash': {'covhash_of': 'true'}, 'value': str(v), 'denom': r, 'adata': '01'},
            {'covhash': {'covhash_of': 'true'}, 'value': '10', 'denom': 'MEL', 'adata': '02'}]
    txs = [{'name': 'a', 'kind': 0x52, 'inputs': [raw(0x21), raw(0x31)], 'fee': '0', 'covenants': ['true'], 'data': data, 'outputs': outs}]
    sc = {'kind': 'batch', 'network': 2, 'height': 5, 'fee_pool': '0', 'tips': '0', 'fee_multiplier': '0', 'dosc_speed': '1000000',
          'coins': coins, 'txs': txs, 'probes': [{'txhash': {'txhash_of': 'a'}, 'index': 0}, {'txhash': {'txhash_of': 'a'}, 'index': 1}],
          'pools': [], 'melmint_only': 'deposits'}
    out = harness.run_replay([sc], 'dev')[0]
    if 'error' in out or 'unrealizable' in out:
        raise Inconclusive('replay: %s' % str(out)[:300])
    run = out['runs'][0]
    if run.get('result') != 'Ok':
        raise Inconclusive('replay: the deposit batch itself was rejected: %s' % run.get('result'))
    mm = run.get('melmint', {})
    if mm.get('panicked'):
        return True, sc, {'why': 'panic in process_deposits: ' + mm.get('msg', '')[-200:]}
    pools = mm.get('pools') or []
    created = any(int(p['lefts']) == v and int(p['rights']) == v for p in pools)
    return bool(created), sc, {'request_data': data, 'sides': [l, r], 'pools_after': pools, 'outputs_after': mm.get('probes'),
                               'why': 'a pool with the NewCustom placeholder as one side was created from the request' if created else 'the request was not settled'}


def replay_parse_panic(model, info, pin, shape):
    """an ordinary payment whose data is the byte string of the model (for the long form: 32 zero bytes and the stdcode of the pair
    the model's tail decodes to): natively, does the swap phase of sealing panic?"""
    ev = lambda k: harness.model_int(model, pin[k])
    if shape.endswith('long'):
        if 'dec0_left_tag' not in pin:
            raise Inconclusive('panic on the long form before its tail was decoded: no native spelling')
        l = _denom_of_model(ev('dec0_left_tag'), ev('dec0_left_hash'))
        r = _denom_of_model(ev('dec0_right_tag'), ev('dec0_right_hash'))
        data = spelling_hex(True, l, r)
    else:
        n = int(shape.split('len')[-1])
        data = ''.join('%02x' % ev('b%d' % i) for i in range(n))
    raw = lambda k: {'txhash': {'hex': ('%02x' % k) * 32}, 'index': 0}
    coins = [{'id': raw(0x21), 'covhash': {'covhash_of': 'true'}, 'value': '1010', 'denom': 'MEL', 'adata': '', 'height': 0}]
    txs = [{'name': 'a', 'kind': 0x00, 'inputs': [raw(0x21)], 'fee': '0', 'covenants': ['true'], 'data': data,
            'outputs': [{'covhash': {'covhash_of': 'true'}, 'value': '1000', 'denom': 'MEL', 'adata': ''},
                        {'covhash': {'covhash_of': 'true'}, 'value': '10', 'denom': 'MEL', 'adata': '00'}]}]
    sc = {'kind': 'batch', 'network': 2, 'height': 5, 'fee_pool': '0', 'tips': '0', 'fee_multiplier': '0', 'dosc_speed': '1000000',
          'coins': coins, 'txs': txs, 'probes': [], 'pools': [], 'melmint_only': 'swaps'}
    out = harness.run_replay([sc], 'dev')[0]
    if 'error' in out or 'unrealizable' in out:
        raise Inconclusive('replay: %s' % str(out)[:300])
    run = out['runs'][0]
    if run.get('result') != 'Ok':
        raise Inconclusive('replay: the payment itself was rejected: %s' % run.get('result'))
    mm = run.get('melmint', {})
    return bool(mm.get('panicked')), sc, {'request_data': data, 'panicked': mm.get('panicked'), 'msg': (mm.get('msg') or '')[-200:]}

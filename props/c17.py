"""C17 - the fee multiplier moves only by the bounded, specified step per block."""
import re
import z3

from mirsym import shapes as S
from mirsym.interp import State, Agg, Ptr, Panic, Ret, UNINIT, UNIT, bv, mk_some, mk_none, Inconclusive
from mirsym import harness

TWO70 = 1 << 70
MAX_H = 2_000_000


def tip901_spec(netd, h):
    """TIP-901 activation written from tip_heights.rs' documented constant (mainnet 42700; testnet
    switches every TIP on at height 500; custom networks have every TIP on)."""
    return z3.If(netd == 0xff, z3.UGE(h, 42700), z3.If(netd == 0x01, z3.UGE(h, 500), z3.BoolVal(True)))


def spec_after(m, d, after901):
    """m' = m + trunc(max(m>>7, 2 if TIP-901) * d / 128) as an unbounded integer, carried in 160 bits.
    The magnitude max(..)*|d| is < 2^121 * 2^7 = 2^128, so computing it in 128 bits is exact."""
    W = 160
    mv = z3.LShR(m, 7)
    mv = z3.If(after901, z3.If(z3.ULT(mv, 2), z3.BitVecVal(2, 128), mv), mv)
    neg = d < 0
    absd = z3.ZeroExt(120, z3.If(neg, -d, d))  # |d| <= 128 fits 8 unsigned bits
    mag = z3.ZeroExt(W - 128, z3.LShR(mv * absd, 7))  # trunc toward zero of the signed quotient = sign * floor(|.|/128)
    mm = z3.ZeroExt(W - 128, m)
    return z3.If(neg, mm - mag, mm + mag), mag


def run(chk):
    it = chk.load()
    S.check_layout(it.adts)
    chk.bounds = {'fee_multiplier': 'all u128 for panic-freedom; [0, 2^70] for the exact-step obligation',
                  'delta': 'all i8', 'network': 'all 9 NetIDs', 'height': '[0, %d]' % MAX_H}
    chk.assume_note('preseal_melmint and apply_tip_909 are replaced by no-op events in seal() for this check; '
                    'their frame condition on fee_multiplier is discharged by the melmint checks (C15/C16)')
    pc0 = []
    net, netd = S.sym_netid('network', pc0)
    h = z3.BitVec('height', 64)
    pc0.append(z3.ULE(h, MAX_H))
    m = z3.BitVec('m', 128)
    d = z3.BitVec('d', 8)
    has_action = z3.Bool('has_action')
    inputs = {'m': m, 'd': d, 'network': netd, 'height': h, 'has_action': has_action}

    # seal() with melmint / TIP-909 / reward-coin insertion abstracted as events
    def ov_identity(itp, st, args, ctx):
        st.events.append(('preseal_melmint',))
        return args[0]

    def ov_unit(name):
        def f(itp, st, args, ctx):
            st.events.append((name,))
            return UNIT
        return f

    def ov_count(itp, st, args, ctx):
        return bv(3, 64)

    it.overrides = [
        (re.compile(r'preseal_melmint'), ov_identity),
        (re.compile(r'apply_tip_909$'), ov_unit('apply_tip_909')),
        (re.compile(r'collect_proposer_action_fee$'), ov_unit('collect_fee')),
        (re.compile(r'val_iter$'), lambda i, s, a, c: UNIT),
        (re.compile(r'Iterator>::count$'), ov_count),
    ]
    it.merge_rx = re.compile(r'::tip_condition$')
    seal = it.by_last['seal'][0]
    st = State()
    st.pc = list(pc0)
    state = S.unsealed(network=net, height=S.blockheight(h), fee_multiplier=m, fee_pool=S.coinvalue(z3.BitVec('fp', 128)),
                       tips=S.coinvalue(z3.BitVec('tips', 128)), pools=Agg('SmtMapping', []))
    action = Agg('ProposerAction', [d, S.address(z3.BitVec('dest', 256))])
    opt = S.EnumV('Option', z3.If(has_action, bv(1, 8), bv(0, 8)), {'Some': (action,), 'None': ()})
    outs = it.exec_fn(st, seal, [state, opt])
    after901 = tip901_spec(netd, h)
    exp, q = spec_after(m, d, after901)
    n_ret = n_panic = 0
    dsplit = (d, [bv(x, 8) for x in range(-128, 128)])
    for i, (s, o) in enumerate(outs):
        if isinstance(o, Panic):
            n_panic += 1
            # PANIC obligation: this path must be infeasible
            ok = chk.obligation('PANIC/%s' % o.where.split('::')[-1].replace(' ', '_') + '/%d' % i, s.pc, z3.BoolVal(False),
                                inputs, replay=lambda mo: replay(chk, mo, inputs, 'panic'),
                                bound='m: all u128, d: all i8, all networks, height<=%d' % MAX_H, kind='PANIC',
                                describe=o.msg)
            continue
        n_ret += 1
        sealed = o.v
        m2 = sealed.fields[0].fields[6]
        # FUNC: exact step; None leaves it unchanged; never wraps (saturates at 0 / u128::MAX instead).
        # For m <= 2^70 the upper saturation is unreachable, so this is the exact-step claim of the property there.
        tip = chk.implied(s.pc, after901)
        a901 = after901 if tip is None else z3.BoolVal(tip)
        exp, _ = spec_after(m, d, a901)
        W = 160
        full = z3.If(has_action, z3.Or(z3.ZeroExt(32, m2) == exp,
                                      z3.And(exp < 0, m2 == 0),
                                      z3.And(exp >= z3.BitVecVal(1 << 128, W), m2 == bv((1 << 128) - 1, 128))), m2 == m)
        chk.obligation('FUNC/step-nowrap/%d' % i, s.pc, full, inputs, replay=lambda mo: replay(chk, mo, inputs, 'value'),
                       bound='m: all u128 (exact step for m <= 2^70), d: all i8, all networks, height<=%d' % MAX_H,
                       kind='FUNC', split=dsplit)
        inr = z3.ULE(m, TWO70)
        chk.obligation('FUNC/in-range-no-saturation/%d' % i, s.pc + [inr, has_action, z3.Or(z3.UGE(m, 2), d >= 0)],
                       z3.ZeroExt(32, m2) == exp, inputs, replay=lambda mo: replay(chk, mo, inputs, 'value'),
                       bound='2 <= m <= 2^70', kind='FUNC', split=dsplit)
        # wiring events: melmint ran exactly once before the action
        if s.events[:1] != [('preseal_melmint',)]:
            raise Inconclusive('seal() no longer runs preseal_melmint first: %r' % (s.events,))
        chk.sample({'path': i, 'events': s.events, 'multiplier_after': str(z3.simplify(m2))[:160]})
    chk.paths = len(outs)
    # bounded movement |m' - m| <= max(m/128, 2): follows from FUNC/step (m' = m +- mag) and the arithmetic lemma
    # floor(v * a / 128) <= v for v >= 0, 0 <= a <= 128, discharged here over the integers for every a.
    v = z3.Int('v')
    lemma = z3.And([(v * a) / 128 <= v for a in range(0, 129)])
    chk.obligation('FUNC/bounded-lemma', [v >= 0], lemma, {'v': v}, replay=None,
                   bound='all integers v >= 0, every |delta| in 0..128', kind='FUNC')
    # vacuity: a subtracting step, an adding step, the floor-of-2 case, no action, pre-901
    base = pc0
    chk.cover('subtracting step reachable', base + [has_action, d < 0, z3.UGT(m, 1000)])
    chk.cover('floor-of-2 reachable', base + [has_action, after901, z3.ULT(m, 256)])
    chk.cover('pre-TIP-901 reachable', base + [z3.Not(after901)])
    if n_ret == 0:
        raise Inconclusive('no returning path through seal()')
    # translation validation: concrete vectors through the real build and through the encoding
    tv(chk, it, seal)


def concrete_after(m, d, after901):
    mv = m >> 7
    if after901:
        mv = max(mv, 2)
    prod = mv * d
    q = abs(prod) // 128
    q = q if prod >= 0 else -q
    return m + q


def replay(chk, model, inputs, what):
    mv = harness.model_int(model, inputs['m'])
    dv = harness.model_int(model, inputs['d'], signed=True)
    net = harness.model_int(model, inputs['network'])
    hv = harness.model_int(model, inputs['height'])
    act = harness.model_int(model, inputs['has_action'])
    req = {'kind': 'c17', 'm': str(mv), 'd': dv, 'network': net, 'height': hv, 'action': bool(act)}
    after901 = (hv >= 42700) if net == 0xff else ((hv >= 500) if net == 1 else True)
    want = concrete_after(mv, dv, after901) if act else mv
    want_sat = min(max(want, 0), (1 << 128) - 1)
    observed = {}
    bad = False
    for prof in ('dev', 'release'):
        out = harness.run_replay([req], prof)[0]
        observed[prof] = out
        if out.get('panicked'):
            bad = True
        elif int(out['after']) not in (want, want_sat):
            bad = True
    observed['expected_after'] = str(want)
    return bad, req, observed


def tv(chk, it, seal):
    import random
    rnd = random.Random(chk.seed)
    vecs = []
    for _ in range(24 if chk.tier == 'quick' else 200):
        mv = rnd.choice([rnd.randrange(0, 1 << 20), rnd.randrange(0, 1 << 62), rnd.randrange(300, 1 << 40)])
        dv = rnd.randrange(-128, 128)
        net = rnd.choice([0xff, 1, 2, 8])
        hv = rnd.choice([0, 499, 500, 42699, 42700, 100000])
        vecs.append((mv, dv, net, hv))
    reqs = [{'kind': 'c17', 'm': str(mv), 'd': dv, 'network': net, 'height': hv, 'action': True} for mv, dv, net, hv in vecs]
    outs = harness.run_replay(reqs, 'dev')
    for (mv, dv, net, hv), out in zip(vecs, outs):
        st = State()
        state = S.unsealed(network=S.EnumV('NetID', net, {k: () for k in S.NETIDS}), height=S.blockheight(bv(hv, 64)),
                           fee_multiplier=bv(mv, 128), fee_pool=S.coinvalue(bv(0, 128)), tips=S.coinvalue(bv(0, 128)),
                           pools=Agg('SmtMapping', []))
        action = Agg('ProposerAction', [bv(dv, 8), S.address(bv(0, 256))])
        res = it.exec_fn(st, seal, [state, mk_some(action)])
        if len(res) != 1:
            raise Inconclusive('translation validation: concrete run forked')
        s, o = res[0]
        if isinstance(o, Panic):
            enc = {'panicked': True}
        else:
            enc = {'panicked': False, 'after': str(z3.simplify(o.v.fields[0].fields[6]).as_long())}
        nat = {'panicked': out['panicked']}
        if not out['panicked']:
            nat['after'] = out['after']
        if enc != nat:
            raise Inconclusive('translation validation mismatch on %s: encoding %s, native %s' % ((mv, dv, net, hv), enc, nat))
        chk.tv += 1
        if len(chk.tv_samples) < 3:
            chk.tv_samples.append({'input': [mv, dv, net, hv], 'native': nat, 'encoding': enc})

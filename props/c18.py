"""C18 - ERG is minted only against valid sequential work, within the reward formula."""
import re
import z3

from mirsym import shapes as S, models as M, melmodels as MM
from mirsym.collections import MapM
from mirsym.interp import (State, Agg, Ptr, Panic, Ret, UNINIT, UNIT, bv, Opaque, EnumV, Inconclusive, simp, G, val_eq)
from mirsym import harness
from props import batch as B

MAXD = 64


SPEEDF = z3.Function('doscmint_speed', z3.BoolSort(), z3.BitVecSort(32), z3.BitVecSort(64), z3.BitVecSort(64), z3.BitVecSort(128))
REWARDF = z3.Function('dosc_reward', z3.BitVecSort(128), z3.BitVecSort(128), z3.BitVecSort(32), z3.BoolSort(), z3.BitVecSort(128))
ERGF = z3.Function('dosc_to_erg', z3.BitVecSort(64), z3.BitVecSort(128), z3.BitVecSort(128))


def I(t):
    return z3.BV2Int(t, False)


def run(chk):
    it = chk.load()
    it = B.prepare(chk)
    S.check_layout(it.adts)
    chk.bounds = {'transaction': 'one DoscMint transaction with 1 input and 1-2 outputs, all fields symbolic',
                  'difficulty': '<= 100 in the formula kernels (melpow rejects larger ones)',
                  'heights': '1 <= height <= 10^8; the spent coin is not younger than the chain (coin height <= height)',
                  'previous DOSC speed': '>= 1 in the reward kernel (I-SPEED: it starts at 10^6 and only takes maxima)',
                  'composition': 'the acceptance kernel runs with compute_doscmint_speed, calculate_reward and dosc_to_erg '
                                 'replaced by uninterpreted functions of their arguments; three formula kernels decide that '
                                 'each of them equals its formula for all arguments (assume-guarantee)'}
    chk.assume_note('melpow::Proof::verify / from_bytes are uninterpreted predicates of (proof bytes, puzzle, difficulty, hash '
                    'variant); verify implies difficulty <= 100 (read off melpow 0.1.2). Decided is that the right puzzle, '
                    'difficulty and hash variants reach it and that its verdict is obeyed')
    chk.assume_note('the DOSC inflator table is an uninterpreted function of the height with values in [10^6, 2^100)')
    chk.assume_note('num::BigInt / BigRational are mathematical integers / rationals')
    chk.guard(formula_kernels, chk, it)
    chk.guard(validate_kernel, chk, it)
    chk.guard(batch_speed_kernel, chk, it)
    chk.guard(fold_kernels, chk, it)
    chk.guard(speed_reducer, chk, it)


def _h(it, st, v):
    v = S_deref(it, st, v)
    return v.fields[0] if isinstance(v, Agg) else v


def S_deref(it, st, v):
    from mirsym.summaries import deref
    return deref(it, st, v)


def formula_kernels(chk, it):
    # ---- compute_doscmint_speed ----
    G.reset()
    st = State()
    t910, d = z3.Bool('is_tip910'), z3.BitVec('difficulty', 32)
    sh, ch = z3.BitVec('height', 64), z3.BitVec('coin_height', 64)
    st.pc += [z3.ULE(d, 100), z3.UGT(sh, ch)]
    fn = it.by_last['compute_doscmint_speed'][0]
    outs = it.exec_fn(st, fn, [t910, d, Agg('BlockHeight', [sh]), Agg('BlockHeight', [ch])])
    two_d, dh = bv(1, 128) << z3.ZeroExt(96, d), z3.ZeroExt(64, sh - ch)
    # one division per variant, so that equal quotients are the same term on both sides
    spec = z3.If(t910, z3.UDiv(bv(100, 128) * two_d, dh), z3.UDiv(bv(1, 128) * two_d, dh))
    inputs = {'is_tip910': t910, 'difficulty': d, 'height': sh, 'coin_height': ch}
    n = 0
    for idx, (s, o) in enumerate(outs):
        if isinstance(o, Panic):
            chk.obligation('PANIC/compute_doscmint_speed/%d' % idx, list(s.pc), z3.BoolVal(False), inputs, replay=lambda mo: replay(chk),
                           kind='PANIC', describe=str(o), bound='difficulty <= 100, height > coin height')
            continue
        n += 1
        chk.obligation('FORMULA/speed/%d' % idx, list(s.pc), o.v == spec, inputs, replay=lambda mo: replay(chk),
                       bound='speed = [100 *] 2^difficulty / (height - coin height), u128 division', abstract=('bvudiv',))
    if not n:
        raise Inconclusive('compute_doscmint_speed has no returning path')
    # ---- calculate_reward ----
    # exact multiplication / truncating division / floor division of big integers are kept as the function symbols
    # int_mul / int_div_trunc / int_div_floor: what is decided is the expression tree the code evaluates
    from mirsym import bigmodels as BM
    BM.CONFIG['symbolic_ops'] = True
    try:
        G.reset()
        st = State()
        sp, ds = z3.BitVec('my_speed', 128), z3.BitVec('dosc_speed', 128)
        st.pc += [z3.ULE(d, 100), z3.UGE(ds, 1)]
        fn = it.by_last['calculate_reward'][0]
        outs = it.exec_fn(st, fn, [sp, ds, d, t910])
        two_d = bv(1, 128) << z3.ZeroExt(96, d)
        hundredfold = z3.If(z3.BVMulNoOverflow(two_d, bv(100, 128), False), two_d * bv(100, 128), bv(2 ** 128 - 1, 128))
        work = I(z3.If(t910, hundredfold, two_d))
        chk.obligation('FORMULA/hundredfold-work-does-not-saturate', [z3.ULE(d, 100)], hundredfold == two_d * bv(100, 128),
                       {'difficulty': d}, replay=None, bound='difficulty <= 100')
        num = BM.INT_MUL(BM.INT_MUL(work, I(sp)), z3.IntVal(1000000))
        den = BM.INT_MUL(BM.INT_MUL(BM.INT_MUL(z3.IntVal(1), I(ds)), I(ds)), z3.IntVal(2880))
        q = BM.INT_DIV_TRUNC(num, den)
        spec = z3.If(z3.And(q >= 0, q < 2 ** 128), z3.Int2BV(q, 128), bv(2 ** 128 - 1, 128))
        inputs = {'my_speed': sp, 'dosc_speed': ds, 'difficulty': d, 'is_tip910': t910}
        n = 0
        for idx, (s, o) in enumerate(outs):
            if isinstance(o, Panic):
                chk.obligation('PANIC/calculate_reward/%d' % idx, list(s.pc), z3.BoolVal(False), inputs, replay=lambda mo: replay(chk),
                               kind='PANIC', describe=str(o), bound='difficulty <= 100, previous speed >= 1')
                continue
            n += 1
            chk.obligation('FORMULA/reward/%d' % idx, list(s.pc), o.v == spec, inputs, replay=lambda mo: replay(chk),
                           bound='reward = min(2^128-1, (work * speed * 10^6) / (1 * previous speed * previous speed * 2880)), '
                                 'work = [100 *] 2^difficulty (saturating), as an expression tree over exact * and /',
                           arith='int', split=(d, [bv(k, d.size()) for k in range(0, 101)]))
        if not n:
            raise Inconclusive('calculate_reward has no returning path')
        # ---- dosc_to_erg ----
        G.reset()
        st = State()
        real = z3.BitVec('reward_real', 128)
        fn = it.by_last['dosc_to_erg'][0]
        st.pc += [z3.ULE(sh, 100_000_000)]
        outs = it.exec_fn(st, fn, [Agg('BlockHeight', [sh]), real])
        infl = I(MM.INFLATOR(sh))
        q2 = BM.INT_DIV_FLOOR(BM.INT_MUL(infl, I(real)), BM.INT_MUL(z3.IntVal(1000000), z3.IntVal(1)))
        inputs = {'height': sh, 'reward_real': real}
        n = 0
        for idx, (s, o) in enumerate(outs):
            if isinstance(o, Panic):
                chk.obligation('PANIC/dosc_to_erg/%d' % idx, list(s.pc) + [q2 < 2 ** 128], z3.BoolVal(False), inputs,
                               replay=lambda mo: replay(chk), kind='PANIC', describe=str(o),
                               bound='floor(inflator * reward / 10^6) < 2^128 (beyond it the function panics by design: expect)')
                continue
            n += 1
            chk.obligation('FORMULA/erg/%d' % idx, list(s.pc), o.v == z3.Int2BV(q2, 128), inputs, replay=lambda mo: replay(chk),
                           bound='erg = floor((inflator(height) * reward) / (10^6 * 1)), as an expression tree over exact * and floor /')
        if not n:
            raise Inconclusive('dosc_to_erg has no returning path')
    finally:
        BM.CONFIG['symbolic_ops'] = False


def _abstract_formulas(it):
    def speed(itp, s_, a, c):
        return SPEEDF(a[0], a[1], _h(itp, s_, a[2]), _h(itp, s_, a[3]))

    def reward(itp, s_, a, c):
        return REWARDF(a[0], a[1], a[2], a[3])

    def erg(itp, s_, a, c):
        return ERGF(_h(itp, s_, a[0]), a[1])
    added = [(re.compile(r'^(state::applytx::)?compute_doscmint_speed$'), speed),
             (re.compile(r'^(state::)?(melmint::)?calculate_reward$'), reward),
             (re.compile(r'^(state::)?(melmint::)?dosc_to_erg$'), erg)]
    it.overrides = added + list(it.overrides)
    return added


def validate_kernel(chk, it):
    added = _abstract_formulas(it)
    for nout in (1, 2):
        G.reset()
        G.atomic_domains = {'single:Transaction'}
        st = State()
        state, sterms = B.sym_state(st.pc)
        h = sterms['height']
        st.pc.append(z3.UGE(h, 1))
        st.pc.append(z3.ULE(h, 100_000_000))

        def hist_hook(itp, s_, key, dom, v):
            if dom == 'single:BlockHeight':
                k = key.arg(0)
                G.add(v.data.present == z3.ULT(k, h))
                G.add(z3.Implies(v.data.present, v.data.value.fields[2].fields[0] == k))
        it.base_read_hooks['history'] = hist_hook
        tx, tt = B.sym_tx('tx', 1, nout, 1, st.pc, kind='DoscMint')
        st.pc.append(z3.ULE(tt['fee'], 1 << 120))
        for i in range(nout):
            st.pc.append(z3.ULE(tt['out%d_value' % i], 1 << 120))
        cid = tx.fields[1].fields[0]
        holder = M.State_for_symvalue()
        cdh = S.sym_value('CoinDataHeight', 'coin', holder)
        st.pc.extend(holder.pc)
        ch = cdh.fields[1].fields[0]
        st.pc.append(z3.ULE(ch, h))
        rc = MapM().insert(cid, cdh)
        fn = it.by_last['validate_and_get_doscmint_speed'][0]
        outs = it.exec_fn(st, fn, [Ptr(st.alloc(state)), Ptr(st.alloc(Opaque('Map', rc))), Ptr(st.alloc(tx))])
        # ---- reference ----
        reads = G.memo.get('deser:(u32, Vec<u8>)', [])
        if not reads:
            raise Inconclusive('the (difficulty, proof) decode was never reached')
        ident, dec_ok, pair = reads[0]
        diff, proof_bytes = pair.fields
        hist = state.fields[2].fields[0].data
        hdr_coin = M.tree_get(it, st, hist, M.hash_apply(st, 'single:BlockHeight', [ch]))
        hdr_prev = M.tree_get(it, st, hist, M.hash_apply(st, 'single:BlockHeight', [h - 1]))
        seed_hash = M.hash_apply(st, 'single:Header', M.flatten(hdr_coin.data.value))
        puzzle = M.hash_apply(st, 'keyed2', [M._hash_of_bytes(it, st, 'keyed-key', Agg('HashVal', [seed_hash])),
                                            M._hash_of_bytes(it, st, 'keyed-val', M.ser('CoinID', cid))])
        pid = proof_bytes.data['id']
        d64 = z3.ZeroExt(32, diff)
        v_legacy = MM.POW_VALID(pid, puzzle, d64, bv(0, 8))
        v_910 = MM.POW_VALID(pid, puzzle, d64, bv(1, 8))
        inputs = {'height': h, 'coin_height': ch, 'difficulty': diff, 'network': sterms['network']}
        inputs.update(dict(('tx_' + k, v) for k, v in tt.items()))
        is910 = z3.And(z3.Not(v_legacy), v_910)
        speed = SPEEDF(is910, diff, h, ch)
        prev_speed = hdr_prev.data.value.fields[8]
        cap = ERGF(h, REWARDF(speed, prev_speed, diff, is910))
        erg_sum = bv(0, 136)  # 8 spare bits: the sum of at most 2 u128 values cannot wrap
        for i in range(nout):
            erg_sum = erg_sum + z3.If(tt['out%d_denom_tag' % i] == 2, z3.ZeroExt(8, tt['out%d_value' % i]), bv(0, 136))
        within = z3.ULE(erg_sum, z3.ZeroExt(8, cap))
        covers = {}
        n = 0
        for idx, (s, o) in enumerate(outs):
            name = 'validate_doscmint/%dout/%d' % (nout, idx)
            rp = lambda mo: replay(chk, mo, (h, ch))
            if isinstance(o, Panic):
                chk.obligation('PANIC/' + name, list(s.pc), z3.BoolVal(False), inputs, replay=rp, kind='PANIC',
                               describe=str(o), bound='I-HIST; outputs <= 2^120 each')
                continue
            n += 1
            ok = M.is_variant(o.v, 'Ok')
            pcs = list(s.pc)
            chk.obligation('FUNC/accepted-only-with-a-valid-proof-for-the-right-puzzle/' + name, pcs + [ok],
                           z3.And(dec_ok, z3.Or(v_legacy, v_910)), inputs, replay=rp,
                           bound="puzzle = hash_keyed(hash(header at the coin height), serialized first input)")
            chk.obligation('FUNC/mainnet-needs-a-100-block-old-coin/' + name, pcs + [ok, sterms['network'] == 0xff],
                           z3.UGE(h - ch, 100), inputs, replay=rp)
            chk.obligation('FUNC/minted-erg-within-the-reward/' + name, pcs + [ok], within, inputs, replay=rp,
                           bound='cap = dosc_to_erg(height, calculate_reward(speed, previous block speed, difficulty, variant)), '
                                 'speed = compute_doscmint_speed(variant, difficulty, height, coin height)')
            if 'Ok' in o.v.payloads:
                chk.obligation('FUNC/reported-speed/' + name, pcs + [ok], o.v.payloads['Ok'][0] == speed, inputs, replay=rp,
                               bound='speed = compute_doscmint_speed(variant, difficulty, height, coin height)')
            covers.setdefault('accepted mint', []).append((pcs, z3.And(ok, erg_sum != 0)))
            covers.setdefault('rejected: output above the reward', []).append((pcs, z3.And(z3.Not(ok), z3.Or(v_legacy, v_910), dec_ok, z3.Not(within))))
            chk.sample({'outputs': nout, 'path': idx})
        if n == 0:
            raise Inconclusive('validate_and_get_doscmint_speed has no returning path')
        for cname, alts in covers.items():
            chk.cover_any('%s/%dout' % (cname, nout), alts)
    it.overrides = [o for o in it.overrides if o not in added]
    it.base_read_hooks.pop('history', None)


def fold_kernels(chk, it):
    """apply_tx_batch_impl: only DoscMint transactions are folded, the fold starts from the state's speed and takes maxima"""
    VOK = z3.Function('validate_ok', z3.BitVecSort(256), z3.BoolSort())
    VSP = z3.Function('validate_speed', z3.BitVecSort(256), z3.BitVecSort(128))
    seen = []

    def validate(itp, s_, a, c):
        tx = S_deref(itp, s_, a[2])
        th = B.tx_hash_term(itp, s_, tx)
        seen.append(th)
        from mirsym.summaries import ite_st
        from mirsym.interp import mk_enum
        return EnumV('Result', z3.If(VOK(th), bv(0, 8), bv(1, 8)), {'Ok': (VSP(th),), 'Err': (mk_enum('StateError', 'InvalidMelPoW', ()),)})
    added = [(re.compile(r'validate_and_get_doscmint_speed'), validate)]
    it.overrides = added + list(it.overrides)
    try:
        G.reset()
        G.atomic_domains = {'single:Transaction'}
        st = State()
        state, sterms = B.sym_state(st.pc)
        tx, tt = B.sym_tx('tx', 1, 1, 1, st.pc)
        rc = MapM()
        pstate = Ptr(st.alloc(state))
        prc = Ptr(st.alloc(Opaque('Map', rc)))
        byname = dict((f.name.split('::')[-1], f) for n_, fs in it.funcs.items() if n_.startswith('apply_tx_batch_impl::{closure') for f in fs)
        # filter
        f1 = byname['{closure#1}']
        s1 = st.fork()
        env = Ptr(s1.alloc(Agg(f1.param_types[0].lstrip('&'), [])))
        outs = it.exec_fn(s1, f1, [env, Ptr(s1.alloc(Ptr(s1.alloc(tx))))])
        for idx, (s, o) in enumerate(outs):
            if isinstance(o, Panic):
                chk.obligation('PANIC/fold-filter/%d' % idx, list(s.pc), z3.BoolVal(False), {}, replay=None, kind='PANIC', describe=str(o))
                continue
            chk.obligation('FUNC/only-doscmint-transactions-are-validated-as-mints/%d' % idx, list(s.pc), o.v == (tt['kind'] == S.TXKINDS['DoscMint']),
                           {'kind': tt['kind']}, replay=lambda mo: replay(chk), bound='filter closure of the speed fold')
        # identities
        for nm in ('{closure#2}', '{closure#4}'):
            f = byname[nm]
            s2 = st.fork()
            env = Ptr(s2.alloc(Agg(f.param_types[0].lstrip('&'), [pstate])))
            outs = it.exec_fn(s2, f, [env])
            for idx, (s, o) in enumerate(outs):
                if isinstance(o, Panic):
                    chk.obligation('PANIC/fold-identity/%s/%d' % (nm, idx), list(s.pc), z3.BoolVal(False), {}, replay=None, kind='PANIC', describe=str(o))
                    continue
                chk.obligation('FUNC/fold-starts-from-the-previous-speed/%s/%d' % (nm, idx), list(s.pc), o.v == sterms['dosc_speed'],
                               {}, replay=lambda mo: replay(chk), bound='identity closures of try_fold / try_reduce')
        # fold step
        f3 = byname['{closure#3}']
        s3 = st.fork()
        env = Ptr(s3.alloc(Agg(f3.param_types[0].lstrip('&'), [pstate, prc])))
        a = z3.BitVec('fold_acc', 128)
        outs = it.exec_fn(s3, f3, [env, a, Ptr(s3.alloc(tx))])
        th = B.tx_hash_term(it, s3, tx)
        for idx, (s, o) in enumerate(outs):
            if isinstance(o, Panic):
                chk.obligation('PANIC/fold-step/%d' % idx, list(s.pc), z3.BoolVal(False), {}, replay=None, kind='PANIC', describe=str(o))
                continue
            ok = M.is_variant(o.v, 'Ok')
            chk.obligation('FUNC/fold-step-fails-iff-the-mint-is-invalid/%d' % idx, list(s.pc), ok == VOK(th), {'acc': a},
                           replay=lambda mo: replay(chk))
            if 'Ok' in o.v.payloads:
                r = o.v.payloads['Ok'][0]
                sp = VSP(th)
                chk.obligation('FUNC/fold-step-is-max/%d' % idx, list(s.pc) + [ok], r == z3.If(z3.UGE(a, sp), a, sp), {'acc': a},
                               replay=lambda mo: replay(chk), bound='all u128 accumulators and speeds')
    finally:
        it.overrides = [o for o in it.overrides if o not in added]


def batch_speed_kernel(chk, it):
    """apply_tx_batch as a whole on one transaction of any kind from an arbitrary state (the state's speed may already exceed the
    previous header's: an earlier call at this height raised it): afterwards the state's DOSC speed is max(its speed before,
    the speed the mint demonstrated) for an accepted DoscMint and unchanged for any other kind; a DoscMint whose validation
    fails is rejected.  validate_and_get_doscmint_speed is an uninterpreted (verdict, speed) of the transaction here -- its own
    kernel is validate_kernel -- whatever its argument list looks like"""
    VOK = z3.Function('batch_validate_ok', z3.BitVecSort(256), z3.BoolSort())
    VSP = z3.Function('batch_validate_speed', z3.BitVecSort(256), z3.BitVecSort(128))

    def validate(itp, s_, a, c):
        from mirsym.interp import mk_enum
        txs = [x for x in (S_deref(itp, s_, v) for v in a) if isinstance(x, Agg) and x.ty == 'Transaction']
        if len(txs) != 1:
            raise Inconclusive('validate_and_get_doscmint_speed is not called with exactly one transaction')
        th = B.tx_hash_term(itp, s_, txs[0])
        return EnumV('Result', z3.If(VOK(th), bv(0, 8), bv(1, 8)), {'Ok': (VSP(th),), 'Err': (mk_enum('StateError', 'InvalidMelPoW', ()),)})
    from mirsym.interp import mk_ok
    from mirsym.collections import MapM as _MapM

    def empty_map(itp, s_, a, c):
        return mk_ok(Opaque('Map', _MapM()))

    def accept(itp, s_, a, c):
        return mk_ok(UNIT)

    def next_state(itp, s_, a, c):
        # create_next_state(this.clone(), ..): its own kernels are C02 / C05; it does not touch the speed (FRAME, C03 COMM-1/scalars)
        return mk_ok(S_deref(itp, s_, a[0]) if isinstance(a[0], Ptr) else a[0])
    gen = r'(::<.*>)?$'
    added = [(re.compile(r'(^|::)validate_and_get_doscmint_speed' + gen), validate), (re.compile(r'(^|::)load_relevant_coins' + gen), empty_map),
             (re.compile(r'(^|::)load_stake_info' + gen), empty_map), (re.compile(r'(^|::)check_tx_validity' + gen), accept),
             (re.compile(r'(^|::)create_next_state' + gen), next_state)]
    it.overrides = added + list(it.overrides)
    try:
        G.reset()
        G.atomic_domains = {'single:Transaction'}
        st = State()
        state, sterms = B.sym_state(st.pc)
        B.install_history_invariant(it, sterms['height'])
        st.pc += [z3.UGE(sterms['height'], 1), z3.ULE(sterms['height'], 100_000_000)]
        n_paths = 0
        alts = []
        for ntx in (1, 2):
            s0 = st.fork()
            txs, tts = [], []
            for i in range(ntx):
                tx, tt = B.sym_tx('tx%d' % i, 1, 1, 1, s0.pc)
                txs.append(tx)
                tts.append(tt)
            ths = [B.tx_hash_term(it, s0, tx) for tx in txs]
            if ntx == 2:
                G.declare_distinct(ths[0], ths[1])
            before = sterms['dosc_speed']
            fn = it.by_last['apply_tx_batch_impl'][0]
            outs = it.exec_fn(s0, fn, [Ptr(s0.alloc(state)), Ptr(s0.alloc(Agg('array', txs)))])
            inputs = {'speed_before': before, 'height': sterms['height']}
            mints = [tt['kind'] == S.TXKINDS['DoscMint'] for tt in tts]
            for i, tt in enumerate(tts):
                inputs['tx%d_kind' % i] = tt['kind']
            want = before
            for m_, th in zip(mints, ths):
                want = z3.If(z3.And(m_, z3.UGT(VSP(th), want)), VSP(th), want)
            all_valid = z3.And([z3.Implies(m_, VOK(th)) for m_, th in zip(mints, ths)])
            for k, (s, o) in enumerate(outs):
                if isinstance(o, Panic):
                    continue  # panic freedom: C09
                n_paths += 1
                ok = M.is_variant(o.v, 'Ok')
                rp = lambda mo: replay(chk)
                chk.obligation('FUNC/a-batch-is-accepted-iff-its-mints-validate/%dtx/%d' % (ntx, k), list(s.pc), ok == all_valid, inputs, replay=rp,
                               bound='validity, coin loading and state building abstracted away (their kernels: C02, C04, C05)')
                if 'Ok' in o.v.payloads:
                    after = o.v.payloads['Ok'][0].fields[8]
                    chk.obligation('FUNC/state-speed-after-a-batch-is-max-of-before-and-shown/%dtx/%d' % (ntx, k), list(s.pc) + [ok], after == want,
                                   inputs, replay=rp, bound='%d transaction(s) of any kind; the speed before is arbitrary (an earlier call at this '
                                   'height may have raised it above the previous header\'s)' % ntx)
                    alts.append((list(s.pc), z3.And(ok, mints[0], z3.UGT(VSP(ths[0]), before))))
        if not n_paths:
            raise Inconclusive('apply_tx_batch_impl has no returning path')
        chk.cover_any('an accepted mint that raises the speed', alts)
    finally:
        it.overrides = [o for o in it.overrides if o not in added]
        it.base_read_hooks.pop('history', None)


def speed_reducer(chk, it):
    """the DOSC speed recorded for the block is max(previous, speeds shown): never decreases (fold closure #3)"""
    red = [f for f in it.by_last.get('{closure#5}', []) if f.name.startswith('apply_tx_batch_impl')]
    if not red:
        raise Inconclusive('reducer closure of apply_tx_batch_impl not found')
    a, b = z3.BitVec('ra', 128), z3.BitVec('rb', 128)
    st = State()
    clo = Ptr(st.alloc(Agg(red[0].param_types[0].lstrip('&'), [])))
    outs = it.exec_fn(st, red[0], [clo, a, b])
    for idx, (s, o) in enumerate(outs):
        if isinstance(o, Panic):
            chk.obligation('PANIC/reducer/%d' % idx, list(s.pc), z3.BoolVal(False), {}, replay=None, kind='PANIC', describe=str(o))
            continue
        r = o.v.payloads['Ok'][0]
        chk.obligation('FUNC/block-speed-is-the-maximum/%d' % idx, list(s.pc), z3.And(z3.UGE(r, a), z3.UGE(r, b), z3.Or(r == a, r == b)),
                       {'a': a, 'b': b}, replay=None, bound='all u128')


def replay(chk, mo=None, terms=None):
    req = {'kind': 'c18_mint', 'difficulty': 6}
    if mo is not None and terms is not None:
        # take the coin age the solver found on mainnet into the native scenario
        try:
            h, ch = (harness.model_int(mo, terms[0]), harness.model_int(mo, terms[1]))
            if 1 <= h - ch < 100:
                req['mainnet_age'] = h - ch
        except Exception:
            pass
    out = harness.run_replay([req], 'dev', timeout=300)[0]
    if 'error' in out:
        raise Inconclusive('replay: ' + out['error'])
    bad = bool(out.get('panicked')) or not out.get('honest_accepted') or bool(out.get('accepted_bad'))
    return bad, req, out

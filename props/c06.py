"""C06 - a block is accepted exactly when it is the correct successor."""
import re
import z3

from mirsym import shapes as S, models as M
from mirsym.collections import MapM
from mirsym.interp import (State, Agg, Ptr, Panic, Ret, UNINIT, UNIT, bv, Opaque, EnumV, Inconclusive, simp, G, val_eq,
                           mk_ok, mk_err, mk_some, mk_none)
from mirsym import harness
from props import batch as B


def run(chk):
    it = chk.load()
    it = B.prepare(chk)
    S.check_layout(it.adts)
    chk.bounds = {'block': '1-2 transactions (opaque to this kernel), proposer action present or absent, all 11 declared header '
                           'fields symbolic', 'computed header': 'arbitrary (result of the abstracted seal)'}
    chk.assume_note('next_unsealed / apply_tx_batch / seal / header are symbolic events with recorded arguments and arbitrary '
                    'results: their own behaviour is C01-C05, C07, C13, C15-C17; determinism of the three calls is C03')
    for ntx in (1, 2):
        chk.guard(one, chk, it, ntx)
    chk.guard(one, chk, it, 2, resigned=True)
    # the proposer action is not a header field: its reward destination reaches the header only through the reward
    # pseudo-coin in the coin tree, which therefore has to be created for every action, whatever the amounts
    from props import c05
    chk.assume_note('the proposer action is committed through the reward pseudo-coin (created for every action with covhash = '
                    'reward_dest, decided here on collect_proposer_action_fee) and the fee multiplier step (C17); a delta '
                    'whose step rounds to zero is not distinguishable by design')
    chk.guard(c05.reward_kernel, chk, it)


def one(chk, it, ntx, resigned=False):
    G.reset()
    G.atomic_domains = {'single:Transaction'}
    st = State()
    pc = st.pc
    self_state, _ = B.sym_state(pc, name='parent')
    basis0, _ = B.sym_state(pc, name='basis0')
    basis1, _ = B.sym_state(pc, name='basis1')
    sealed_inner, _ = B.sym_state(pc, name='sealedinner')
    computed, cterms = S.sym_header('computed', pc)
    declared, dterms = S.sym_header('declared', pc)
    batch_ok = z3.Bool('batch_ok')
    batch_err = EnumV('StateError', variant_disc(it, 'StateError', 'MalformedTx'), {'MalformedTx': ()})
    txs = [B.sym_tx('tx' + 'ab'[i], 1, 1, 1, pc, n_sigs=(1 if resigned else 0))[0] for i in range(ntx)]
    if resigned:
        # the second transaction is the first one with another signature field: a different member of the block's HashSet, the
        # same transaction as far as hash_nosigs (and hence TransactionSet) is concerned
        txs[1] = Agg('Transaction', list(txs[0].fields[:6]) + [txs[1].fields[6]])
    for i in range(ntx):
        for j in range(i + 1, ntx):
            pc.append(z3.Not(val_eq(txs[i], txs[j])))  # block.transactions is a set
    has_action = z3.Bool('has_action')
    action = Agg('ProposerAction', [z3.BitVec('delta', 8), S.address(z3.BitVec('reward_dest', 256))])
    act = EnumV('Option', z3.If(has_action, bv(1, 8), bv(0, 8)), {'Some': (action,), 'None': ()})
    txset = MapM()
    for t in txs:
        txset = txset.insert(t, UNIT)
    block = Agg('Block', [declared, Opaque('Map', txset), act])
    parent = Agg('SealedState', [self_state, EnumV('Option', 0, {'None': ()})])
    sealed1 = Agg('SealedState', [sealed_inner, act])
    log = []

    def ov_next(i, s, a, c):
        s.events.append(('next_unsealed', i.load(s, a[0]) if isinstance(a[0], Ptr) else a[0]))
        return basis0

    def ov_apply(i, s, a, c):
        cur = i.load(s, a[0])
        b = a[1]
        while isinstance(b, Ptr):
            b = i.load(s, b)
        s.events.append(('apply_tx_batch', cur, b))
        outs = []
        s_ok = s.fork()
        s_ok.assume(batch_ok)
        i.store(s_ok, a[0], basis1)
        outs.append((s_ok, Ret(mk_ok(UNIT))))
        s.assume(z3.Not(batch_ok))
        outs.append((s, Ret(mk_err(batch_err))))
        return outs

    def ov_seal(i, s, a, c):
        s.events.append(('seal', a[0], a[1]))
        return sealed1

    def ov_header(i, s, a, c):
        v = a[0]
        while isinstance(v, Ptr):
            v = i.load(s, v)
        s.events.append(('header', v))
        if v is sealed1:
            return computed
        h, _ = S.sym_header('other%d' % len(s.events), s.pc)
        return h
    it.overrides = [(re.compile(r'SealedState::<.*>::next_unsealed$'), ov_next),
                    (re.compile(r'UnsealedState::<.*>::apply_tx_batch$'), ov_apply),
                    (re.compile(r'UnsealedState::<.*>::seal$'), ov_seal),
                    (re.compile(r'SealedState::<.*>::header$'), ov_header),
                    (re.compile(r'SmtMapping::<.*>::val_iter$'), lambda i, s, a, c: Opaque('valiter')),
                    (re.compile(r'as Iterator>::count$'), lambda i, s, a, c: bv(3, 64)),
                    (re.compile(r'as Iterator>::for_each::<'), lambda i, s, a, c: UNIT),
                    (re.compile(r'^Header::hash$'), lambda i, s, a, c: Agg('HashVal', [z3.BitVec('somehash%d' % len(s.events), 256)]))]
    it.join_rx = None
    fn = it.by_last['apply_block'][0]
    pcell, bcell = st.alloc(parent), st.alloc(block)
    outs = it.exec_fn(st, fn, [Ptr(pcell), Ptr(bcell)])
    inputs = {'batch_ok': batch_ok, 'has_action': has_action}
    for k in S.HEADER_FIELDS:
        inputs['computed_' + k] = cterms[k]
        inputs['declared_' + k] = dterms[k]
    all_eq = z3.And([cterms[k] == dterms[k] for k in S.HEADER_FIELDS])
    covers = {}
    n = 0
    for idx, (s, o) in enumerate(outs):
        name = 'apply_block/%dtx%s/%d' % (ntx, '-resigned-copy' if resigned else '', idx)
        rp = lambda mo, s=s: replay(chk, mo, inputs)
        if isinstance(o, Panic):
            chk.obligation('PANIC/' + name, list(s.pc), z3.BoolVal(False), inputs, replay=rp, kind='PANIC', describe=str(o))
            continue
        n += 1
        ok = M.is_variant(o.v, 'Ok')
        pcs = list(s.pc)
        chk.obligation('FUNC/accepted-iff-batch-valid-and-all-11-header-fields-match/' + name, pcs, ok == z3.And(batch_ok, all_eq),
                       inputs, replay=rp, bound='every header field symbolic')
        for k in S.HEADER_FIELDS:
            chk.obligation('FUNC/field-%s-is-compared/%s' % (k, name), pcs + [ok], cterms[k] == dterms[k], inputs, replay=rp)
        # wiring, read off the recorded events of this path
        evs = s.events
        names = [e[0] for e in evs]
        wiring = []
        wiring.append(names[:2] == ['next_unsealed', 'apply_tx_batch'])
        ap = [e for e in evs if e[0] == 'apply_tx_batch']
        if ap:
            wiring.append(ap[0][1] is basis0)
            got = ap[0][2].fields
            wiring.append(len(got) == len(txs) and all(any(g is t for t in txs) for g in got) and all(any(g is t for g in got) for t in txs))
        sl = [e for e in evs if e[0] == 'seal']
        if sl:
            wiring.append(sl[0][1] is basis1)
            wiring.append(sl[0][2] is act)
        if 'Ok' in o.v.payloads:
            wiring.append(o.v.payloads['Ok'][0] is sealed1)
        x = z3.Bool('wiring_ok_%d_%d' % (ntx, idx))
        chk.obligation('STRUCT/calls-and-arguments/' + name, pcs + [x == z3.BoolVal(all(wiring))], x, inputs, replay=rp,
                       kind='FRAME', bound='next_unsealed -> apply_tx_batch(block.transactions) -> seal(block.proposer_action); '
                                            'the sealed basis is what is returned')
        covers.setdefault('accepted block', []).append((pcs, ok))
        covers.setdefault('valid transactions but wrong header', []).append((pcs, z3.And(z3.Not(ok), batch_ok)))
        covers.setdefault('invalid transactions', []).append((pcs, z3.And(z3.Not(ok), z3.Not(batch_ok))))
        chk.sample({'path': idx, 'events': names})
    if n == 0:
        raise Inconclusive('apply_block has no returning path')
    for cname, alts in covers.items():
        chk.cover_any('%s/%dtx%s' % (cname, ntx, '-resigned-copy' if resigned else ''), alts)
    it.overrides = []


def variant_disc(it, ty, name):
    return it.adts.get(ty).variant(name)[1]


def replay(chk, model, inputs):
    """honest block from a real state, then every single-field mutation of its header / transactions / proposer action"""
    req = {'kind': 'c06_mutations', 'seed': chk.seed}
    out = harness.run_replay([req], 'dev')[0]
    if 'error' in out:
        raise Inconclusive('replay: ' + out['error'])
    bad = (not out.get('honest_accepted')) or bool(out.get('accepted_mutations')) or bool(out.get('panicked'))
    if not bad:
        # an honest block whose transactions depend on each other across kinds: a real (difficulty 1-6) DoscMint and a spend of
        # its output, built call by call and handed to the parent as one block
        req2 = {'kind': 'c18_mint', 'difficulty': 6, 'prev_speed': '100'}
        out2 = harness.run_replay([req2], 'dev')[0]
        if 'error' in out2:
            raise Inconclusive('replay: ' + out2['error'])
        if out2.get('block_findings'):
            return True, req2, {'block_findings': out2['block_findings']}
    return bad, req, out

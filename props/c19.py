"""C19 - faucets: never on mainnet, and at most once anywhere."""
import re
import z3

from mirsym import shapes as S, models as M
from mirsym.collections import MapM
from mirsym.interp import State, Agg, Ptr, Panic, Ret, UNINIT, UNIT, bv, Opaque, EnumV, Inconclusive, simp, G, val_eq
from mirsym import harness
from props import batch as B

GRAND = B.GRANDFATHERED


def run(chk):
    it = chk.load()
    it = B.prepare(chk)
    B.abstract_base_fee(it)
    S.check_layout(it.adts)
    chk.bounds = {'faucet transaction': 'any shape up to 2 inputs / 2 outputs, all fields symbolic', 'network': 'all 9 NetIDs',
                  'state': 'arbitrary coin tree', 'history': 'one step + induction on the marker invariant (I-MARK)'}
    chk.assume_note('A-HASH: hashes are injective, differently keyed hashes have disjoint ranges, and no covenant hashes to '
                    'the all-zero address (so a faucet marker, which is locked to it, can never be spent)')
    chk.assume_note("induction: a marker once written is never removed (inputs need a covenant with the coin's own covenant "
                    'hash -- obligation MARKER-UNSPENDABLE; melmint only removes index-1 outputs of deposit transactions)')
    chk.guard(handle_kernel, chk, it)
    chk.guard(callsite_kernel, chk, it)
    chk.guard(marker_unspendable, chk, it)
    chk.guard(marker_input_kernel, chk, it)


def marker_input_kernel(chk, it):
    """I-MARK at the call site: check_tx_validity accepts no transaction -- of any kind, faucets included -- one of whose inputs is
    a coin locked to the all-zero covenant hash (a faucet marker).  MARKER-UNSPENDABLE is validate_tx_scripts in isolation; this is
    the obligation that every input of every accepted transaction really goes through it."""
    from mirsym.collections import MapM as _MapM
    for pos in (0, 1):
        G.reset()
        G.atomic_domains = {'single:Transaction'}
        st = State()
        state, sterms = B.sym_state(st.pc)
        B.install_history_invariant(it, sterms['height'])
        st.pc += [z3.UGE(sterms['height'], 1), z3.ULE(sterms['height'], 100_000_000)]
        tx, tt = B.sym_tx('tx', 2, 1, 2, st.pc, exclude_kinds=('DoscMint',))
        st.pc.append(z3.ULE(tt['fee'], 1 << 120))
        st.pc.append(z3.ULE(tt['out0_value'], 1 << 120))
        rc = _MapM()
        tot = z3.BitVecVal(0, 136)
        for i, cid in enumerate(tx.fields[1].fields):
            holder = M.State_for_symvalue()
            cdh = S.sym_value('CoinDataHeight', 'coin%d' % i, holder)
            st.pc.extend(holder.pc)
            if i == pos:
                st.pc.append(B.cdh_covhash(cdh) == 0)
            rc = rc.insert(cid, cdh)
            tot = tot + z3.ZeroExt(8, cdh.fields[0].fields[1].fields[0])
        st.pc.append(z3.ULE(tot, z3.BitVecVal(1 << 127, 136)))
        c0, c1 = tx.fields[1].fields
        st.pc.append(z3.Not(M.val_eq(c0, c1)))
        for c in tx.fields[4].fields:
            G.add(M.hash_apply(st, 'single:symbytes', [c.data['id']]) != 0)  # A-HASH: no known preimage of the all-zero hash
        fn = it.by_last['check_tx_validity'][0]
        outs = it.exec_fn(st, fn, [Ptr(st.alloc(state)), Ptr(st.alloc(tx)), Ptr(st.alloc(Opaque('Map', rc))),
                                   Ptr(st.alloc(Opaque('Map', _MapM())))])
        inputs = {'network': sterms['network'], 'kind': tt['kind'], 'marker_position': bv(pos, 8)}
        n = 0
        for idx, (s, o) in enumerate(outs):
            name = 'check_tx_validity/marker-at-%d/%d' % (pos, idx)
            if isinstance(o, Panic):
                continue  # panic freedom: C09
            n += 1
            chk.obligation('MARKER-NEVER-AN-ACCEPTED-INPUT/' + name, list(s.pc), z3.Not(M.is_variant(o.v, 'Ok')), inputs,
                           replay=lambda mo, inputs=inputs: replay_marker_spend(chk, mo, inputs),
                           bound='2 inputs, the marker at either position, every transaction kind except DoscMint')
        if n == 0:
            raise Inconclusive('check_tx_validity has no returning path')
    it.base_read_hooks.pop('history', None)


def replay_marker_spend(chk, model, inputs):
    """faucet F accepted; a transaction of the model's kind (a second faucet G when the kind is Faucet, an ordinary payment
    otherwise) names F's marker as an input; then F is presented again: it must still be a duplicate"""
    net = harness.model_int(model, inputs['network'])
    if net == 0xff:
        net = 2  # no faucet is accepted on mainnet at all: the marker scenario needs another network
    kind = harness.model_int(model, inputs['kind'])
    f = {'name': 'f', 'kind': 0xff, 'inputs': [], 'outputs': [{'covhash': {'covhash_of': 'true'}, 'value': '1000', 'denom': 'MEL', 'adata': ''}],
         'fee': '0', 'covenants': [], 'data': ''}
    marker = {'txhash': {'faucet_marker_of': 'f'}, 'index': 0}
    if kind == 0xff:
        g = {'name': 'g', 'kind': 0xff, 'inputs': [marker], 'outputs': [{'covhash': {'covhash_of': 'true'}, 'value': '5', 'denom': 'MEL', 'adata': '07'}],
             'fee': '0', 'covenants': ['true'], 'data': ''}
    else:
        g = {'name': 'g', 'kind': kind if kind in (0x00, 0x51, 0x52, 0x53) else 0x00, 'inputs': [{'txhash': {'txhash_of': 'f'}, 'index': 0}, marker],
             'outputs': [{'covhash': {'covhash_of': 'true'}, 'value': '1000', 'denom': 'MEL', 'adata': '07'}], 'fee': '0', 'covenants': ['true'], 'data': ''}
    sc = {'kind': 'batch', 'network': net, 'height': 1, 'fee_pool': '0', 'tips': '0', 'fee_multiplier': '0', 'dosc_speed': '1000000',
          'coins': [], 'probes': [], 'txs': [f, g], 'orders': [[0]], 'steps': [[0], [1], [0], 'seal_next', [0]]}
    out = harness.run_replay([sc], 'dev')[0]
    if 'error' in out or 'unrealizable' in out:
        raise Inconclusive('replay: %s' % str(out)[:300])
    steps = out['steps']
    why = []
    if steps[0].get('result') != 'Ok':
        raise Inconclusive('replay: the faucet itself was rejected: %s' % steps[0])
    if steps[1].get('result') == 'Ok':
        why.append('a transaction naming the faucet marker as an input was accepted')
    if steps[2].get('result') == 'Ok':
        why.append('the faucet was accepted a second time in the same block')
    if len(steps) > 4 and steps[4].get('result') == 'Ok':
        why.append('the faucet was accepted again in the next block')
    if any(s_.get('panicked') for s_ in steps):
        why.append('panic')
    return bool(why), sc, {'why': why, 'steps': steps}


def marker_key(st, txh):
    return M.hash_apply(st, 'single:CoinID', [M.hash_apply(st, 'keyed[fdp]:hashval', [txh]), bv(0, 8)])


def handle_kernel(chk, it):
    G.reset()
    G.atomic_domains = {'single:Transaction'}
    st = State()
    state, sterms = B.sym_state(st.pc)
    B.install_coin_invariants(it, B.cdh_covhash)
    tx, tt = B.sym_tx('tx', 1, 1, 1, st.pc, kind='Faucet', n_sigs=1)  # one arbitrary signature: re-signing must not make a new faucet
    cell = st.alloc(state)
    txc = st.alloc(tx)
    fn = it.by_last['handle_faucet_tx'][0]
    outs = it.exec_fn(st, fn, [Ptr(cell), Ptr(txc)])
    txh = B.tx_hash_term(it, st, tx)
    tree0 = state.fields[3].fields[0].data
    inputs = {'network': sterms['network'], 'height': sterms['height'], 'txhash': txh}
    covers = {}
    n = 0
    for idx, (s, o) in enumerate(outs):
        name = 'handle_faucet_tx/%d' % idx
        rp = lambda mo, s=s: replay(chk, mo, inputs)
        if isinstance(o, Panic):
            chk.obligation('PANIC/' + name, list(s.pc), z3.BoolVal(False), inputs, replay=rp, kind='PANIC', describe=str(o))
            continue
        n += 1
        ok = M.is_variant(o.v, 'Ok')
        tree1 = s.heap[cell].fields[3].fields[0].data
        mk = marker_key(s, txh)
        before = M.tree_get(it, s, tree0, mk)
        after = M.tree_get(it, s, tree1, mk)
        had = z3.BoolVal(False) if isinstance(before, Agg) else before.data.present
        has = z3.BoolVal(False) if isinstance(after, Agg) else after.data.present
        grand = txh == bv(GRAND, 256)
        pcs = list(s.pc)
        chk.obligation('FUNC/mainnet-only-the-grandfathered-faucet/' + name, pcs + [ok, sterms['network'] == 0xff], grand, inputs,
                       replay=rp, bound='any faucet transaction')
        chk.obligation('FUNC/accepted-only-if-not-seen-before/' + name, pcs + [ok], z3.Not(had), inputs, replay=rp)
        chk.obligation('FUNC/accepted-leaves-its-marker/' + name, pcs + [ok, z3.Not(grand)], has, inputs, replay=rp)
        chk.obligation('FUNC/seen-before-is-DuplicateTx/' + name, pcs + [had, z3.Or(sterms['network'] != 0xff, grand)], z3.Not(ok),
                       inputs, replay=rp)
        # frame: nothing but the marker (and its count entry) is written
        writes = [e[2] if e[0] == 'when' else e for e in s.events]
        coin_writes = [w for w in writes if w[0] == 'tree_insert' and M.hash_domain_of(w[2]) == 'single:CoinID']
        chk.obligation('FRAME/only-the-marker-is-written/' + name, pcs,
                       z3.And([w[2] == mk for w in coin_writes]) if coin_writes else z3.BoolVal(True), inputs, replay=rp,
                       kind='FRAME')
        covers.setdefault('accepted off mainnet', []).append((pcs, z3.And(ok, sterms['network'] != 0xff)))
        covers.setdefault('rejected on mainnet', []).append((pcs, z3.And(z3.Not(ok), sterms['network'] == 0xff)))
        covers.setdefault('rejected as duplicate', []).append((pcs, z3.And(z3.Not(ok), had, sterms['network'] != 0xff)))
        chk.sample({'kernel': 'handle_faucet_tx', 'path': idx, 'coin_writes': len(coin_writes)})
    if n == 0:
        raise Inconclusive('handle_faucet_tx has no returning path')
    for cname, alts in covers.items():
        chk.cover_any(cname, alts)


def callsite_kernel(chk, it):
    """create_next_state runs the faucet logic for every faucet transaction: [t] leaves the marker, [t, t] is rejected"""
    for label, dup in (('single', False), ('same-tx-twice', True)):
        G.reset()
        G.atomic_domains = {'single:Transaction'}
        st = State()
        state, sterms = B.sym_state(st.pc)
        B.install_coin_invariants(it, B.cdh_covhash)
        tx, tt = B.sym_tx('tx', 0, 1, 0, st.pc, kind='Faucet')
        txh = B.tx_hash_term(it, st, tx)
        st.pc.append(txh != bv(GRAND, 256))
        rc = Opaque('Map', MapM())
        bcell = st.alloc(Agg('array', [tx, tx] if dup else [tx]))
        rcell = st.alloc(rc)
        fn = it.by_last['create_next_state'][0]
        outs = it.exec_fn(st, fn, [state, Ptr(bcell), Ptr(rcell), z3.Bool('is_tip_906')])
        inputs = {'network': sterms['network'], 'height': sterms['height'], 'txhash': txh}
        n = 0
        for idx, (s, o) in enumerate(outs):
            name = 'create_next_state/%s/%d' % (label, idx)
            rp = lambda mo, s=s, dup=dup: replay(chk, mo, inputs, twice_in_batch=dup)
            if isinstance(o, Panic):
                chk.obligation('PANIC/' + name, list(s.pc), z3.BoolVal(False), inputs, replay=rp, kind='PANIC', describe=str(o))
                continue
            n += 1
            ok = M.is_variant(o.v, 'Ok')
            if dup:
                chk.obligation('FUNC/same-faucet-twice-in-one-batch-rejected/' + name, list(s.pc), z3.Not(ok), inputs, replay=rp)
            else:
                chk.obligation('FUNC/mainnet-rejects/' + name, list(s.pc) + [sterms['network'] == 0xff], z3.Not(ok), inputs, replay=rp)
                if 'Ok' in o.v.payloads:
                    tree1 = o.v.payloads['Ok'][0].fields[3].fields[0].data
                    after = M.tree_get(it, s, tree1, marker_key(s, txh))
                    has = z3.BoolVal(False) if isinstance(after, Agg) else after.data.present
                    chk.obligation('FUNC/accepted-batch-leaves-marker/' + name, list(s.pc) + [ok], has, inputs, replay=rp)
        if n == 0:
            raise Inconclusive('create_next_state has no returning path')


def marker_unspendable(chk, it):
    """validate_tx_scripts on a coin locked to the all-zero covenant hash always fails (no script hashes to it)"""
    G.reset()
    st = State()
    fn = it.by_last['validate_tx_scripts'][0]
    tx, tt = B.sym_tx('tx', 1, 1, 2, st.pc)
    cid, h, ix = S.sym_coinid('spent')
    holder = M.State_for_symvalue()
    cdh = S.sym_value('CoinDataHeight', 'marker', holder)
    st.pc.extend(holder.pc)
    st.pc.append(B.cdh_covhash(cdh) == 0)
    hdr, _ = S.sym_header('last', st.pc)
    # the scripts map as Transaction::covenants_as_map builds it: Address(hash(script)) -> script
    mm = MapM()
    for c in tx.fields[4].fields:
        hsh = M.hash_apply(st, 'single:symbytes', [c.data['id']])
        mm = mm.insert(S.address(hsh), c)
        G.add(hsh != 0)  # A-HASH: no known preimage of the all-zero hash
    good = Opaque('Map', MapM())
    gcell = st.alloc(good)
    outs = it.exec_fn(st, fn, [bv(0, 64), Ptr(st.alloc(cid)), Ptr(st.alloc(tx)), Ptr(st.alloc(cdh)), hdr, Opaque('Map', mm), Ptr(gcell)])
    n = 0
    for idx, (s, o) in enumerate(outs):
        name = 'validate_tx_scripts/%d' % idx
        if isinstance(o, Panic):
            chk.obligation('PANIC/' + name, list(s.pc), z3.BoolVal(False), {}, replay=None, kind='PANIC', describe=str(o))
            continue
        n += 1
        chk.obligation('MARKER-UNSPENDABLE/' + name, list(s.pc), z3.Not(M.is_variant(o.v, 'Ok')), {}, replay=None,
                       bound='any transaction with <= 2 covenants')
    if n == 0:
        raise Inconclusive('validate_tx_scripts has no returning path')


def replay(chk, model, inputs, twice_in_batch=False):
    """a faucet transaction applied twice (same batch, or two batches, or across a sealed block) on the model's network"""
    net = harness.model_int(model, inputs['network'])
    sc = {'kind': 'batch', 'network': net, 'height': 1, 'fee_pool': '0', 'tips': '0', 'fee_multiplier': '0', 'dosc_speed': '1000000',
          'coins': [], 'probes': [],
          'txs': [{'name': 'a', 'kind': 0xff, 'inputs': [],
                   'outputs': [{'covhash': {'covhash_of': 'true'}, 'value': '1000', 'denom': 'MEL', 'adata': ''}], 'fee': '0',
                   'covenants': [], 'data': ''}],
          'orders': [[0, 0]], 'steps': [[0], [0], 'seal_next', [0], [1], [0], 'seal_next', [0]]}
    # b spends the faucet's output, so that only the marker remembers the faucet
    sc['txs'].append({'name': 'b', 'kind': 0, 'inputs': [{'txhash': {'txhash_of': 'a'}, 'index': 0}],
                      'outputs': [{'covhash': {'covhash_of': 'true'}, 'value': '1000', 'denom': 'MEL', 'adata': '01'}], 'fee': '0',
                      'covenants': ['true'], 'data': ''})
    # c is a again with another `sigs` field: the same transaction (hash_nosigs), hence the same faucet
    sc['txs'].append(dict(sc['txs'][0], name='c', sigs=['78']))
    sc['steps'] += [[2]]
    out = harness.run_replay([sc], 'dev')[0]
    if 'error' in out or 'unrealizable' in out:
        raise Inconclusive('replay: %s' % out)
    steps = out['steps']
    same_batch = out['runs'][0]
    why = []
    if net != 0xff and steps[-1].get('result') == 'Ok':
        why.append('a re-signed copy of an applied faucet was accepted again')
    if net == 0xff:
        if steps[0].get('result') == 'Ok':
            why.append('mainnet accepted a faucet')
    else:
        if steps[0].get('result') != 'Ok':
            why.append('first application rejected off mainnet: %s' % steps[0])
        if steps[1].get('result') == 'Ok':
            why.append('second application (next batch, same block) accepted')
        if len(steps) > 3 and steps[3].get('result') == 'Ok':
            why.append('application in the next block accepted')
        if len(steps) > 5 and steps[4].get('result') == 'Ok' and steps[5].get('result') == 'Ok':
            why.append('re-application after its output was spent accepted')
        if len(steps) > 7 and steps[7].get('result') == 'Ok':
            why.append('re-application in a later block after its output was spent accepted')
        if same_batch.get('result') == 'Ok':
            why.append('same faucet twice in one batch accepted')
    if any(s.get('panicked') for s in steps) or same_batch.get('panicked'):
        why.append('panic')
    return bool(why), sc, {'why': why, 'steps': [s.get('result', s) for s in steps], 'same_batch': same_batch.get('result')}

"""C08 - restart equivalence: a state rebuilt from its block behaves identically."""
import re
import z3

from mirsym import shapes as S, models as M
from mirsym.collections import MapM
from mirsym.interp import (State, Agg, Ptr, Panic, Ret, UNINIT, UNIT, bv, Opaque, EnumV, Inconclusive, simp, G, val_eq)
from mirsym import harness
from props import batch as B


def run(chk):
    it = chk.load()
    it = B.prepare(chk)
    S.check_layout(it.adts)
    chk.bounds = {'sealed state': 'arbitrary: all scalar fields symbolic, arbitrary trees, 0-2 transactions in the block, 0-2 stakes, '
                                  'proposer action present or absent', 'compared': 'all 11 UnsealedState fields + the stored action'}
    chk.assume_note('content-addressed store contract: Database::get_tree(root_hash(t)) = t; root hashes are injective in the '
                    'tree contents (novasmt internals are trusted, C07)')
    chk.assume_note('sealed-state invariant used as precondition: a state sealed WITH a proposer action has tips = 0 '
                    '(collect_proposer_action_fee zeroes them, C05)')
    chk.assume_note('behavioural equivalence for every continuation follows from field equality: every later operation is '
                    'a function of these fields only')
    for ntx in (0, 2):
        chk.guard(one, chk, it, ntx)


def one(chk, it, ntx):
    G.reset()
    G.atomic_domains = {'single:Transaction'}
    st = State()
    pc = st.pc
    stakes = MapM()
    for j in range(2):
        stakes = stakes.insert(S.txhash(z3.BitVec('stake%d_txhash' % j, 256)), S.sym_value('StakeDoc', 'stake%d' % j, st))
    state, sterms = B.sym_state(pc, stakes=stakes.entries)
    B.install_history_invariant(it, sterms['height'])
    txs = [B.sym_tx('tx' + 'ab'[i], 1, 1, 1, pc)[0] for i in range(ntx)]
    for i in range(ntx):
        for j in range(i + 1, ntx):
            pc.append(z3.Not(val_eq(txs[i], txs[j])))  # different hashes <=> different transactions (A-HASH)
    from mirsym.collections import MapM as MM_
    tset = MM_(ordered=True)
    for t in txs:
        tset = tset.insert(S.txhash(B.tx_hash_term(it, st, t)), t)
    f = list(state.fields)
    f[4] = Agg('TransactionSet', [Opaque('Map', tset)])
    state = Agg('UnsealedState', f)
    has_action = z3.Bool('has_action')
    action = Agg('ProposerAction', [z3.BitVec('delta', 8), S.address(z3.BitVec('reward_dest', 256))])
    act = EnumV('Option', z3.If(has_action, bv(1, 8), bv(0, 8)), {'Some': (action,), 'None': ()})
    pc.append(z3.Implies(has_action, sterms['tips'] == 0))
    sealed = Agg('SealedState', [state, act])
    it.overrides = [(re.compile(r'transactions_root_hash$'), lambda i, s, a, c: Agg('HashVal', [z3.BitVec('txroot', 256)])),
                    (re.compile(r'StakeSet::pre_tip911$'), lambda i, s, a, c: Opaque('Tree', M.TreeModel('stakes_tree', (), {})))]
    it.join_rx = re.compile('.')
    scell = st.alloc(sealed)
    to_block = it.by_last['to_block'][0]
    from_block = it.by_last['from_block'][0]
    inputs = {'has_action': has_action, 'tips': sterms['tips'], 'height': sterms['height'], 'fee_pool': sterms['fee_pool'],
              'fee_multiplier': sterms['fee_multiplier'], 'dosc_speed': sterms['dosc_speed'], 'network': sterms['network']}
    for j, (k_, v_, g_) in enumerate(stakes.entries):
        inputs['stake%d_e_start' % j] = v_.fields[1]
        inputs['stake%d_e_post_end' % j] = v_.fields[2]
    pc.append(z3.ULE(sterms['height'], 100_000_000))  # P-HEIGHT
    n = 0
    for s1, o1 in it.exec_fn(st, to_block, [Ptr(scell)]):
        rp = lambda mo: replay(chk, mo, inputs, False)
        rp_tips = lambda mo: replay(chk, mo, inputs, True)
        if isinstance(o1, Panic):
            chk.obligation('PANIC/to_block/%dtx' % ntx, list(s1.pc), z3.BoolVal(False), inputs, replay=rp, kind='PANIC', describe=str(o1))
            continue
        block = o1.v
        bcell = s1.alloc(block)
        stk = s1.alloc(state.fields[10])
        db = s1.alloc(Opaque('Database'))
        for s2, o2 in it.exec_fn(s1, from_block, [Ptr(bcell), Ptr(stk), Ptr(db)]):
            name = 'roundtrip/%dtx/%d' % (ntx, n)
            if isinstance(o2, Panic):
                chk.obligation('PANIC/from_block/' + name, list(s2.pc), z3.BoolVal(False), inputs, replay=rp, kind='PANIC', describe=str(o2))
                continue
            n += 1
            rebuilt = o2.v
            ru, ra = rebuilt.fields[0], rebuilt.fields[1]
            pcs = list(s2.pc)
            names = S.UNSEALED_FIELDS
            for i, fname in enumerate(names):
                a, b = state.fields[i], ru.fields[i]
                if fname in ('history', 'coins', 'pools'):
                    claim = M.tree_extensional_eq(it, s2, a.fields[0].data, b.fields[0].data)
                    claim = z3.And(claim, z3.BoolVal(a.fields[0].data.base == b.fields[0].data.base))
                elif fname in ('transactions', 'stakes'):
                    claim = B.map_extensional_eq(a.fields[0].data, b.fields[0].data)
                else:
                    claim = val_eq(a, b)
                chk.obligation('FUNC/field-%s-survives/%s' % (fname, name), pcs, claim, inputs,
                               replay=rp_tips if fname == 'tips' else rp,
                               bound='arbitrary sealed state')
            chk.obligation('FUNC/proposer-action-survives/' + name, pcs, val_eq(act, ra), inputs, replay=rp)
            chk.cover('pending tips without an action/' + name, pcs + [z3.Not(has_action), z3.UGT(sterms['tips'], 0)])
            chk.cover('state sealed with an action/' + name, pcs + [has_action])
            chk.sample({'roundtrip': name, 'events': [str(e[0]) for e in s2.events][:12]})
    if n == 0:
        raise Inconclusive('to_block / from_block have no returning path')
    it.overrides = []


def replay(chk, model, inputs, tips_matter):
    ev = lambda t: harness.model_int(model, t)
    # pending tips only enter the scenario for the tips obligation itself (they are a known finding of their own)
    req = {'kind': 'c08', 'with_action': bool(ev(inputs['has_action'])), 'tips_nonzero': tips_matter and ev(inputs['tips']) != 0}
    # the stop height and the stakes' end epochs, mapped to a height the native build reaches quickly while keeping the
    # position inside the epoch (first / last block or interior) and each stake's distance to the next block's epoch
    EPOCH = 200000
    h = ev(inputs['height'])
    new_epoch = (h + 1) // EPOCH
    e2 = min(new_epoch, 6)
    last_of_epoch, first_of_epoch = (h + 1) % EPOCH == 0, h % EPOCH == 0
    if last_of_epoch and e2 > 0:
        h2 = e2 * EPOCH - 1
    elif first_of_epoch:
        h2 = e2 * EPOCH
    else:
        h2 = e2 * EPOCH + 1 + min(h % EPOCH, 1000)
    if h2 >= 2:
        req['height'] = h2
        stakes = []
        for j in range(2):
            if ('stake%d_e_post_end' % j) in inputs:
                d_end = max(-3, min(3, ev(inputs['stake%d_e_post_end' % j]) - new_epoch))
                d_start = max(-3, min(3, ev(inputs['stake%d_e_start' % j]) - new_epoch))
                stakes.append({'e_start': max(0, (h2 + 1) // EPOCH + d_start), 'e_post_end': max(0, (h2 + 1) // EPOCH + d_end)})
        req['stakes'] = stakes
    out = harness.run_replay([req], 'dev')[0]
    if 'error' in out:
        raise Inconclusive('replay: ' + out['error'])
    bad = bool(out.get('panicked')) or not out.get('same_next_header') or not out.get('same_header')
    if not bad and not tips_matter:
        # the same stop point with a block that also carries a Stake transaction the state-transition function did not register
        # (what the persisted form says about stakes must be what the running node held, nothing derived from the block body)
        req2 = dict(req, unregistered_stake=True)
        out2 = harness.run_replay([req2], 'dev')[0]
        if 'error' in out2:
            raise Inconclusive('replay: ' + out2['error'])
        if bool(out2.get('panicked')) or not out2.get('same_next_header') or not out2.get('same_header'):
            return True, req2, out2
    return bad, req, out

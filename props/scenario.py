"""Turns a solver model of a symbolic batch run into a concrete scenario for the native replay binary, and evaluates
the property's claim on what the real code did (independent, concrete reference computations)."""
import z3

from mirsym import harness, models as M, melmodels as MM, shapes as S
from mirsym.interp import Agg, EnumV, Opaque, Inconclusive, disc_term

DENOM_NAMES = {0: 'MEL', 1: 'SYM', 2: 'ERG', 3: 'NEWCUSTOM'}


def ev(model, t, signed=False):
    return harness.model_int(model, t, signed)


def hx(v):
    return '%064x' % v


class Builder:
    def __init__(self, it, st, run_, model):
        self.it, self.st, self.run, self.model = it, st, run_, model
        self.names = ['abcdef'[i] for i in range(len(run_.txs))]
        # model values of the hash terms that have a native counterpart
        self.txhash_vals = {}
        for nm, tx in zip(self.names, run_.txs):
            from props import batch as B
            self.txhash_vals[ev(model, B.tx_hash_term(it, st, tx))] = nm
        self.cov_choice = {}
        self.covhash_vals = {}
        for nm, tx in zip(self.names, run_.txs):
            for j, cov in enumerate(tx.fields[4].fields):
                cid = cov.data['id']
                dec = ev(model, MM.COV_DECODES(cid))
                choice = 'bad'
                if dec:
                    # truthy unless the model makes some execution of this script false
                    choice = 'true'
                    for e in st.events:
                        e2 = e[2] if e[0] == 'when' else e
                        if e2[0] == 'cov_execute' and ev(model, e2[1]) == ev(model, cid):
                            pass
                    choice = self._exec_choice(cid)
                self.cov_choice[(nm, j)] = choice
                h = M.hash_apply(st, 'single:symbytes', [cid])
                self.covhash_vals[ev(model, h)] = choice

    def _exec_choice(self, cid):
        # look at every COV_EXEC application the model interprets for this script id
        m = self.model
        target = ev(m, cid)
        interp = None
        for d in m.decls():
            if d.name() == 'cov_exec_true':
                interp = m[d]
        if interp is None:
            return 'true'
        any_true = False
        try:
            for i in range(interp.num_entries()):
                e = interp.entry(i)
                if e.arg_value(0).as_long() == target and z3.is_true(e.value()):
                    any_true = True
            if z3.is_true(interp.else_value()):
                any_true = True
        except Exception:
            return 'true'
        return 'true' if any_true else 'false'

    def hashref(self, val):
        if val in self.txhash_vals:
            return {'txhash_of': self.txhash_vals[val]}
        if val in self.covhash_vals:
            return {'covhash_of': self.covhash_vals[val]}
        return {'hex': hx(val)}

    def denomref(self, den):
        tag = ev(self.model, disc_term(den))
        if tag in DENOM_NAMES:
            return DENOM_NAMES[tag]
        h = den.payloads['Custom'][0].fields[0].fields[0]
        return {'custom': self.hashref(ev(self.model, h))}

    def bytes_hex(self, b):
        if isinstance(b, Agg):
            return bytes(ev(self.model, x) for x in b.fields).hex()
        ln = ev(self.model, b.data['len'])
        ident = ev(self.model, b.data['id'])
        if ln == 0:
            return ''
        if ln < 32:
            return (ident & ((1 << (8 * ln)) - 1)).to_bytes(ln, 'big').hex()
        return (ident & 0xffffffff).to_bytes(4, 'big').hex() * 8  # 32 bytes derived from the identity

    def coindata(self, cd):
        return {'covhash': self.hashref(ev(self.model, cd.fields[0].fields[0].fields[0])),
                'value': str(ev(self.model, cd.fields[1].fields[0])),
                'denom': self.denomref(cd.fields[2]), 'adata': self.bytes_hex(cd.fields[3])}

    def coinid(self, cid):
        return {'txhash': self.hashref(ev(self.model, cid.fields[0].fields[0].fields[0])), 'index': ev(self.model, cid.fields[1])}

    def tx_data(self, tx, kind):
        data = tx.fields[5]
        m = self.model
        if kind == S.TXKINDS['Stake']:
            for (ident, ok, val) in self.st.notes.get('deser:StakeDoc', ()):
                if ev(m, ident) == ev(m, data.data['id']) and ev(m, ok):
                    return {'stakedoc': {'pubkey': hx(ev(m, val.fields[0].fields[0])), 'e_start': ev(m, val.fields[1]),
                                         'e_post_end': ev(m, val.fields[2]), 'syms_staked': str(ev(m, val.fields[3].fields[0]))}}
        hook = getattr(self, 'data_hook', None)
        if hook:
            d = hook(self, tx, kind)
            if d is not None:
                return d
        return self.bytes_hex(data)

    def build(self):
        m, run_ = self.model, self.run
        sc = {'kind': 'batch', 'network': ev(m, run_.sterms['network']), 'height': ev(m, run_.sterms['height']),
              'fee_pool': str(ev(m, run_.sterms['fee_pool'])), 'tips': str(ev(m, run_.sterms['tips'])),
              'fee_multiplier': str(ev(m, run_.sterms['fee_multiplier'])), 'dosc_speed': str(ev(m, run_.sterms['dosc_speed'])),
              'coins': [], 'txs': [], 'stakes': [], 'probes': []}
        for (key, v) in self.st.notes.get('base:coins', ()):
            if M.hash_domain_of(key) != 'single:CoinID':
                continue
            if not ev(m, v.data.present):
                continue
            cdh = v.data.value
            ent = self.coindata(cdh.fields[0])
            ent['id'] = {'txhash': self.hashref(ev(m, key.arg(0))), 'index': ev(m, key.arg(1))}
            ent['height'] = ev(m, cdh.fields[1].fields[0])
            if ent['id'] not in [c['id'] for c in sc['coins']]:
                sc['coins'].append(ent)
        for nm, tx in zip(self.names, run_.txs):
            kind = ev(m, disc_term(tx.fields[0]))
            sc['txs'].append({'name': nm, 'kind': kind,
                              'inputs': [self.coinid(c) for c in tx.fields[1].fields],
                              'outputs': [self.coindata(o) for o in tx.fields[2].fields],
                              'fee': str(ev(m, tx.fields[3].fields[0])),
                              'covenants': [self.cov_choice[(nm, j)] for j in range(len(tx.fields[4].fields))],
                              'data': self.tx_data(tx, kind)})
        stk = run_.state0.fields[10].fields[0].data
        for (k, v, g) in stk.entries:
            if ev(m, g):
                sc['stakes'].append({'txhash': self.hashref(ev(m, k.fields[0].fields[0])), 'pubkey': hx(ev(m, v.fields[0].fields[0])),
                                     'e_start': ev(m, v.fields[1]), 'e_post_end': ev(m, v.fields[2]),
                                     'syms_staked': str(ev(m, v.fields[3].fields[0]))})
        for c in sc['coins']:
            sc['probes'].append(c['id'])
        for t in sc['txs']:
            for i in range(len(t['outputs'])):
                sc['probes'].append({'txhash': {'txhash_of': t['name']}, 'index': i})
            for i in t['inputs']:
                if i not in sc['probes']:
                    sc['probes'].append(i)
        return sc


# ---------------------------------------------------------------------------------------------------------------
# concrete reference for C02 evaluated on the native observation


def _res_hash(ref, txhashes):
    if 'hex' in ref:
        return ref['hex']
    if 'txhash_of' in ref:
        return txhashes[ref['txhash_of']]
    return 'cov:' + ref['covhash_of']


def _key(idref, txhashes):
    return (_res_hash(idref['txhash'], txhashes), idref['index'])


DESTROY_HEX = '0' * 64
GRANDFATHERED = '30a60b20830f000f755b70c57c998553a303cc11f8b1f574d5e9f7e26b645d8b'


def c02_verdict(sc, out, order=None):
    """returns (violated: bool, reason)"""
    if 'unrealizable' in out:
        return False, out['unrealizable']
    txh = out['txhashes']
    run = out['runs'][0]
    if run.get('panicked'):
        return True, 'panic: ' + run.get('msg', '')
    before = {_key(c['id'], txh): c for c in sc['coins']}
    probes = [_key(p, txh) for p in sc['probes']]
    obs = dict(zip(probes, run['after']['probes']))
    obs_before = dict(zip(probes, out['before']['probes']))
    if run['result'] != 'Ok':
        for k in probes:
            if obs[k] != obs_before[k]:
                return True, 'rejected batch changed coin %s' % (k,)
        for f in ('fee_pool', 'tips', 'n_coins'):
            if run['after'][f] != out['before'][f]:
                return True, 'rejected batch changed ' + f
        return False, 'rejected, state unchanged'
    # accepted: reference coin set
    ref = {k: True for k in before}
    made = {}
    for t in sc['txs']:
        for i, o in enumerate(t['outputs']):
            cov = o['covhash']
            destroyed = ('hex' in cov and cov['hex'] == DESTROY_HEX)
            if not destroyed:
                made[(txh[t['name']], i)] = (t, o)
    inputs = [_key(i, txh) for t in sc['txs'] for i in t['inputs']]
    if len(set(inputs)) != len(inputs):
        return True, 'accepted batch consumes a coin twice'
    for k in inputs:
        if k not in before and k not in made:
            return True, 'accepted batch spends a coin that neither existed nor is created in the batch: %s' % (k,)
    for k in probes:
        should = (k in before or k in made) and k not in inputs
        if should != (obs[k] is not None):
            return True, 'coin %s: reference says %s, real state says %s' % (k, 'present' if should else 'absent',
                                                                            'present' if obs[k] is not None else 'absent')
        if should and k in made:
            t, o = made[k]
            want_den = o['denom']
            if want_den == 'NEWCUSTOM':
                want_den = {'custom': txh[t['name']]}
            elif isinstance(want_den, dict):
                want_den = {'custom': _res_hash(want_den['custom'], txh)}
            got = obs[k]
            if got['value'] != o['value'] or got['denom'] != want_den or got['adata'] != o['adata'] or got['height'] != sc['height']:
                return True, 'coin %s created with wrong contents: %s vs declared %s' % (k, got, o)
    n_faucet_markers = sum(1 for t in sc['txs'] if t['kind'] == 0xff and txh[t['name']] != GRANDFATHERED)
    n_expected = len((set(before) | set(made)) - set(inputs)) + (out['before']['n_coins'] - len(before)) + n_faucet_markers
    if run['after']['n_coins'] != n_expected:
        return True, 'coin set size %d, reference %d' % (run['after']['n_coins'], n_expected)
    return False, 'accepted, coin set equals the reference'


def panic_verdict(sc, out):
    if 'unrealizable' in out:
        return False, out['unrealizable']
    run = out['runs'][0]
    if run.get('panicked'):
        return True, 'panic: ' + run.get('msg', '')
    if run.get('seal', {}).get('panicked'):
        return True, 'panic in seal: ' + run['seal'].get('msg', '')
    return False, 'no panic (%s)' % run.get('result')


def replay_batch(chk, run_, st, model, verdict=c02_verdict, extra=None):
    b = Builder(chk.interp, st, run_, model)
    sc = b.build()
    if extra:
        sc.update(extra)
    observed = {}
    bad = False
    why = ''
    for prof in ('dev',) if chk.tier == 'quick' else ('dev', 'release'):
        out = harness.run_replay([sc], prof)[0]
        if 'error' in out:
            raise Inconclusive('replay: %s' % out['error'])
        v, reason = verdict(sc, out)
        observed[prof] = {'violated': v, 'reason': reason,
                          'result': out.get('runs', [{}])[0].get('result') if 'runs' in out else out}
        if v:
            bad = True
    return bad, sc, observed


def repair_graph(sc):
    """keeps only the spending graph of a scenario (which transaction spends which coin id) and rebuilds everything else
    so that every transaction is an ordinary, balanced, always-true-covenant MEL transfer.  Used to replay counterexamples
    of kernels that look at the graph only (input lookup / duplicate detection)."""
    true_cov = {'covhash_of': 'true'}
    for c in sc['coins']:
        c.update({'covhash': true_cov, 'value': '1000000', 'denom': 'MEL', 'adata': ''})
        c['height'] = min(c.get('height', 0), max(sc['height'] - 1, 0))
    by_name = dict((t['name'], t) for t in sc['txs'])
    base = {}
    for c in sc['coins']:
        base[(str(c['id']['txhash']), c['id']['index'])] = 1000000
    done = {}

    def settle(t, depth=0):
        if t['name'] in done or depth > len(sc['txs']):
            return
        total = 0
        for i in t['inputs']:
            ref = i['txhash']
            if 'txhash_of' in ref and ref['txhash_of'] in by_name and ref['txhash_of'] != t['name']:
                src = by_name[ref['txhash_of']]
                settle(src, depth + 1)
                if i['index'] < len(src['outputs']):
                    total += int(src['outputs'][i['index']]['value'])
            else:
                total += base.get((str(ref), i['index']), 0)
        n = len(t['outputs'])
        vals = [1] * n
        if n:
            vals[0] = max(total - (n - 1), 0)
        t.update({'kind': 0, 'fee': str(0 if n else total), 'covenants': ['true'], 'data': ''})
        for o, v in zip(t['outputs'], vals):
            o.update({'covhash': true_cov, 'value': str(v), 'denom': 'MEL', 'adata': ''})
        done[t['name']] = True
    for t in sc['txs']:
        settle(t)
    sc['fee_multiplier'] = '0'
    return sc

"""C16 - built-in pools always exist with reserves; liquidity tokens stay fully backed.

Decided on the operations every pool mutation goes through (melstructs PoolState::{swap_many, deposit, withdraw}, executed
from their MIR on an arbitrary pool state), on create_builtins, and on the per-pool token distribution of a deposit batch."""
import re
import z3

from mirsym import shapes as S, models as M, bigmodels as BM
from mirsym.collections import MapM
from mirsym.interp import State, Agg, Ptr, Panic, Ret, UNINIT, UNIT, bv, Opaque, EnumV, Inconclusive, simp, G, val_eq
from mirsym import harness
from props import batch as B

MAXU = (1 << 128) - 1
CAP = 1 << 127  # P-SUPPLY: no denomination's total supply exceeds 2^127, so neither does a reserve or a request total


def I(t):
    return z3.BV2Int(t, False)


def sym_pool(tag=''):
    names = ('lefts', 'rights', 'price_accum', 'liqs')
    vs = [z3.BitVec('pool%s_%s' % (tag, n), 128) for n in names]
    return Agg('PoolState', vs), dict(zip(names, vs))


def melstructs_fn(it, name):
    fs = [f for f in it.by_last.get(name, []) if f.crate == 'melstructs' and 'melswap' in f.name]
    if not fs:
        raise Inconclusive('melstructs %s not found in the MIR' % name)
    return fs[0]


def run(chk):
    it = chk.load()
    it = B.prepare(chk)
    S.check_layout(it.adts)
    chk.bounds = {'pool state': 'arbitrary lefts / rights / liqs / price_accum (u128) with reserves in [1, 2^127]',
                  'amounts': 'request totals in [0, 2^127) (P-SUPPLY: a total supply never exceeds 2^127)',
                  'arithmetic': 'num::BigInt / BigRational exact; queries decided in non-linear integer arithmetic after an '
                                'exact translation (bit-vectors as integers mod 2^128, quotients by the division lemma)'}
    chk.assume_note('num-bigint / num-rational are exact (multiplication, floor / truncating division, integer square root)')
    chk.assume_note('one PoolState operation from an arbitrary pool state covers every history of operations on that pool '
                    '(induction on the invariant: reserves >= 1, reserves <= 2^127)')
    BM.CONFIG['symbolic_ops'] = True
    it.arith_feasibility = True
    import os
    only = os.environ.get('VERIF_ONLY')  # development aid: one kernel alone (never a registered command)
    if only in ('swap', 'deposit', 'withdraw'):
        try:
            chk.guard({'swap': swap_kernel, 'deposit': deposit_kernel, 'withdraw': withdraw_kernel}[only], chk, it)
        finally:
            BM.CONFIG['symbolic_ops'] = False
            it.arith_feasibility = False
        return
    try:
        chk.guard(swap_kernel, chk, it)
        chk.guard(deposit_kernel, chk, it)
        chk.guard(withdraw_kernel, chk, it)
        chk.guard(backing_kernel, chk, it)
    finally:
        BM.CONFIG['symbolic_ops'] = False
        it.arith_feasibility = False
    chk.guard(builtins_kernel, chk, it)
    # backing also needs that what a withdrawal burns are tokens that exist: the withdrawal selector only passes requests
    # whose (single) output is an unspent coin of the pool's liquidity-token denomination
    from props import c15
    chk.guard(c15.selectors, chk, it, only=('withdrawal',))
    # ... and that a pool named by several requests of a block is settled once: settling it twice burns the recorded liquidity
    # twice for tokens that are burnt once
    chk.guard(c15.pool_list_kernel, chk, it)


def _ranges(p, lo=1):
    return [z3.UGE(p['lefts'], lo), z3.UGE(p['rights'], lo), z3.ULE(p['lefts'], CAP), z3.ULE(p['rights'], CAP)]


def swap_kernel(chk, it):
    G.reset()
    st = State()
    pool, p = sym_pool()
    dl, dr = z3.BitVec('in_lefts', 128), z3.BitVec('in_rights', 128)
    # reserves may be EMPTY: a user-created pool can be withdrawn completely, or start from a deposit of (x, 0).  The exact
    # panic region of swap_many is decided here; the settlement code has to stay out of it (C09)
    st.pc += _ranges(p, lo=0) + [z3.ULT(dl, CAP), z3.ULT(dr, CAP)]
    cell = st.alloc(pool)
    outs = it.exec_fn(st, melstructs_fn(it, 'swap_many'), [Ptr(cell), dl, dr])
    inputs = dict(p, in_lefts=dl, in_rights=dr)
    L, R = p['lefts'], p['rights']
    priced = z3.And(z3.UGE(L + dl, 1), z3.UGE(R + dr, 1))  # both reserves non-empty once the batch is paid in
    n = 0
    for idx, (s, o) in enumerate(outs):
        rp = lambda mo: replay_pool(chk, mo, inputs, 'swap_many', 'in_lefts', 'in_rights')
        if isinstance(o, Panic):
            chk.obligation('PANIC/swap_many/%d' % idx, list(s.pc) + [priced], z3.BoolVal(False), inputs, replay=rp, kind='PANIC',
                           describe=str(o), bound='reserves in [0, 2^127], amounts < 2^127, neither reserve empty after paying in', arith='int')
            continue
        n += 1
        chk.obligation('FUNC/swap_many-returns-only-with-both-reserves-non-empty/swap_many/%d' % idx, list(s.pc), priced, inputs, replay=None,
                       bound='outside this region swap_many divides by zero (the exact panic region the callers must avoid)', arith='int')
        lw, rw = o.v.fields
        post = s.heap[cell]
        L2, R2, PA2, LQ2 = post.fields
        name = 'swap_many/%d' % idx
        # proven claims are handed on as lemmas to the later ones (same path condition): non-linear queries need them
        moves = z3.And(I(L2) == I(L) + I(dl) - I(lw), I(R2) == I(R) + I(dr) - I(rw), LQ2 == p['liqs'])
        bound_c = z3.And(I(rw) * (I(L) + I(dl)) * 1000 <= 995 * I(dl) * (I(R) + I(dr)),
                         I(lw) * (I(R) + I(dr)) * 1000 <= 995 * I(dr) * (I(L) + I(dl)))
        chk.obligation('FUNC/payout-at-most-constant-product-less-half-percent/' + name, list(s.pc), bound_c, inputs, replay=rp, arith='int',
                       bound='both sides of a batch settle at the one post-deposit price')
        chk.obligation('FUNC/reserves-move-by-what-was-paid-in-and-out/' + name, list(s.pc) + [bound_c], moves, inputs, replay=rp, arith='int')
        lem = list(s.pc) + [bound_c, moves]
        chk.obligation('FUNC/reserves-stay-non-zero/' + name, lem + [z3.UGE(L, 1), z3.UGE(R, 1)], z3.And(z3.UGE(L2, 1), z3.UGE(R2, 1)), inputs, replay=rp,
                       bound='one swap batch against a pool with non-zero reserves', arith='int')
        chk.obligation('FUNC/reserve-product-never-decreases/' + name, lem,
                       (I(L) + I(dl) - I(lw)) * (I(R) + I(dr) - I(rw)) >= I(L) * I(R), inputs, replay=rp, arith='int')
        chk.obligation('FUNC/payout-is-the-rounded-down-share/' + name, lem,
                       z3.And((I(rw) + 1) * (I(L) + I(dl)) * 1000 > 995 * I(dl) * (I(R) + I(dr)),
                              (I(lw) + 1) * (I(R) + I(dr)) * 1000 > 995 * I(dr) * (I(L) + I(dl))), inputs, replay=rp, arith='int')
        # reachability witness substituted into the query (a linear check instead of a non-linear search)
        pin = [(L, bv(1000, 128)), (R, bv(2000, 128)), (dl, bv(500, 128)), (dr, bv(700, 128))]
        chk.cover_int('two-sided swap with non-zero payouts/' + name,
                      [z3.simplify(z3.substitute(c_, *pin)) for c_ in list(s.pc) + [z3.UGT(lw, 5), z3.UGT(rw, 5)]])
    if not n:
        raise Inconclusive('swap_many has no returning path')


def deposit_kernel(chk, it):
    # ---- deposit into a pool that has liquidity
    G.reset()
    st = State()
    pool, p = sym_pool()
    dl, dr = z3.BitVec('in_lefts', 128), z3.BitVec('in_rights', 128)
    # a pool with liquidity may still have an EMPTY reserve (first deposit of (x, 0)): the exact panic region of deposit
    st.pc += _ranges(p, lo=0) + [z3.ULT(dl, CAP), z3.ULT(dr, CAP), z3.UGE(p['liqs'], 1), z3.ULE(p['liqs'], CAP)]
    cell = st.alloc(pool)
    outs = it.exec_fn(st, melstructs_fn(it, 'deposit'), [Ptr(cell), dl, dr])
    inputs = dict(p, in_lefts=dl, in_rights=dr)
    L, R, LQ = p['lefts'], p['rights'], p['liqs']
    both = z3.And(z3.UGE(L, 1), z3.UGE(R, 1))
    n = 0
    for idx, (s, o) in enumerate(outs):
        rp = lambda mo: replay_pool(chk, mo, inputs, 'deposit', 'in_lefts', 'in_rights')
        if isinstance(o, Panic):
            chk.obligation('PANIC/deposit/%d' % idx, list(s.pc) + [both], z3.BoolVal(False), inputs, replay=rp, kind='PANIC',
                           describe=str(o), bound='reserves in [1, 2^127], liqs in [1, 2^127], amounts < 2^127', arith='int')
            continue
        chk.obligation('FUNC/deposit-into-a-pool-with-liquidity-returns-only-with-both-reserves-non-empty/deposit/%d' % idx, list(s.pc), both,
                       inputs, replay=None, bound='outside this region deposit divides by zero (the panic region the callers must avoid)', arith='int')
        s.pc.append(both)
        n += 1
        delta = o.v
        L2, R2, PA2, LQ2 = s.heap[cell].fields
        name = 'deposit/%d' % idx
        chk.obligation('FUNC/deposit-adds-exactly-what-was-paid-in/' + name, list(s.pc),
                       z3.And(I(L2) == I(L) + I(dl), I(R2) == I(R) + I(dr),
                              I(LQ2) == z3.If(I(LQ) + I(delta) > MAXU, MAXU, I(LQ) + I(delta))), inputs, replay=rp, arith='int',
                       bound='recorded liquidity saturates at u128::MAX (only beyond a token supply of 2^127, outside P-SUPPLY)')
        chk.obligation('FUNC/liquidity-minted-in-proportion-rounded-down/' + name, list(s.pc),
                       I(delta) * I(delta) * I(L) * I(R) <= I(LQ) * I(LQ) * I(dl) * I(dr), inputs, replay=rp, arith='int',
                       bound='delta^2 / liqs^2 <= (lefts * rights) / (pool lefts * pool rights)')
        pin = [(L, bv(1000, 128)), (R, bv(2000, 128)), (LQ, bv(1000, 128)), (dl, bv(500, 128)), (dr, bv(1000, 128))]
        chk.cover_int('deposit that mints liquidity/' + name,
                      [z3.simplify(z3.substitute(c_, *pin)) for c_ in list(s.pc) + [z3.UGT(delta, 5)]])
    if not n:
        raise Inconclusive('deposit has no returning path')
    # ---- first deposit into an empty pool
    G.reset()
    st = State()
    pool, p = sym_pool()
    st.pc += [p['liqs'] == 0, z3.ULT(dl, CAP), z3.ULT(dr, CAP)]
    cell = st.alloc(pool)
    outs = it.exec_fn(st, melstructs_fn(it, 'deposit'), [Ptr(cell), dl, dr])
    inputs = dict(p, in_lefts=dl, in_rights=dr)
    for idx, (s, o) in enumerate(outs):
        rp = lambda mo: replay_pool(chk, mo, inputs, 'deposit', 'in_lefts', 'in_rights')
        if isinstance(o, Panic):
            chk.obligation('PANIC/first-deposit/%d' % idx, list(s.pc), z3.BoolVal(False), inputs, replay=rp, kind='PANIC', describe=str(o))
            continue
        L2, R2, PA2, LQ2 = s.heap[cell].fields
        chk.obligation('FUNC/first-deposit-sets-the-pool/%d' % idx, list(s.pc), z3.And(L2 == dl, R2 == dr, LQ2 == dl, o.v == dl), inputs,
                       replay=rp, bound='liqs == 0: the deposit becomes the pool and mints `lefts` liquidity')


def withdraw_kernel(chk, it):
    G.reset()
    st = State()
    pool, p = sym_pool()
    w = z3.BitVec('burnt_liqs', 128)
    L, R, LQ = p['lefts'], p['rights'], p['liqs']
    # a pool may have been withdrawn completely (liqs == 0, reserves 0): the exact panic region of withdraw
    st.pc += _ranges(p, lo=0) + [z3.ULE(LQ, CAP)]
    cell = st.alloc(pool)
    outs = it.exec_fn(st, melstructs_fn(it, 'withdraw'), [Ptr(cell), w])
    inputs = dict(p, burnt_liqs=w)
    n = 0
    cover_alts = []
    for idx, (s, o) in enumerate(outs):
        rp = lambda mo: replay_pool(chk, mo, inputs, 'withdraw', 'burnt_liqs', None)
        if isinstance(o, Panic):
            # withdraw asserts self.liqs >= liqs: unreachable exactly when the tokens in circulation are backed (w <= liqs)
            chk.obligation('PANIC/withdraw/%d' % idx, list(s.pc) + [z3.ULE(w, LQ), z3.UGE(LQ, 1)], z3.BoolVal(False), inputs, replay=rp, kind='PANIC',
                           describe=str(o), bound='burnt liquidity <= recorded liquidity (the backing invariant), pool has liquidity', arith='int')
            continue
        n += 1
        chk.obligation('FUNC/withdraw-returns-only-from-a-pool-with-liquidity/withdraw/%d' % idx, list(s.pc), z3.UGE(LQ, 1), inputs, replay=None,
                       bound='withdraw(0) from a pool without liquidity divides 0 by 0 (the panic region the callers must avoid)', arith='int')
        s.pc.append(z3.UGE(LQ, 1))
        lo, ro = o.v.fields
        L2, R2, PA2, LQ2 = s.heap[cell].fields
        name = 'withdraw/%d' % idx
        chk.obligation('FUNC/withdrawal-burns-and-pays-exactly/' + name, list(s.pc),
                       z3.And(I(LQ2) == I(LQ) - I(w), I(L2) == I(L) - I(lo), I(R2) == I(R) - I(ro)), inputs, replay=rp, arith='int')
        chk.obligation('FUNC/withdrawal-pays-the-rounded-down-share/' + name, list(s.pc) + [z3.ULT(w, LQ)],
                       z3.And(I(lo) * I(LQ) <= I(L) * I(w), (I(lo) + 1) * I(LQ) > I(L) * I(w),
                              I(ro) * I(LQ) <= I(R) * I(w), (I(ro) + 1) * I(LQ) > I(R) * I(w)), inputs, replay=rp, arith='int')
        chk.obligation('FUNC/partial-withdrawal-leaves-non-zero-reserves/' + name, list(s.pc) + [z3.ULT(w, LQ), z3.UGE(L, 1), z3.UGE(R, 1)],
                       z3.And(z3.UGE(L2, 1), z3.UGE(R2, 1), z3.UGE(LQ2, 1)), inputs, replay=rp, arith='int',
                       bound='a built-in pool keeps 10^9 liquidity owned by nobody, so it is never withdrawn completely')
        # reachability witness handed to the solver (a ground check; finding one from scratch is a non-linear search that takes
        # the better part of the per-query cap on a loaded machine)
        # (substituted, not asserted: the query the solver sees is linear)
        pin = [(L, bv(1000, 128)), (R, bv(2000, 128)), (LQ, bv(100, 128)), (w, bv(10, 128))]
        cover_alts.append([z3.simplify(z3.substitute(c_, *pin)) for c_ in list(s.pc) + [z3.ULT(w, LQ), z3.UGT(lo, 5), z3.UGT(ro, 5)]])
    if not n:
        raise Inconclusive('withdraw has no returning path')
    # vacuity: SOME returning path is a partial withdrawal with non-zero payouts (how the returning paths are split between
    # "everything withdrawn" and "part withdrawn" depends on where the explorer joins)
    from props.c15 import _cover_any_int
    _cover_any_int(chk, 'partial withdrawal with non-zero payout/withdraw', cover_alts)


def builtins_kernel(chk, it):
    """create_builtins (first phase of every seal) from an arbitrary pools tree: afterwards MEL/SYM and MEL/ERG -- and ERG/SYM once
    TIP-902 is active -- are present; a pool that was missing starts with 10^9 / 10^9 reserves and 10^9 liquidity owned by nobody;
    a pool that existed is left as it was.  With the PoolState lemmas above (reserves stay >= 1 under swaps and partial
    withdrawals, and nobody holds the initial 10^9 liquidity) this is the existence-with-reserves claim, by induction over blocks."""
    from props import c15, c01
    G.reset()
    st = State()
    state, sterms = B.sym_state(st.pc)
    st.pc.append(z3.ULE(sterms['height'], 100_000_000))
    pools0 = state.fields[9].fields[0].data
    keys = {'MEL/SYM': c01._poolkey('Mel', 'Sym'), 'MEL/ERG': c01._poolkey('Erg', 'Mel'), 'ERG/SYM': c01._poolkey('Erg', 'Sym')}
    before = dict((n, c15.pool_entry(it, st, pools0, k)) for n, k in keys.items())
    added = [(re.compile(r'PoolKey::new$'), c01.poolkey_new_override)]
    it.overrides = added + list(it.overrides)
    fn = it.by_last['create_builtins'][0]
    try:
        outs = it.exec_fn(st, fn, [state])
    finally:
        it.overrides = [o for o in it.overrides if o not in added]
    netd, h = sterms['network'], sterms['height']
    inputs = {'network': netd, 'height': h}
    for n, e in before.items():
        inputs['had_' + n.replace('/', '_')] = z3.If(e.data.present, bv(1, 8), bv(0, 8))
    k = 0
    for idx, (s, o) in enumerate(outs):
        if isinstance(o, Panic):
            chk.obligation('PANIC/create_builtins/%d' % idx, list(s.pc), z3.BoolVal(False), inputs, replay=lambda mo: replay_builtins(chk, mo, inputs),
                           kind='PANIC', describe=str(o))
            continue
        k += 1
        post = o.v
        tree1 = post.fields[9].fields[0].data
        name = 'create_builtins/%d' % idx
        for n, key in keys.items():
            e0, e1 = before[n], c15.pool_entry(it, s, tree1, key)
            fresh = z3.And([e1.data.value.fields[i] == 10 ** 9 for i in (0, 1, 3)])
            kept = val_eq(e1.data.value, e0.data.value)
            if n == 'ERG/SYM':
                # TIP-902: mainnet from its activation height, testnet from 500, custom networks always -- read off tip_condition
                claim = z3.And(z3.Implies(e0.data.present, z3.And(e1.data.present, kept)),
                               z3.Implies(z3.And(z3.Not(e0.data.present), e1.data.present), fresh))
                chk.obligation('FUNC/ERG-SYM-pool-kept-or-created-fresh/' + name, list(s.pc), claim, inputs,
                               replay=lambda mo: replay_builtins(chk, mo, inputs))
                chk.obligation('FUNC/ERG-SYM-pool-exists-on-custom-networks/' + name, list(s.pc) + [netd != 0xff, netd != 0x01], e1.data.present,
                               inputs, replay=lambda mo: replay_builtins(chk, mo, inputs), bound='every TIP is active on custom networks')
            else:
                claim = z3.And(e1.data.present, z3.If(e0.data.present, kept, fresh))
                chk.obligation('FUNC/%s-pool-exists-after-create_builtins/%s' % (n.replace('/', '-'), name), list(s.pc), claim, inputs,
                               replay=lambda mo: replay_builtins(chk, mo, inputs), bound='kept if it existed, else 10^9 / 10^9 / liqs 10^9')
    if not k:
        raise Inconclusive('create_builtins has no returning path')


def replay_builtins(chk, model, inputs):
    """empty blocks sealed on Custom02, Testnet and Mainnet from a genesis without pools: the built-in pools must exist with
    non-zero reserves after every seal"""
    for net, height in ((2, 0), (2, 7), (1, 3), (0xff, 3)):
        sc = {'kind': 'batch', 'network': net, 'height': height, 'fee_pool': '0', 'tips': '0', 'fee_multiplier': '0', 'dosc_speed': '1000000',
              'coins': [], 'txs': [], 'probes': [], 'melmint_only': 'create_builtins', 'seal': None}
        out = harness.run_replay([sc], 'dev')[0]
        if 'error' in out or 'unrealizable' in out:
            raise Inconclusive('replay: %s' % out)
        run = out['runs'][0]
        for stage in ('melmint', 'seal'):
            o = run.get(stage, {})
            if o.get('panicked'):
                return True, sc, {'stage': stage, 'panic': o.get('msg', '')[-160:]}
            bp = o.get('builtin_pools', {})
            need = ['MEL/SYM', 'MEL/ERG'] + (['ERG/SYM'] if net == 2 else [])
            for n in need:
                p = bp.get(n)
                if not p or int(p['lefts']) == 0 or int(p['rights']) == 0:
                    return True, sc, {'stage': stage, 'network': net, 'missing_or_empty': n, 'pools': bp}
    return False, sc, {'all_present': True}


def backing_kernel(chk, it):
    """liquidity tokens handed out by a deposit batch never exceed the liquidity the pool records for it.
    One request: decided on process_deposits_for_single_pool itself (C15's settlement kernel with the backing claim switched
    on).  Two requests: the per-request formula and the totals are those kernels' (the same closure runs per request, the
    totals are saturating folds); what is decided here is the arithmetic of handing out two rounded-down shares."""
    from props import c15
    from mirsym.bigmodels import isqrt_bv
    c15.deposit_settlement(chk, it, 1, mode='func', backing=True)
    G.reset()
    minted = z3.BitVec('minted_liquidity', 128)
    ls = [z3.BitVec('dep%d_lefts' % i, 128) for i in range(2)]
    rs = [z3.BitVec('dep%d_rights' % i, 128) for i in range(2)]
    pc = [z3.ULE(x, c15.MAX_COINVAL) for x in ls + rs] + [z3.UGE(x, 1) for x in ls + rs] + [z3.ULE(minted, CAP)]
    tl, tr = c15.sat_add(c15.sat_add(bv(0, 128), ls[0]), ls[1]), c15.sat_add(c15.sat_add(bv(0, 128), rs[0]), rs[1])
    total_mt = c15.sat_mul(isqrt_bv(tl), isqrt_bv(tr))
    my = [c15.sat_mul(isqrt_bv(l), isqrt_bv(r)) for l, r in zip(ls, rs)]
    shares = [z3.Int('share_%d' % i) for i in range(2)]
    for sh, m in zip(shares, my):
        pc.append(z3.And(sh >= 0, sh * I(total_mt) <= I(minted) * I(m), (sh + 1) * I(total_mt) > I(minted) * I(m)))
    inputs = {'minted_liquidity': minted, 'shares_exceed_total': z3.If(I(my[0]) + I(my[1]) > I(total_mt), bv(1, 8), bv(0, 8))}
    for i in range(2):
        inputs['dep%d_lefts' % i] = ls[i]
        inputs['dep%d_rights' % i] = rs[i]
    chk.obligation('FUNC/two-depositors-receive-no-more-than-was-minted', pc, shares[0] + shares[1] <= I(minted), inputs,
                   replay=lambda mo: replay_two_deposits(chk, mo, inputs), arith='int',
                   bound='shares = floor(minted * isqrt(l_i)*isqrt(r_i) / (isqrt(l_0+l_1)*isqrt(r_0+r_1))); amounts in [1, 2^120]')


def replay_two_deposits(chk, model, inputs):
    """two deposits into a new MEL/SYM-keyed pool of a chain that has none (so that `minted` is the pool's whole liquidity)"""
    from props import c15
    ev = lambda t: harness.model_int(model, t)
    deps = [(ev(inputs['dep%d_lefts' % i]), ev(inputs['dep%d_rights' % i])) for i in range(2)]
    return c15.run_deposit_scenario(False, 1, 1, 1, deps)


# ---------------------------------------------------------------------------------------------------------------
# native replay: the same operation on the model's numbers, judged by an exact reference in Python integers


def isqrt(n):
    import math
    return math.isqrt(n)


def ref_pool_op(op, pool, a, b):
    """exact reference of the three operations (property text + melswap documentation); returns (out list, new pool) or
    'panic-by-design' for a withdrawal of more than the recorded liquidity"""
    L, R, Q, PA = pool['lefts'], pool['rights'], pool['liqs'], pool['price_accum']
    if op == 'swap_many':
        L1, R1 = min(L + a, MAXU), min(R + b, MAXU)
        if L1 == 0 or R1 == 0:
            return None
        rw = min((a * R1 * 995) // (L1 * 1000), MAXU)
        lw = min((b * L1 * 995) // (R1 * 1000), MAXU)
        if lw > L1 or rw > R1 or R1 - rw == 0:
            return None
        return [lw, rw], {'lefts': L1 - lw, 'rights': R1 - rw, 'liqs': Q}
    if op == 'deposit':
        if Q == 0:
            return [a], {'lefts': a, 'rights': b, 'liqs': a}
        mels, toks = min(a + L, MAXU) - L, min(b + R, MAXU) - R
        d = isqrt((Q * Q * mels * toks) // (L * R)) if L * R else None
        if d is None:
            return None
        d = min(d, MAXU)
        return [d], {'lefts': L + mels, 'rights': R + toks, 'liqs': min(Q + d, MAXU)}
    if op == 'withdraw':
        if a > Q:
            return 'panic-by-design'
        if Q - a == 0:
            return [L, R], {'lefts': 0, 'rights': 0, 'liqs': 0}
        lo, ro = (L * a) // Q, (R * a) // Q
        return [lo, ro], {'lefts': L - lo, 'rights': R - ro, 'liqs': Q - a}
    raise ValueError(op)


def replay_pool(chk, model, inputs, op, a_name, b_name):
    ev = lambda t: harness.model_int(model, t)
    pool = dict((k, ev(inputs[k])) for k in ('lefts', 'rights', 'liqs', 'price_accum'))
    a = ev(inputs[a_name])
    b = ev(inputs[b_name]) if b_name else 0
    req = {'kind': 'pool_op', 'op': op, 'pool': dict((k, str(v)) for k, v in pool.items()), 'a': str(a), 'b': str(b)}
    out = harness.run_replay([req], 'dev')[0]
    if 'error' in out:
        raise Inconclusive('replay: ' + out['error'])
    ref = ref_pool_op(op, pool, a, b)
    why = ''
    if out.get('panicked'):
        if ref != 'panic-by-design':
            why = 'panic: ' + out.get('msg', '')[-160:]
    elif ref is None or ref == 'panic-by-design':
        why = 'the reference has no result here but the code returned %s' % out.get('out')
    else:
        want_out, want_pool = ref
        got_out = [int(x) for x in out['out']]
        got_pool = dict((k, int(out['pool'][k])) for k in ('lefts', 'rights', 'liqs'))
        if got_out != want_out or got_pool != want_pool:
            why = 'code %s / %s, reference %s / %s' % (got_out, got_pool, want_out, want_pool)
    return bool(why), req, {'why': why or 'consistent with the reference', 'native': out}

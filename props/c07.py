"""C07 (partial) - headers commit to the whole state and chain together."""
import re
import z3

from mirsym import shapes as S, models as M
from mirsym.collections import MapM
from mirsym.interp import (State, Agg, Ptr, Panic, Ret, UNINIT, UNIT, bv, Opaque, EnumV, Inconclusive, simp, G, val_eq)
from mirsym import harness
from props import batch as B


def run(chk):
    it = chk.load()
    it = B.prepare(chk)
    S.check_layout(it.adts)
    chk.bounds = {'state': 'arbitrary sealed state (symbolic scalars, arbitrary trees, <= 2 stakes)',
                  'SmtMapping': 'one get / insert / delete / get_with_proof with symbolic key and value'}
    chk.assume_note('PARTIAL: decided is that melstf hands the right component / key / value to novasmt and chains the '
                    'history; NOT decided (outside this technique, DESIGN §5.3): that novasmt roots are functions of the '
                    'contents alone, that its Merkle proofs verify, and the sorted position of a transaction (the imbl '
                    'OrdMap / novasmt dense tree internals are hashing loops over pointer-rich trees)')
    chk.assume_note('root_hash is an uninterpreted injective function of the tree; A-HASH; A-CODEC')
    # the coin tree's leaves are a function of the coin set: after insert_coin / remove_coin exactly the coin leaf and a count
    # leaf for every covenant hash with a non-zero count exist (a stale zero-count leaf would make the root depend on history)
    from props import c20
    chk.assume_note('coin tree canonical form: decided on insert_coin / remove_coin against the CoinMapping contract (as in C20)')
    chk.guard(c20.coin_kernels, chk, it)
    it.base_read_hooks.pop('coins', None)
    chk.guard(header_kernel, chk, it)
    chk.guard(txroot_kernel, chk, it)
    chk.guard(next_kernel, chk, it)
    chk.guard(smt_kernel, chk, it)
    chk.guard(stakes_tree_kernel, chk, it)


def sym_sealed(it, st, nstakes=2):
    stakes = MapM()
    docs = []
    for j in range(nstakes):
        d = S.sym_value('StakeDoc', 'stake%d' % j, st)
        h = z3.BitVec('stake%d_txhash' % j, 256)
        docs.append((h, d))
        stakes = stakes.insert(S.txhash(h), d)
    state, sterms = B.sym_state(st.pc, stakes=stakes.entries)
    B.install_history_invariant(it, sterms['height'])
    st.pc.append(z3.ULE(sterms['height'], 100_000_000))
    sealed = Agg('SealedState', [state, EnumV('Option', 0, {'None': ()})])
    return sealed, state, sterms, docs


def header_kernel(chk, it):
    G.reset()
    st = State()
    sealed, state, sterms, docs = sym_sealed(it, st)
    txroot = z3.BitVec('txroot', 256)
    stakes_tree = M.TreeModel('stakes_tree', (), {})
    calls = []
    it.roots = []
    it.overrides = [(re.compile(r'transactions_root_hash$'), lambda i, s, a, c: (calls.append('txroot'), Agg('HashVal', [txroot]))[1]),
                    (re.compile(r'StakeSet::pre_tip911$'), lambda i, s, a, c: (calls.append('pre_tip911'), Opaque('Tree', stakes_tree))[1])]
    it.join_rx = re.compile('.')
    fn = it.by_last['header'][0]
    outs = it.exec_fn(st, fn, [Ptr(st.alloc(sealed))])
    h = sterms['height']
    inputs = dict(sterms)
    n = 0
    for idx, (s, o) in enumerate(outs):
        name = 'header/%d' % idx
        rp = lambda mo: replay(chk)
        if isinstance(o, Panic):
            chk.obligation('PANIC/' + name, list(s.pc), z3.BoolVal(False), inputs, replay=rp, kind='PANIC', describe=str(o),
                           bound='history holds every height below the current one (I-HIST)')
            continue
        n += 1
        hd = o.v
        roots = {r.sexpr(): tm for r, tm in it.roots}

        def root_of(field):
            t = hd.fields[S.HEADER_FIELDS.index(field)].fields[0]
            return roots.get(t.sexpr())
        struct_ok = (root_of('history_hash') is state.fields[2].fields[0].data and
                     root_of('coins_hash') is state.fields[3].fields[0].data and
                     root_of('pools_hash') is state.fields[9].fields[0].data and
                     root_of('stakes_hash') is stakes_tree)
        x = z3.Bool('roots_wired_%d' % idx)
        chk.obligation('STRUCT/each-root-is-the-root-of-its-own-tree/' + name, list(s.pc) + [x == z3.BoolVal(bool(struct_ok))], x,
                       inputs, replay=rp, kind='FRAME', bound='history / coins / pools / stakes')
        # previous = hash of the header stored at height-1 (all-zero at genesis)
        hist = state.fields[2].fields[0].data
        prevh = M.tree_get(it, s, hist, M.hash_apply(s, 'single:BlockHeight', [h - 1]))
        prev_term = M.hash_apply(s, 'single:Header', M.flatten(prevh.data.value))
        want_prev = z3.If(h == 0, bv(0, 256), prev_term)
        claim = z3.And(val_eq(hd.fields[0], state.fields[0]), hd.fields[1].fields[0] == want_prev,
                       hd.fields[2].fields[0] == h, hd.fields[5].fields[0] == txroot,
                       hd.fields[6].fields[0] == sterms['fee_pool'], hd.fields[7] == sterms['fee_multiplier'],
                       hd.fields[8] == sterms['dosc_speed'])
        chk.obligation('FUNC/scalar-fields-and-previous-hash/' + name, list(s.pc), claim, inputs, replay=rp,
                       bound='any height <= 10^8')
        chk.cover('genesis header/' + name, list(s.pc) + [h == 0])
        chk.cover('non-genesis header/' + name, list(s.pc) + [h == 77])
        chk.sample({'kernel': 'header', 'path': idx, 'calls': list(calls)})
    if n == 0:
        raise Inconclusive('header has no returning path')
    it.overrides = []


def txroot_kernel(chk, it):
    """transactions_root_hash before TIP-908: the value returned is the root of a tree that was built from the state's own
    transaction set and holds, for every transaction, its full serialisation (signatures included) under hash(ser(hash_nosigs)),
    and nothing else -- a function of the contents alone.  Process-wide mutable state the function may consult (a memo table
    behind a Lazy / Mutex) is an arbitrary input here, not something the result may depend on."""
    from mirsym.collections import MapM as _MapM
    for ntx in (0, 1, 2):
        G.reset()
        G.atomic_domains = {'single:Transaction'}
        st = State()
        state, sterms = B.sym_state(st.pc)
        st.pc.append(z3.ULE(sterms['height'], 100_000_000))
        txs, mm = [], _MapM(ordered=True)
        for i in range(ntx):
            tx, tt = B.sym_tx('tx%d' % i, 1, 1, 1, st.pc, n_sigs=1)
            txs.append(tx)
            mm = mm.insert(S.txhash(B.tx_hash_term(it, st, tx)), tx)
        if ntx == 2:
            G.declare_distinct(B.tx_hash_term(it, st, txs[0]), B.tx_hash_term(it, st, txs[1]))
        f = list(state.fields)
        f[4] = Agg('TransactionSet', [Opaque('Map', mm)])
        state = Agg(state.ty, f)
        dense = z3.BitVec('dense_root', 256)
        it.roots = []
        it.overrides = [(re.compile(r'tip908_transactions$'), lambda i, s_, a, c: (s_.events.append(('dense',)), Opaque('Dense', ()))[1]),
                        (re.compile(r'DenseMerkleTree::root_hash$'), lambda i, s_, a, c: Agg('array', [dense]))]
        it.join_rx = None
        fn = it.by_last['transactions_root_hash'][0]
        try:
            outs = it.exec_fn(st, fn, [Ptr(st.alloc(state))])
        finally:
            it.overrides = []
        inputs = dict(sterms)
        n = 0
        for idx, (s, o) in enumerate(outs):
            name = 'transactions_root_hash/%dtx/%d' % (ntx, idx)
            rp = lambda mo: replay(chk)
            if isinstance(o, Panic):
                chk.obligation('PANIC/' + name, list(s.pc), z3.BoolVal(False), inputs, replay=rp, kind='PANIC', describe=str(o))
                continue
            if ('dense',) in s.events:
                continue  # TIP-908 commitment: a dense Merkle tree over sorted leaves (novasmt), outside this kernel
            n += 1
            r = o.v.fields[0]
            roots = {rt.sexpr(): tm for rt, tm in it.roots}
            tm = roots.get(r.sexpr()) if hasattr(r, 'sexpr') else None
            ok = tm is not None and len(tm.entries) == ntx and not getattr(tm, 'base_entries', None)
            conj = []
            if ok:
                for tx in txs:
                    key = M.hash_apply(s, 'single:TxHash', [B.tx_hash_term(it, s, tx)])
                    e = M.tree_get(it, s, tm, key)
                    if isinstance(e, Agg):
                        ok = False
                        break
                    conj.append(z3.And(e.data.present, val_eq(e.data.value, tx)))
            x = z3.Bool('txroot_is_root_of_own_tree_%d_%d' % (ntx, idx))
            claim = z3.And(x, *conj) if ok else x
            chk.obligation('FUNC/transaction-root-is-a-function-of-the-transaction-set-alone/' + name, list(s.pc) + [x == z3.BoolVal(bool(ok))], claim,
                           inputs, replay=rp, bound='%d transaction(s) with symbolic signatures; networks / heights without TIP-908' % ntx)
        if n == 0:
            raise Inconclusive('transactions_root_hash has no pre-TIP-908 returning path')


def next_kernel(chk, it):
    G.reset()
    st = State()
    sealed, state, sterms, docs = sym_sealed(it, st, nstakes=0)
    hdr, hterms = S.sym_header('hdr', st.pc)
    it.overrides = [(re.compile(r'SealedState::<.*>::header$'), lambda i, s_, a, c: hdr),
                    (re.compile(r'apply_tip_906_for_next_state'), lambda i, s_, a, c: UNIT)]
    it.join_rx = re.compile('.')
    fn = it.by_last['next_unsealed'][0]
    outs = it.exec_fn(st, fn, [Ptr(st.alloc(sealed))])
    h = sterms['height']
    inputs = dict(sterms)
    for idx, (s, o) in enumerate(outs):
        name = 'next_unsealed/%d' % idx
        rp = lambda mo: replay(chk)
        if isinstance(o, Panic):
            chk.obligation('PANIC/' + name, list(s.pc), z3.BoolVal(False), inputs, replay=rp, kind='PANIC', describe=str(o))
            continue
        ns = o.v
        hist1 = ns.fields[2].fields[0].data
        hist0 = state.fields[2].fields[0].data
        # history' = history[h -> header(self)] : the new entry, and any other height untouched
        at_h = M.tree_get(it, s, hist1, M.hash_apply(s, 'single:BlockHeight', [h]))
        k = z3.BitVec('other_height', 64)
        other1 = M.tree_get(it, s, hist1, M.hash_apply(s, 'single:BlockHeight', [k]))
        other0 = M.tree_get(it, s, hist0, M.hash_apply(s, 'single:BlockHeight', [k]))
        claim = z3.And(at_h.data.present, val_eq(at_h.data.value, hdr), z3.Implies(k != h, M.bytes_eq(other1, other0)),
                       ns.fields[1].fields[0] == h + 1, val_eq(ns.fields[0], state.fields[0]),
                       z3.BoolVal(len(ns.fields[4].fields[0].data.entries) == 0),
                       val_eq(Agg('t', [ns.fields[i] for i in (5, 6, 7, 8)]), Agg('t', [state.fields[i] for i in (5, 6, 7, 8)])))
        chk.obligation('FUNC/history-extended-height-advanced-txset-emptied/' + name, list(s.pc), claim,
                       dict(inputs, other_height=k), replay=rp, bound='any height, any other history key')
        same_trees = (ns.fields[3].fields[0].data is state.fields[3].fields[0].data and
                      ns.fields[9].fields[0].data is state.fields[9].fields[0].data)
        x = z3.Bool('trees_kept_%d' % idx)
        chk.obligation('FRAME/coins-and-pools-carried-over/' + name, list(s.pc) + [x == z3.BoolVal(bool(same_trees))], x, inputs,
                       replay=rp, kind='FRAME')
    it.overrides = []


def smt_kernel(chk, it):
    """SmtMapping<BlockHeight, Header>: key = hash(ser(k)), value = ser(v), delete = empty value, proof for that key"""
    for op in ('get', 'insert', 'delete', 'get_with_proof'):
        G.reset()
        st = State()
        tm = M.TreeModel('history', (), B.HIST_TYPES)
        mcell = st.alloc(Agg('SmtMapping', [Opaque('Tree', tm), UNIT, UNIT]))
        k = z3.BitVec('key_height', 64)
        hdr, _ = S.sym_header('val', st.pc)
        fn = [f for f in it.by_last[op] if 'smtmapping' in f.name][0]
        it.join_rx = re.compile('.')
        if op == 'insert':
            args = [Ptr(mcell), S.blockheight(k), hdr]
        else:
            args = [Ptr(mcell), Ptr(st.alloc(S.blockheight(k)))]
        outs = it.exec_fn(st, fn, args)
        key = M.hash_apply(st, 'single:BlockHeight', [k])
        for idx, (s, o) in enumerate(outs):
            name = 'SmtMapping::%s/%d' % (op, idx)
            if isinstance(o, Panic):
                chk.obligation('PANIC/' + name, list(s.pc), z3.BoolVal(False), {'key': k}, replay=None, kind='PANIC', describe=str(o),
                               bound='stored values decode (A-CODEC)')
                continue
            t1 = s.heap[mcell].fields[0].data
            base = M.tree_get(it, s, tm, key)
            if op == 'get':
                claim = z3.And(M.is_variant(o.v, 'Some') == base.data.present,
                               z3.Implies(base.data.present, val_eq(o.v.payloads['Some'][0], base.data.value)) if 'Some' in o.v.payloads else z3.Not(base.data.present))
            elif op == 'get_with_proof':
                opt, proof = o.v.fields
                claim = z3.And(M.is_variant(opt, 'Some') == base.data.present, z3.BoolVal(proof.data[1].eq(key)))
            elif op == 'insert':
                after = M.tree_get(it, s, t1, key)
                claim = z3.And(after.data.present, val_eq(after.data.value, hdr), z3.BoolVal(len(t1.entries) == 1))
            else:
                after = M.tree_get(it, s, t1, key)
                claim = z3.And(M.bytes_is_empty(it, s, after), z3.BoolVal(len(t1.entries) == 1))
            chk.obligation('FUNC/' + name, list(s.pc), claim, {'key': k}, replay=None, bound='any key / value')


def stakes_tree_kernel(chk, it):
    """pre_tip911: the stake commitment tree maps hash(ser(txhash)) to ser(doc) for exactly the stored stakes"""
    G.reset()
    st = State()
    stakes = MapM()
    docs = []
    for j in range(2):
        d = S.sym_value('StakeDoc', 'stake%d' % j, st)
        h = z3.BitVec('stake%d_txhash' % j, 256)
        docs.append((h, d))
        stakes = stakes.insert(S.txhash(h), d)
    st.pc.append(docs[0][0] != docs[1][0])
    it.join_rx = re.compile('.')
    fn = [f for f in it.by_last['pre_tip911'] if f.crate == 'tip911_stakeset'][0]
    outs = it.exec_fn(st, fn, [Ptr(st.alloc(Agg('StakeSet', [Opaque('Map', stakes)])))])
    q = z3.BitVec('any_txhash', 256)
    for idx, (s, o) in enumerate(outs):
        name = 'pre_tip911/%d' % idx
        if isinstance(o, Panic):
            chk.obligation('PANIC/' + name, list(s.pc), z3.BoolVal(False), {}, replay=None, kind='PANIC', describe=str(o))
            continue
        tm = o.v.data
        got = M.tree_get(it, s, tm, M.hash_apply(s, 'single:TxHash', [q]))
        present = z3.BoolVal(False) if isinstance(got, Agg) else got.data.present
        want_p = z3.Or([q == h for h, _ in docs])
        conj = [present == want_p]
        for h, d in docs:
            if not isinstance(got, Agg):
                conj.append(z3.Implies(q == h, val_eq(got.data.value, d)))
        chk.obligation('FUNC/stake-tree-holds-exactly-the-stakes/' + name, list(s.pc), z3.And(conj), {'any_txhash': q}, replay=None,
                       bound='2 stakes, any probed transaction hash')


def replay(chk):
    req = {'kind': 'c07_header'}
    out = harness.run_replay([req], 'dev')[0]
    if 'error' in out:
        raise Inconclusive('replay: ' + out['error'])
    return bool(out.get('panicked')) or bool(out.get('mismatches')), req, out

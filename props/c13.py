"""C13 - staked SYM is locked for the life of the stake; voting power follows the stakes."""
import re
import z3

from mirsym import shapes as S, models as M
from mirsym.collections import MapM, map_lookup
from mirsym.interp import State, Agg, Ptr, Panic, Ret, UNINIT, UNIT, bv, Opaque, EnumV, Inconclusive, simp, G, val_eq
from mirsym import harness
from props import batch as B

STAKE_EPOCH = 200000


def run(chk):
    it = chk.load()
    it = B.prepare(chk)
    B.abstract_base_fee(it)
    S.check_layout(it.adts)
    chk.bounds = {'stake transaction': '1-2 outputs, arbitrary data bytes / stake document', 'stakes in the set': '<= 2 (+ 1 new)',
                  'heights / epochs': 'full u64 (height <= 10^8 for the epoch arithmetic)', 'networks': 'all 9'}
    chk.assume_note('stdcode::deserialize of the data bytes is an arbitrary Result that is a function of the bytes')
    chk.assume_note('grandfathered rules (mainnet/testnet below height 500000 for registration, 900000 for the lock) are '
                    'carved out exactly as the property states them')
    chk.assume_note('voting power sums (votes / total_votes) are discharged in C14; the stake commitment root in C07')
    chk.guard(register_kernel, chk, it)
    chk.guard(lock_kernel, chk, it)
    chk.guard(unlock_kernel, chk, it)


def old_rules(netd, h, limit):
    return z3.And(z3.Or(netd == 0xff, netd == 0x01), z3.ULT(h, limit))


def register_kernel(chk, it):
    for nout in (1, 2, 0):
        G.reset()
        G.atomic_domains = {'single:Transaction'}
        st = State()
        state, sterms = B.sym_state(st.pc)
        st.pc.append(z3.ULE(sterms['height'], 100_000_000))
        tx, tt = B.sym_tx('tx', 1, nout, 1, st.pc, kind='Stake')
        scell = st.alloc(state)
        bcell = st.alloc(Agg('array', [tx]))
        fn = it.by_last['load_stake_info'][0]
        outs = it.exec_fn(st, fn, [Ptr(scell), Ptr(bcell)])
        txh = B.tx_hash_term(it, st, tx)
        netd, h = sterms['network'], sterms['height']
        inputs = {'network': netd, 'height': h}
        inputs.update(dict(('tx_' + k, v) for k, v in tt.items()))
        reads = G.memo.get('deser:StakeDoc', [])
        epoch = z3.UDiv(h, bv(STAKE_EPOCH, 64))
        covers = {}
        n = 0
        for idx, (s, o) in enumerate(outs):
            name = 'load_stake_info/%dout/%d' % (nout, idx)
            rp = lambda mo, s=s: replay_register(chk, mo, tt, sterms, nout)
            if isinstance(o, Panic):
                chk.obligation('PANIC/' + name, list(s.pc), z3.BoolVal(False), inputs, replay=rp, kind='PANIC', describe=str(o))
                continue
            n += 1
            ok = M.is_variant(o.v, 'Ok')
            reads = G.memo.get('deser:StakeDoc', [])
            pcs = list(s.pc)
            old = old_rules(netd, h, 500000)
            if not reads:
                # data never decoded on this outcome: only legal under the old rules
                chk.obligation('FUNC/undecoded-only-under-old-rules/' + name, pcs, old, inputs, replay=rp)
                continue
            ident, dec_ok, doc = reads[0]
            registered = z3.BoolVal(False)
            regdoc = None
            if 'Ok' in o.v.payloads:
                found, regdoc = map_lookup(o.v.payloads['Ok'][0].data, S.txhash(txh))
                registered = z3.And(ok, found)
            if nout >= 1:
                out0 = tx.fields[2].fields[0]
                is_sym = M.is_variant(out0.fields[2], 'Sym')
                consistent = z3.And(z3.UGT(doc.fields[1], epoch), z3.UGT(doc.fields[2], doc.fields[1]),
                                    doc.fields[3].fields[0] == out0.fields[1].fields[0])
                want = z3.And(z3.Not(old), dec_ok, is_sym, consistent)
                chk.obligation('FUNC/registered-iff-well-formed-stake/' + name, pcs, registered == want, inputs, replay=rp,
                               bound='any stake document / first output')
                if regdoc is not None:
                    chk.obligation('FUNC/registered-document-is-the-declared-one/' + name, pcs + [registered], val_eq(regdoc, doc),
                                   inputs, replay=rp)
                chk.obligation('FUNC/undecodable-or-non-SYM-is-malformed/' + name, pcs + [z3.Not(old), z3.Or(z3.Not(dec_ok), z3.Not(is_sym))],
                               z3.Not(ok), inputs, replay=rp)
                covers.setdefault('a stake gets registered', []).append((pcs, registered))
                covers.setdefault('an inconsistent stake is let through unregistered', []).append(
                    (pcs, z3.And(ok, z3.Not(registered), z3.Not(old), dec_ok)))
            else:
                chk.obligation('FUNC/no-output-never-registers/' + name, pcs, z3.Not(registered), inputs, replay=rp)
                chk.obligation('FUNC/no-output-is-malformed/' + name, pcs + [z3.Not(old), dec_ok], z3.Not(ok), inputs, replay=rp)
            chk.sample({'kernel': 'load_stake_info', 'outputs': nout, 'path': idx})
        if n == 0:
            raise Inconclusive('load_stake_info has no returning path')
        for cname, alts in covers.items():
            chk.cover_any('%s/%dout' % (cname, nout), alts)


def sym_stakedoc(name):
    return Agg('StakeDoc', [Agg('Ed25519PK', [z3.BitVec(name + '_pubkey', 256)]), z3.BitVec(name + '_e_start', 64),
                            z3.BitVec(name + '_e_post_end', 64), S.coinvalue(z3.BitVec(name + '_syms', 128))])


def lock_kernel(chk, it):
    """check_tx_validity: an input created by a registered (or just-registered) stake transaction => CoinLocked"""
    G.reset()
    G.atomic_domains = {'single:Transaction'}
    st = State()
    sh0 = z3.BitVec('stake0_txhash', 256)
    # the state may hold no stake at all (a fresh network, or every stake expired), and the batch may register none
    has0, has_new = z3.Bool('stake0_registered'), z3.Bool('newstake_registered')
    stakes = MapM().insert(S.txhash(sh0), sym_stakedoc('stake0'), has0)
    state, sterms = B.sym_state(st.pc, stakes=stakes.entries)
    B.install_history_invariant(it, sterms['height'])
    st.pc.append(z3.UGE(sterms['height'], 1))
    st.pc.append(z3.ULE(sterms['height'], 100_000_000))
    tx, tt = B.sym_tx('tx', 2, 1, 1, st.pc, exclude_kinds=('DoscMint',))
    nh = z3.BitVec('newstake_txhash', 256)
    new_stakes = Opaque('Map', MapM().insert(S.txhash(nh), sym_stakedoc('newstake'), has_new))
    # relevant coins: both inputs present (arbitrary data)
    rc = MapM()
    tot = z3.BitVecVal(0, 136)
    for i, cid in enumerate(tx.fields[1].fields):
        holder = M.State_for_symvalue()
        cdh = S.sym_value('CoinDataHeight', 'rc%d' % i, holder)
        rc = rc.insert(cid, cdh)
        st.pc.extend(holder.pc)
        tot = tot + z3.ZeroExt(8, cdh.fields[0].fields[1].fields[0])
    st.pc.append(z3.ULE(tot, z3.BitVecVal(1 << 127, 136)))  # P-SUPPLY on the coins being spent
    st.pc.append(z3.ULE(tt['fee'], 1 << 120))  # is_well_formed, checked by load_relevant_coins before
    st.pc.append(z3.ULE(tt['out0_value'], 1 << 120))
    c0, c1 = tx.fields[1].fields
    st.pc.append(z3.Not(val_eq(c0, c1)))  # load_relevant_coins has already rejected repeated inputs (C02)
    fn = it.by_last['check_tx_validity'][0]
    outs = it.exec_fn(st, fn, [Ptr(st.alloc(state)), Ptr(st.alloc(tx)), Ptr(st.alloc(Opaque('Map', rc))), Ptr(st.alloc(new_stakes))])
    netd, h = sterms['network'], sterms['height']
    inputs = {'network': netd, 'height': h, 'stake0_txhash': sh0, 'newstake_txhash': nh,
              'stake0_registered': z3.If(has0, bv(1, 8), bv(0, 8)), 'newstake_registered': z3.If(has_new, bv(1, 8), bv(0, 8))}
    inputs.update(dict(('tx_' + k, v) for k, v in tt.items()))
    ins = [(c.fields[0].fields[0].fields[0]) for c in tx.fields[1].fields]
    touches = z3.Or([z3.Or(z3.And(has0, x == sh0), z3.And(has_new, x == nh)) for x in ins])
    # the staked coin itself is output 0 of the stake transaction (the property locks that coin; whether the change outputs
    # of a stake transaction are locked as well is not part of it)
    idxs = [c.fields[1] for c in tx.fields[1].fields]
    touches_staked = z3.Or([z3.And(z3.Or(z3.And(has0, x == sh0), z3.And(has_new, x == nh)), i == 0) for x, i in zip(ins, idxs)])
    old = old_rules(netd, h, 900000)
    n = 0
    covers = {}
    for idx, (s, o) in enumerate(outs):
        name = 'check_tx_validity/%d' % idx
        rp = lambda mo, s=s: replay_lock(chk, mo, sterms)
        if isinstance(o, Panic):
            chk.obligation('PANIC/' + name, list(s.pc) + B.supply_bound(s), z3.BoolVal(False), inputs, replay=None, kind='PANIC',
                           describe=str(o))
            continue
        n += 1
        ok = M.is_variant(o.v, 'Ok')
        pcs = list(s.pc)
        chk.obligation('FUNC/spending-the-staked-coin-is-rejected/' + name, pcs + [touches_staked, z3.Not(old)], z3.Not(ok), inputs,
                       replay=rp, bound='2 inputs, 1 registered + 1 just-registered stake')
        if 'Err' in o.v.payloads:
            e = o.v.payloads['Err'][0]
            chk.obligation('FUNC/CoinLocked-only-for-stake-outputs/' + name, pcs + [z3.Not(ok), M.is_variant(e, 'CoinLocked')],
                           z3.And(touches, z3.Not(old)), inputs, replay=rp)
            covers.setdefault('CoinLocked reachable', []).append((pcs, z3.And(z3.Not(ok), M.is_variant(e, 'CoinLocked'))))
        covers.setdefault('old rules let a stake output through', []).append((pcs, z3.And(ok, touches, old)))
        chk.sample({'kernel': 'check_tx_validity', 'path': idx})
    if n == 0:
        raise Inconclusive('check_tx_validity has no returning path')
    for cname, alts in covers.items():
        chk.cover_any(cname, alts)


def unlock_kernel(chk, it):
    """next_unsealed drops exactly the stakes with e_post_end < epoch(height + 1): locked through the end of epoch
    e_post_end, gone from the following epoch on"""
    G.reset()
    st = State()
    docs = [sym_stakedoc('stake%d' % j) for j in range(2)]
    hs = [z3.BitVec('stake%d_txhash' % j, 256) for j in range(2)]
    st.pc.append(hs[0] != hs[1])
    stakes = MapM()
    for hsh, d in zip(hs, docs):
        stakes = stakes.insert(S.txhash(hsh), d)
    state, sterms = B.sym_state(st.pc, stakes=stakes.entries)
    st.pc.append(z3.ULE(sterms['height'], 100_000_000))
    hdr, _ = S.sym_header('hdr', st.pc)
    it.overrides = [o for o in it.overrides if 'header' not in o[0].pattern and 'apply_tip_906' not in o[0].pattern] + [
        (re.compile(r'SealedState::<.*>::header$'), lambda i, s_, a, c: hdr),
        (re.compile(r'apply_tip_906_for_next_state'), lambda i, s_, a, c: UNIT)]
    sealed = Agg('SealedState', [state, EnumV('Option', 0, {'None': ()})])
    fn = it.by_last['next_unsealed'][0]
    outs = it.exec_fn(st, fn, [Ptr(st.alloc(sealed))])
    h = sterms['height']
    new_epoch = z3.UDiv(h + 1, bv(STAKE_EPOCH, 64))
    inputs = {'height': h, 'network': sterms['network']}
    for j, d in enumerate(docs):
        inputs['stake%d_e_post_end' % j] = d.fields[2]
    n = 0
    for idx, (s, o) in enumerate(outs):
        name = 'next_unsealed/%d' % idx
        rp = lambda mo, s=s: replay_unlock(chk, mo, inputs)
        if isinstance(o, Panic):
            chk.obligation('PANIC/' + name, list(s.pc), z3.BoolVal(False), inputs, replay=rp, kind='PANIC', describe=str(o))
            continue
        n += 1
        ns = o.v
        mm = ns.fields[10].fields[0].data
        conj = []
        for hsh, d in zip(hs, docs):
            found, val = map_lookup(mm, S.txhash(hsh))
            conj.append(found == z3.UGE(d.fields[2], new_epoch))
            if val is not None:
                conj.append(z3.Implies(found, val_eq(val, d)))
        chk.obligation('FUNC/stake-kept-iff-end-epoch-not-passed/' + name, list(s.pc), z3.And(conj), inputs, replay=rp,
                       bound='2 stakes, any height <= 10^8')
        chk.obligation('FUNC/height-advances-by-one/' + name, list(s.pc), ns.fields[1].fields[0] == h + 1, inputs, replay=rp)
        chk.cover('a stake expires at this block/' + name, list(s.pc) + [docs[0].fields[2] + 1 == new_epoch, z3.UGT(new_epoch, 0)])
        chk.cover('a stake survives an epoch boundary/' + name, list(s.pc) + [docs[0].fields[2] == new_epoch,
                                                                             z3.URem(h + 1, bv(STAKE_EPOCH, 64)) == 0])
    if n == 0:
        raise Inconclusive('next_unsealed has no returning path')
    it.overrides = [o for o in it.overrides if 'header' not in o[0].pattern and 'apply_tip_906' not in o[0].pattern]


# ---- native replays ---------------------------------------------------------------------------------------------

def _stake_scenario(net, height, doc, out_value, out_denom, extra_steps, two_out=True):
    outs = [{'covhash': {'covhash_of': 'true'}, 'value': str(out_value), 'denom': out_denom, 'adata': ''}]
    coins = [{'id': {'txhash': {'hex': '22' * 32}, 'index': 0}, 'covhash': {'covhash_of': 'true'}, 'value': str(out_value),
              'denom': out_denom, 'adata': '', 'height': 0},
             {'id': {'txhash': {'hex': '33' * 32}, 'index': 0}, 'covhash': {'covhash_of': 'true'}, 'value': '5', 'denom': 'MEL',
              'adata': '', 'height': 0},
             {'id': {'txhash': {'hex': '44' * 32}, 'index': 0}, 'covhash': {'covhash_of': 'true'}, 'value': '7', 'denom': 'MEL',
              'adata': '', 'height': 0}]
    txs = [{'name': 'a', 'kind': 0x10, 'inputs': [{'txhash': {'hex': '22' * 32}, 'index': 0}, {'txhash': {'hex': '33' * 32}, 'index': 0}],
            'outputs': outs + [{'covhash': {'covhash_of': 'true'}, 'value': '5', 'denom': 'MEL', 'adata': ''}], 'fee': '0',
            'covenants': ['true'], 'data': {'stakedoc': doc}},
           {'name': 'b', 'kind': 0, 'inputs': [{'txhash': {'txhash_of': 'a'}, 'index': 0}, {'txhash': {'hex': '44' * 32}, 'index': 0}],
            'outputs': [{'covhash': {'covhash_of': 'true'}, 'value': str(out_value), 'denom': out_denom, 'adata': '01'},
                        {'covhash': {'covhash_of': 'true'}, 'value': '7', 'denom': 'MEL', 'adata': '01'}], 'fee': '0',
            'covenants': ['true'], 'data': ''}]
    return {'kind': 'batch', 'network': net, 'height': height, 'fee_pool': '0', 'tips': '0', 'fee_multiplier': '0',
            'dosc_speed': '1000000', 'coins': coins, 'txs': txs, 'probes': [], 'steps': extra_steps}


def replay_register(chk, model, tt, sterms, nout):
    ev = lambda t: harness.model_int(model, t)
    net, h = ev(sterms['network']), min(ev(sterms['height']), 3_000_000)
    reads = G.memo.get('deser:StakeDoc', [])
    if not reads or nout == 0:
        raise Inconclusive('no native scenario for this counterexample shape')
    ident, dec_ok, doc = reads[0]
    d = {'pubkey': '%064x' % ev(doc.fields[0].fields[0]), 'e_start': ev(doc.fields[1]), 'e_post_end': ev(doc.fields[2]),
         'syms_staked': str(ev(doc.fields[3].fields[0]))}
    val = ev(tt['out0_value'])
    den = {0: 'MEL', 1: 'SYM', 2: 'ERG'}.get(ev(tt['out0_denom_tag']), 'MEL')
    sc = _stake_scenario(net, h, d, val, den, [[0]])
    out = harness.run_replay([sc], 'dev')[0]
    if 'error' in out or 'unrealizable' in out:
        raise Inconclusive('replay: %s' % out)
    step = out['steps'][0]
    epoch = h // STAKE_EPOCH
    old = net in (0xff, 1) and h < 500000
    want_reg = (not old) and den == 'SYM' and d['e_start'] > epoch and d['e_post_end'] > d['e_start'] and int(d['syms_staked']) == val
    # the stake set after the step is visible through a second, empty batch observation
    sc2 = dict(sc)
    sc2['orders'] = [[0]]
    out2 = harness.run_replay([sc2], 'dev')[0]
    stakes_after = out2['runs'][0]['after']['stakes']
    got_reg = len(stakes_after) > 0
    bad = bool(step.get('panicked')) or (got_reg != want_reg) or ((not old) and den != 'SYM' and step.get('result') == 'Ok')
    return bad, sc, {'result': step.get('result'), 'registered': got_reg, 'expected_registered': want_reg}


def replay_lock(chk, model, sterms):
    ev = lambda t: harness.model_int(model, t)
    net, h = ev(sterms['network']), min(ev(sterms['height']), 3_000_000)
    epoch = h // STAKE_EPOCH
    d = {'pubkey': '00' * 32, 'e_start': epoch + 1, 'e_post_end': epoch + 3, 'syms_staked': '1000'}
    sc = _stake_scenario(net, h, d, 1000, 'SYM', [[0, 1]])
    sc2 = _stake_scenario(net, h, d, 1000, 'SYM', [[0], [1]])
    o1 = harness.run_replay([sc], 'dev')[0]
    o2 = harness.run_replay([sc2], 'dev')[0]
    old = net in (0xff, 1) and h < 900000
    why = []
    if not old:
        if o1['steps'][0].get('result') == 'Ok':
            why.append('stake and the spend of its output accepted in one batch')
        if o2['steps'][0].get('result') == 'Ok' and o2['steps'][1].get('result') == 'Ok':
            why.append('the output of a registered stake was spent in a later batch')
    return bool(why), sc, {'why': why, 'same_batch': o1['steps'], 'later_batch': o2['steps']}


def replay_unlock(chk, model, inputs):
    """same relation between the stake's end epoch and the epoch of the next block as in the model, at a height the
    native build reaches quickly"""
    ev = lambda t: harness.model_int(model, t)
    h = ev(inputs['height'])
    net = ev(inputs['network'])
    bad_any, last = False, None
    for j in (0, 1):
        end = ev(inputs['stake%d_e_post_end' % j])
        new_epoch = (h + 1) // STAKE_EPOCH
        delta = max(-3, min(3, end - new_epoch))
        boundary = (h + 1) % STAKE_EPOCH == 0
        e2 = min(new_epoch, 10)
        h2 = e2 * STAKE_EPOCH - 1 if (boundary and e2 > 0) else e2 * STAKE_EPOCH + min((h + 1) % STAKE_EPOCH, 1000)
        end2 = e2 + delta
        if end2 < 0:
            continue
        req = {'kind': 'c13_unlock', 'network': net, 'height': h2, 'e_post_end': end2}
        out = harness.run_replay([req], 'dev')[0]
        if 'error' in out:
            raise Inconclusive('replay: ' + out['error'])
        want = end2 >= (h2 + 1) // STAKE_EPOCH
        last = (req, dict(out, expected_kept=want))
        if out.get('panicked') or out.get('kept') != want:
            return True, req, dict(out, expected_kept=want)
    if last is None:
        raise Inconclusive('no native scenario for this counterexample')
    return False, last[0], last[1]

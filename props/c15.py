"""C15 - Melswap settles only genuine requests, at one fair price, pro rata.

Kernels (real MIR of src/state/melmint.rs): the three request selectors, the three per-pool settlement functions on 1-2
requests against an arbitrary pool, multiply_frac.  melstructs PoolState::{swap_many, deposit, withdraw} run inline; their
own laws are decided in C16."""
import re
import z3

from mirsym import shapes as S, models as M, bigmodels as BM
from mirsym.collections import MapM
from mirsym.interp import State, Agg, Ptr, Panic, Ret, UNINIT, UNIT, bv, Opaque, EnumV, Inconclusive, simp, G, val_eq, disc_term
from mirsym import harness
from props import batch as B

MAXU = (1 << 128) - 1
CAP = 1 << 127
MAX_COINVAL = 1 << 120


def I(t):
    return z3.BV2Int(t, False)


def run(chk):
    it = chk.load()
    it = B.prepare(chk)
    S.check_layout(it.adts)
    chk.bounds = {'requests per pool': 'swaps and withdrawals: 1-2 (three requests did not finish within the budget); deposits: 1; every request has all fields symbolic',
                  'pool': 'arbitrary pool key (two different denominations) and pool state with reserves and liquidity in [1, 2^127]',
                  'amounts': 'outputs <= 2^120 (Transaction::is_well_formed)',
                  'arithmetic': 'exact translation to non-linear integer arithmetic (mirsym/intify.py)'}
    chk.assume_note('num-bigint / num-rational are exact; Ratio<u128>::new reduces to lowest terms (value-preserving)')
    chk.assume_note('the pools tree maps a pool key to an arbitrary PoolState satisfying the pool invariant of C16 '
                    '(reserves and liquidity in [1, 2^127]); one settlement from such a state covers every history')
    chk.assume_note('A-HASH, A-CODEC; CoinMapping::insert_coin / remove_coin through their contracts (C20)')
    from props.c15_poolkey import poolkey_kernel
    import os
    if os.environ.get('VERIF_ONLY') == 'poolkey':  # development aid: one kernel alone (never a registered command)
        chk.guard(poolkey_kernel, chk, it)
        return
    BM.CONFIG['symbolic_ops'] = True
    it.arith_feasibility = True
    try:
        chk.guard(frac_kernel, chk, it)
        for n in (1, 2):
            chk.guard(swap_settlement, chk, it, n)
        for n in (1, 2):
            chk.guard(withdraw_settlement, chk, it, n)
        # deposits: one request per pool through the whole settlement function (wiring + per-request formula); batches of
        # several deposits only differ in the totals, which are the same saturating folds as in the swap / withdrawal kernels
        chk.guard(deposit_settlement, chk, it, 1)
    finally:
        BM.CONFIG['symbolic_ops'] = False
        it.arith_feasibility = False
    chk.guard(selectors, chk, it)
    chk.guard(pool_list_kernel, chk, it)
    chk.guard(poolkey_kernel, chk, it)


# ---------------------------------------------------------------------------------------------------------------


def frac_kernel(chk, it):
    """multiply_frac(x, n/d) = min(u128::MAX, floor(x * n / d))"""
    # the model of Ratio<u128> keeps numerator and denominator unreduced: exact as long as their only consumer rebuilds the
    # same rational, which is what multiply_frac does -- asserted here on the MIR of the tree under check
    users = set()
    for name, fns in it.funcs.items():
        for f in fns:
            if f.crate != 'melstf' or not getattr(f, '_raw', None):
                continue
            for blk in f._raw.values():
                if any(re.search(r'Ratio::<u128>::(numer|denom)\(', str(t)) for t in blk.stmts):
                    users.add(name.split('::{')[0])
    x_ = z3.Bool('ratio_parts_only_in_multiply_frac')
    chk.obligation('STRUCT/ratio-parts-are-only-read-by-multiply_frac', [x_ == z3.BoolVal(users <= {'multiply_frac'})], x_, {}, replay=None,
                   kind='FRAME', bound='users: %s' % (sorted(users) or 'none'))
    G.reset()
    st = State()
    x, n, d = z3.BitVec('x', 128), z3.BitVec('frac_n', 128), z3.BitVec('frac_d', 128)
    st.pc += [z3.UGE(d, 1)]
    frac = Opaque('RatioU', (I(n), I(d), 128, n, d))
    fn = it.by_last['multiply_frac'][0]
    outs = it.exec_fn(st, fn, [x, frac])
    inputs = {'x': x, 'frac_n': n, 'frac_d': d}
    k = 0
    for idx, (s, o) in enumerate(outs):
        rp = lambda mo: replay_frac(chk, mo, inputs)
        if isinstance(o, Panic):
            chk.obligation('PANIC/multiply_frac/%d' % idx, list(s.pc), z3.BoolVal(False), inputs, replay=rp, kind='PANIC',
                           describe=str(o), bound='denominator >= 1', arith='int')
            continue
        k += 1
        r = o.v
        chk.obligation('FUNC/multiply_frac-is-the-rounded-down-product/%d' % idx, list(s.pc),
                       z3.And(z3.Implies(I(r) < MAXU, z3.And(I(r) * I(d) <= I(x) * I(n), (I(r) + 1) * I(d) > I(x) * I(n))),
                              z3.Implies(I(r) == MAXU, MAXU * I(d) <= I(x) * I(n))), inputs, replay=rp, arith='int',
                       bound='all u128 x, n and d >= 1')
    if not k:
        raise Inconclusive('multiply_frac has no returning path')


def replay_frac(chk, model, inputs):
    ev = lambda t: harness.model_int(model, t)
    x, n, d = ev(inputs['x']), ev(inputs['frac_n']), ev(inputs['frac_d'])
    req = {'kind': 'multiply_frac', 'x': str(x), 'n': str(n), 'd': str(d)}
    out = harness.run_replay([req], 'dev')[0]
    if 'error' in out:
        raise Inconclusive('replay: ' + out['error'])
    if out.get('panicked'):
        return d != 0, req, out
    want = min((x * n) // d, MAXU) if d else None
    if int(out['out']) != want:
        return True, req, dict(out, expected=str(want))
    # fixed candidates next to the model's values: shares of large amounts whose numerator and denominator have no common
    # factor (where machine-integer rational arithmetic overflows although the share itself is below 1)
    for x2, n2, d2 in (((1 << 100) + 1, (1 << 70) + 1, (1 << 71) + 1), ((1 << 127) - 1, (1 << 64) + 1, (1 << 65) + 3), ((1 << 90) + 7, 3, 7)):
        req2 = {'kind': 'multiply_frac', 'x': str(x2), 'n': str(n2), 'd': str(d2)}
        out2 = harness.run_replay([req2], 'dev')[0]
        want2 = min((x2 * n2) // d2, MAXU)
        if 'error' not in out2 and (out2.get('panicked') or int(out2['out']) != want2):
            return True, req2, dict(out2, expected=str(want2))
    return False, req, dict(out, expected=str(want))


# ---------------------------------------------------------------------------------------------------------------


# ---------------------------------------------------------------------------------------------------------------
# melstructs PoolState operations enter the settlement kernels through contracts; C16 decides, on their MIR, that the
# real operations satisfy exactly these relations from every pool state with non-zero reserves (assume-guarantee)

_CONTRACT_N = [0]


def _fresh_u128(tag):
    _CONTRACT_N[0] += 1
    return z3.BitVec('%s!c%d' % (tag, _CONTRACT_N[0]), 128)


def sat_add(a, b):
    r = a + b
    return z3.If(z3.ULT(r, a), bv(MAXU, 128), r)


def swap_many_contract(itp, st, args, ctx):
    from mirsym.summaries import deref
    ps = deref(itp, st, args[0])
    L, R, PA, LQ = ps.fields
    dl, dr = args[1], args[2]
    L1, R1 = sat_add(L, dl), sat_add(R, dr)
    outs = []
    # exact panic region (C16 swap kernel on the melstructs MIR): swap_many divides by a reserve that is still empty after the
    # batch was paid in
    ok = simp(z3.And(z3.UGE(L1, 1), z3.UGE(R1, 1), z3.ULE(L, CAP), z3.ULE(R, CAP), z3.ULT(dl, CAP), z3.ULT(dr, CAP)))
    if not z3.is_true(ok) and itp.feasible(st, z3.Not(ok)):
        f = st.fork()
        f.assume(z3.Not(ok))
        outs.append((f, Panic('swap_many divides by an empty reserve (or is outside reserves <= 2^127, amounts < 2^127)', ctx.fn.name)))
    if z3.is_true(ok) or itp.feasible(st, ok):
        st.assume(ok)
        lw, rw, pa2 = _fresh_u128('swap_lw'), _fresh_u128('swap_rw'), _fresh_u128('swap_pa')
        G.add(z3.Implies(ok, z3.And(I(rw) * I(L1) * 1000 <= 995 * I(dl) * I(R1), (I(rw) + 1) * I(L1) * 1000 > 995 * I(dl) * I(R1),
                                    I(lw) * I(R1) * 1000 <= 995 * I(dr) * I(L1), (I(lw) + 1) * I(R1) * 1000 > 995 * I(dr) * I(L1),
                                    z3.ULE(lw, L1), z3.ULE(rw, R1),
                                    z3.Implies(z3.And(z3.UGE(L, 1), z3.UGE(R, 1)), z3.And(z3.ULT(lw, L1), z3.ULT(rw, R1))))))
        itp.store(st, args[0], Agg(ps.ty, [L1 - lw, R1 - rw, pa2, LQ]))
        st.events.append(('swap_many', {'L': L, 'R': R, 'LQ': LQ, 'dl': dl, 'dr': dr, 'L1': L1, 'R1': R1, 'lw': lw, 'rw': rw}))
        outs.append((st, Ret(Agg('tuple', [lw, rw]))))
    return outs


def deposit_contract(itp, st, args, ctx):
    from mirsym.summaries import deref, ite_st
    ps = deref(itp, st, args[0])
    L, R, PA, LQ = ps.fields
    dl, dr = args[1], args[2]
    outs = []
    empty = simp(LQ == 0)
    region = simp(z3.Or(LQ == 0, z3.And(z3.UGE(L, 1), z3.UGE(R, 1), z3.ULE(L, CAP), z3.ULE(R, CAP), z3.ULE(LQ, CAP))))
    amounts = simp(z3.And(z3.ULT(dl, CAP), z3.ULT(dr, CAP)))
    ok = simp(z3.And(region, amounts))
    if not z3.is_true(ok) and itp.feasible(st, z3.Not(ok)):
        f = st.fork()
        f.assume(z3.Not(ok))
        outs.append((f, Panic('deposit outside the region its contract is proven for', ctx.fn.name)))
    if z3.is_true(ok) or itp.feasible(st, ok):
        st.assume(ok)
        delta = _fresh_u128('deposit_delta')
        # existing pool: delta^2 * L * R <= liqs^2 * lefts * rights (minted in proportion, rounded down)
        G.add(z3.Implies(z3.And(ok, LQ != 0), I(delta) * I(delta) * I(L) * I(R) <= I(LQ) * I(LQ) * I(dl) * I(dr)))
        new_existing = [L + dl, R + dr, PA, sat_add(LQ, delta)]
        new_first = [dl, dr, PA, dl]
        fields = [z3.If(empty, a, b) for a, b in zip(new_first, new_existing)]
        ret = z3.If(empty, dl, delta)
        itp.store(st, args[0], Agg(ps.ty, [simp(x) for x in fields]))
        st.events.append(('deposit', {'L': L, 'R': R, 'LQ': LQ, 'dl': dl, 'dr': dr, 'ret': ret, 'delta': delta}))
        outs.append((st, Ret(simp(ret))))
    return outs


def withdraw_contract(itp, st, args, ctx):
    from mirsym.summaries import deref
    ps = deref(itp, st, args[0])
    L, R, PA, LQ = ps.fields
    w = args[1]
    outs = []
    # exact panic region (C16 withdraw kernel on the melstructs MIR): more than the pool records, or a pool without liquidity
    region = simp(z3.And(z3.ULE(L, CAP), z3.ULE(R, CAP), z3.UGE(LQ, 1), z3.ULE(LQ, CAP)))
    ok = simp(z3.And(region, z3.ULE(w, LQ)))
    if not z3.is_true(ok) and itp.feasible(st, z3.Not(ok)):
        f = st.fork()
        f.assume(z3.Not(ok))
        outs.append((f, Panic('withdraw of more liquidity than the pool records (assertion failed: self.liqs >= liqs), or from a pool without liquidity (0/0)',
                              ctx.fn.name)))
    if z3.is_true(ok) or itp.feasible(st, ok):
        st.assume(ok)
        lo, ro = _fresh_u128('withdraw_lefts'), _fresh_u128('withdraw_rights')
        allout = w == LQ
        G.add(z3.Implies(z3.And(ok, z3.Not(allout)),
                         z3.And(I(lo) * I(LQ) <= I(L) * I(w), (I(lo) + 1) * I(LQ) > I(L) * I(w),
                                I(ro) * I(LQ) <= I(R) * I(w), (I(ro) + 1) * I(LQ) > I(R) * I(w), z3.ULE(lo, L), z3.ULE(ro, R),
                                z3.Implies(z3.UGE(L, 1), z3.ULT(lo, L)), z3.Implies(z3.UGE(R, 1), z3.ULT(ro, R)))))
        G.add(z3.Implies(z3.And(ok, allout), z3.And(lo == L, ro == R)))
        itp.store(st, args[0], Agg(ps.ty, [L - lo, R - ro, PA, LQ - w]))
        st.events.append(('withdraw', {'L': L, 'R': R, 'LQ': LQ, 'w': w, 'lo': lo, 'ro': ro}))
        outs.append((st, Ret(Agg('tuple', [lo, ro]))))
    return outs


def install_pool_contracts(it):
    added = [(re.compile(r'PoolState::swap_many$|melswap::<impl at [^>]*>::swap_many$'), swap_many_contract),
             (re.compile(r'PoolState::deposit$|melswap::<impl at [^>]*>::deposit$'), deposit_contract),
             (re.compile(r'PoolState::withdraw$|melswap::<impl at [^>]*>::withdraw$'), withdraw_contract),
             (re.compile(r'PoolKey::liq_token_denom$'), liq_token_override)]
    it.overrides = added + list(it.overrides)
    return added


WEAK_POOLS = [False]  # C09 (panic mode): pools of the tree may have EMPTY reserves / no liquidity (user-created pools can be drained)


def sym_pool_setup(chk, it, st):
    """(state, sterms, pool key, key term, pool-state-before terms); pool invariant attached to every sample of the pools tree"""
    state, sterms = B.sym_state(st.pc)
    st.pc.append(z3.ULE(sterms['height'], 100_000_000))
    holder = M.State_for_symvalue()
    pk = S.sym_value('PoolKey', 'pool', holder)
    st.pc.extend(holder.pc)
    st.pc.append(z3.Not(val_eq(pk.fields[0], pk.fields[1])))

    def hook(itp, s_, key, dom, v):
        ps = v.data.value
        for i in (0, 1, 3):
            lo = 0 if WEAK_POOLS[0] else 1
            G.add(z3.Implies(v.data.present, z3.And(z3.UGE(ps.fields[i], lo), z3.ULE(ps.fields[i], CAP))))
    it.base_read_hooks['pools'] = hook
    return state, sterms, pk


def pool_entry(it, st, tree, pk):
    key = M.hash_apply(st, 'single:PoolKey', M.flatten(pk))
    return M.tree_get(it, st, tree, key)


def swap_settlement(chk, it, n, mode='func'):
    """mode 'func': the functional claims on the returning paths (C15); mode 'panic': only the panic-freedom obligations (C09)"""
    import itertools
    G.reset()
    G.atomic_domains = {'single:Transaction'}
    st = State()
    state, sterms, pk = sym_pool_setup(chk, it, st)
    txs, tts = [], []
    for i in range(n):
        tx, tt = B.sym_tx('tx' + 'abc'[i], 1, 2 if i == 0 else 1, 1, st.pc)
        txs.append(tx)
        tts.append(tt)
        for j in range(len(tx.fields[2].fields)):
            st.pc.append(z3.ULE(tt['out%d_value' % j], MAX_COINVAL))
        # what the selector guarantees (decided in `selectors`): the first output is of one of the pool's two denominations
        d0 = tx.fields[2].fields[0].fields[2]
        st.pc.append(z3.Or(val_eq(d0, pk.fields[0]), val_eq(d0, pk.fields[1])))
    hs = [B.tx_hash_term(it, st, tx) for tx in txs]
    for i in range(n):
        for j in range(i + 1, n):
            G.declare_distinct(hs[i], hs[j])
    pools0 = state.fields[9].fields[0].data
    before = pool_entry(it, st, pools0, pk)
    st.pc.append(before.data.present)  # the selector only passes requests whose pool exists
    L, R, PA, LQ = before.data.value.fields
    scell = st.alloc(state)
    vcell = st.alloc(Agg('Vec', txs))
    fn = it.by_last['process_swaps_for_single_pool'][0]
    added = install_pool_contracts(it)
    try:
        outs = it.exec_fn(st, fn, [Ptr(st.alloc(pk)), Ptr(scell), Ptr(vcell)])
    finally:
        it.overrides = [o for o in it.overrides if o not in added]
    inputs = {'pool_lefts': L, 'pool_rights': R, 'pool_liqs': LQ, 'height': sterms['height']}
    vals, lefts = [], []
    for i, (tx, tt) in enumerate(zip(txs, tts)):
        inputs['swap%d_value' % i] = tt['out0_value']
        is_left = val_eq(tx.fields[2].fields[0].fields[2], pk.fields[0])
        inputs['swap%d_pays_left' % i] = z3.If(is_left, bv(1, 8), bv(0, 8))
        vals.append(tt['out0_value'])
        lefts.append(is_left)
    k = 0
    covers = []
    for idx, (s, o) in enumerate(outs):
        name = 'process_swaps_for_single_pool/%dswaps/%d' % (n, idx)
        rp = lambda mo: replay_swaps(chk, mo, inputs, n)
        if isinstance(o, Panic):
            if mode == 'panic':
                chk.obligation('PANIC/' + name, list(s.pc), z3.BoolVal(False), inputs, replay=rp, kind='PANIC', describe=str(o),
                               bound='%d swap request(s) against an existing pool with non-zero reserves' % n, arith='int')
            continue
        k += 1
        if mode == 'panic':
            continue
        post_state = s.heap[scell]
        after = pool_entry(it, s, post_state.fields[9].fields[0].data, pk)
        L2, R2, PA2, LQ2 = after.data.value.fields
        new_txs = s.heap[vcell].fields
        coins1 = post_state.fields[3].fields[0].data
        # one case per assignment of sides to the requests: keeps the sums free of case distinctions
        for sides in itertools.product((True, False), repeat=n):
            tagc = name + '/sides=' + ''.join('L' if b_ else 'R' for b_ in sides)
            pcs = list(s.pc) + [lf if b_ else z3.Not(lf) for lf, b_ in zip(lefts, sides)]
            total_l = z3.Sum([I(v) for v, b_ in zip(vals, sides) if b_] or [z3.IntVal(0)])
            total_r = z3.Sum([I(v) for v, b_ in zip(vals, sides) if not b_] or [z3.IntVal(0)])
            lw = I(L) + total_l - I(L2)   # what left the pool on each side
            rw = I(R) + total_r - I(R2)
            # the pool is updated by exactly one swap_many(total lefts, total rights) on the pool's previous state: with the
            # swap_many laws of C16 this is "one price for the whole batch, 0.5% fee, reserve product never decreases"
            calls = [e[1] for e in s.events if e[0] == 'swap_many'] + \
                    [e[2][1] for e in s.events if e[0] == 'when' and e[2][0] == 'swap_many']
            if len(calls) != 1:
                raise Inconclusive('expected exactly one swap_many per pool settlement, saw %d' % len(calls))
            c = calls[0]
            chk.obligation('FUNC/pool-is-updated-by-one-swap_many-of-the-totals/' + tagc, pcs,
                           z3.And(after.data.present, c['L'] == L, c['R'] == R, I(c['dl']) == total_l, I(c['dr']) == total_r,
                                  L2 == c['L1'] - c['lw'], R2 == c['R1'] - c['rw'], LQ2 == LQ,
                                  I(c['L1']) == I(L) + total_l, I(c['R1']) == I(R) + total_r), inputs, replay=rp, arith='int',
                           bound='totals = sums of the requests\' first outputs per side (no saturation below 2^127)')
            lw, rw = I(c['lw']), I(c['rw'])
            total_l, total_r = I(c['dl']), I(c['dr'])  # the very terms the shares are computed from
            payout_l, payout_r = z3.IntVal(0), z3.IntVal(0)
            for i, (tx0, tx1) in enumerate(zip(txs, new_txs)):
                o0, o1 = tx0.fields[2].fields[0], tx1.fields[2].fields[0]
                v0, v1 = o0.fields[1].fields[0], o1.fields[1].fields[0]
                other = pk.fields[1] if sides[i] else pk.fields[0]  # paid in the left denomination => paid out in the right one
                chk.obligation('FUNC/request-%d-is-paid-in-the-other-denomination-of-its-pool/%s' % (i, tagc), pcs,
                               z3.And(val_eq(o1.fields[2], other), val_eq(o1.fields[0], o0.fields[0]), val_eq(o1.fields[3], o0.fields[3])),
                               inputs, replay=rp, arith='int')
                side_out = rw if sides[i] else lw
                side_total = total_l if sides[i] else total_r
                chk.obligation('FUNC/request-%d-gets-its-pro-rata-share-rounded-down/%s' % (i, tagc), pcs,
                               z3.And(I(v1) * side_total <= side_out * I(v0),
                                      z3.Implies(z3.And(I(v1) < MAX_COINVAL, side_total > 0), (I(v1) + 1) * side_total > side_out * I(v0)),
                                      z3.Implies(side_total == 0, I(v1) == 0)), inputs, replay=rp,
                               arith='int', bound='share = floor(side payout * own amount / side total), capped at 2^120')
                if sides[i]:
                    payout_r = payout_r + I(v1)
                else:
                    payout_l = payout_l + I(v1)
                # the rewritten output replaces the coin at the request's first output id, at the block height
                p1, c1 = B.coin_lookup(it, s, coins1, hs[i], bv(0, 8))
                want = Agg('CoinDataHeight', [o1, S.blockheight(sterms['height'])])
                chk.obligation('FUNC/request-%d-coin-is-rewritten-in-place/%s' % (i, tagc), pcs, z3.And(p1, val_eq(c1, want)), inputs,
                               replay=rp, arith='int')
                for j in range(1, len(tx0.fields[2].fields)):
                    chk.obligation('FRAME/request-%d-other-outputs-untouched/%s' % (i, tagc), pcs,
                                   val_eq(tx1.fields[2].fields[j], tx0.fields[2].fields[j]), inputs, replay=rp, kind='FRAME')
            chk.obligation('FUNC/coins-receive-no-more-than-left-the-pool/' + tagc, pcs, z3.And(payout_l <= lw, payout_r <= rw), inputs,
                           replay=rp, arith='int', bound="sum of the rounded-down shares per side <= that side's payout")
            covers.append(pcs + [total_l + total_r > 1000, I(new_txs[0].fields[2].fields[0].fields[1].fields[0]) > 5])
    if not k:
        raise Inconclusive('process_swaps_for_single_pool has no returning path')
    if mode == 'func':
        hit = False
        why = []
        for c in covers:
            res, payload, _ = chk.solve_int(c)
            if res == 'sat':
                hit = True
                break
            why.append('%s: %s' % (res, str(payload)[:120]))
        if not hit:
            print('cover attempts:', why[:4])
        chk.covers.append({'id': 'swap with a non-trivial payout/%dswaps' % n, 'reachable': hit})
        if not hit:
            raise Inconclusive('vacuity guard: no settlement with a non-trivial payout is reachable')
    it.base_read_hooks.pop('pools', None)


def _settlement_setup(chk, it, n, n_outs, first_denom_of_pool=None):
    G.reset()
    G.atomic_domains = {'single:Transaction'}
    st = State()
    state, sterms, pk = sym_pool_setup(chk, it, st)
    txs, tts = [], []
    for i in range(n):
        tx, tt = B.sym_tx('tx' + 'abc'[i], 1, n_outs, 1, st.pc)
        txs.append(tx)
        tts.append(tt)
        for j in range(n_outs):
            st.pc.append(z3.ULE(tt['out%d_value' % j], MAX_COINVAL))
    hs = [B.tx_hash_term(it, st, tx) for tx in txs]
    for i in range(n):
        for j in range(i + 1, n):
            G.declare_distinct(hs[i], hs[j])
    return st, state, sterms, pk, txs, tts, hs


def _one_event(s, name):
    calls = [e[1] for e in s.events if e[0] == name] + [e[2][1] for e in s.events if e[0] == 'when' and e[2][0] == name]
    if len(calls) != 1:
        raise Inconclusive('expected exactly one %s per pool settlement, saw %d' % (name, len(calls)))
    return calls[0]


def withdraw_settlement(chk, it, n, mode='func'):
    st, state, sterms, pk, txs, tts, hs = _settlement_setup(chk, it, n, 1)
    liq = liq_denom(st, pk)
    for tx in txs:
        st.pc.append(val_eq(tx.fields[2].fields[0].fields[2], liq))  # selector: the burnt coin is the pool's liquidity token
    pools0 = state.fields[9].fields[0].data
    before = pool_entry(it, st, pools0, pk)
    st.pc.append(before.data.present)
    L, R, PA, LQ = before.data.value.fields
    vals = [tt['out0_value'] for tt in tts]
    total = z3.Sum([I(v) for v in vals]) if n > 1 else I(vals[0])
    scell = st.alloc(state)
    vcell = st.alloc(Agg('Vec', txs))
    fn = it.by_last['process_withdrawals_for_single_pool'][0]
    added = install_pool_contracts(it)
    try:
        outs = it.exec_fn(st, fn, [Ptr(st.alloc(pk)), Ptr(scell), Ptr(vcell)])
    finally:
        it.overrides = [o for o in it.overrides if o not in added]
    inputs = {'pool_lefts': L, 'pool_rights': R, 'pool_liqs': LQ, 'height': sterms['height']}
    for i, v in enumerate(vals):
        inputs['burn%d_value' % i] = v
    k = 0
    cov = []
    for idx, (s, o) in enumerate(outs):
        name = 'process_withdrawals_for_single_pool/%dreq/%d' % (n, idx)
        rp = lambda mo: replay_withdrawals(chk, mo, inputs, n)
        if isinstance(o, Panic):
            if mode == 'panic':
                # the tokens in circulation are backed: what is burnt in one block never exceeds the recorded liquidity
                chk.obligation('PANIC/' + name, list(s.pc) + [total <= I(LQ)], z3.BoolVal(False), inputs, replay=rp, kind='PANIC',
                               describe=str(o), bound='%d withdrawal(s); burnt total <= recorded liquidity (backing invariant, C16)' % n,
                               arith='int')
            continue
        k += 1
        if mode == 'panic':
            continue
        c = _one_event(s, 'withdraw')
        post_state = s.heap[scell]
        after = pool_entry(it, s, post_state.fields[9].fields[0].data, pk)
        L2, R2, PA2, LQ2 = after.data.value.fields
        pcs = list(s.pc)
        chk.obligation('FUNC/pool-is-updated-by-one-withdraw-of-the-total/' + name, pcs,
                       z3.And(after.data.present, c['L'] == L, c['R'] == R, c['LQ'] == LQ, I(c['w']) == total,
                              L2 == L - c['lo'], R2 == R - c['ro'], LQ2 == LQ - c['w']), inputs, replay=rp, arith='int',
                       bound='burns the sum of the requests; reserves shrink by what withdraw pays out')
        lo, ro, w = I(c['lo']), I(c['ro']), I(c['w'])
        new_txs = s.heap[vcell].fields
        coins1 = post_state.fields[3].fields[0].data
        sum_l, sum_r = z3.IntVal(0), z3.IntVal(0)
        for i, (tx0, tx1) in enumerate(zip(txs, new_txs)):
            o0 = tx0.fields[2].fields[0]
            v0 = I(o0.fields[1].fields[0])
            p0, c0 = B.coin_lookup(it, s, coins1, hs[i], bv(0, 8))
            p1, c1 = B.coin_lookup(it, s, coins1, hs[i], bv(1, 8))
            cd0, cd1 = c0.fields[0], c1.fields[0]
            a0, a1 = I(cd0.fields[1].fields[0]), I(cd1.fields[1].fields[0])
            chk.obligation('FUNC/request-%d-is-paid-in-both-denominations-of-its-pool/%s' % (i, name), pcs,
                           z3.And(p0, p1, val_eq(cd0.fields[2], pk.fields[0]), val_eq(cd1.fields[2], pk.fields[1]),
                                  val_eq(cd0.fields[0], o0.fields[0]), val_eq(cd1.fields[0], o0.fields[0]),
                                  val_eq(cd0.fields[3], o0.fields[3]), val_eq(cd1.fields[3], o0.fields[3]),
                                  c0.fields[1].fields[0] == sterms['height'], c1.fields[1].fields[0] == sterms['height']),
                           inputs, replay=rp, arith='int', bound='coins (txhash, 0) and (txhash, 1), same owner and data, block height')
            chk.obligation('FUNC/request-%d-gets-its-pro-rata-share-rounded-down/%s' % (i, name), pcs + [w > 0],
                           z3.And(a0 * w <= lo * v0, z3.Implies(a0 < MAXU, (a0 + 1) * w > lo * v0),
                                  a1 * w <= ro * v0, z3.Implies(a1 < MAXU, (a1 + 1) * w > ro * v0)), inputs, replay=rp, arith='int',
                           bound='floor(payout * own liquidity / total liquidity burnt) on each side')
            sum_l, sum_r = sum_l + a0, sum_r + a1
        chk.obligation('FUNC/coins-receive-no-more-than-left-the-pool/' + name, pcs + [w > 0], z3.And(sum_l <= lo, sum_r <= ro), inputs,
                       replay=rp, arith='int')
        cov.append(pcs + [w > 1000, lo > 5])
    if not k:
        raise Inconclusive('process_withdrawals_for_single_pool has no returning path')
    if mode == 'func':
        _cover_any_int(chk, 'withdrawal with a non-trivial payout/%dreq' % n, cov)
    it.base_read_hooks.pop('pools', None)


def sat_mul(a, b):
    return z3.If(z3.BVMulNoOverflow(a, b, False), a * b, bv(MAXU, 128))


def deposit_settlement(chk, it, n, mode='func', backing=False):
    """mode 'func': C15 claims; backing=True adds the C16 claim that the tokens handed out do not exceed the liquidity minted"""
    st, state, sterms, pk, txs, tts, hs = _settlement_setup(chk, it, n, 2)
    for tx in txs:
        st.pc.append(val_eq(tx.fields[2].fields[0].fields[2], pk.fields[0]))  # selector: outputs are (left, right) of the pool
        st.pc.append(val_eq(tx.fields[2].fields[1].fields[2], pk.fields[1]))
    pools0 = state.fields[9].fields[0].data
    before = pool_entry(it, st, pools0, pk)
    exists = before.data.present
    L, R, PA, LQ = before.data.value.fields
    ls = [tt['out0_value'] for tt in tts]
    rs = [tt['out1_value'] for tt in tts]
    tl = z3.Sum([I(v) for v in ls]) if n > 1 else I(ls[0])
    tr = z3.Sum([I(v) for v in rs]) if n > 1 else I(rs[0])
    netd, h = sterms['network'], sterms['height']
    old_rules = z3.And(z3.Or(netd == 0xff, netd == 0x01), z3.ULT(h, 978392))
    scell = st.alloc(state)
    vcell = st.alloc(Agg('Vec', txs))
    fn = it.by_last['process_deposits_for_single_pool'][0]
    added = install_pool_contracts(it)
    try:
        outs = it.exec_fn(st, fn, [Ptr(st.alloc(pk)), Ptr(scell), Ptr(vcell)])
    finally:
        it.overrides = [o for o in it.overrides if o not in added]
    inputs = {'pool_exists': z3.If(exists, bv(1, 8), bv(0, 8)), 'pool_lefts': L, 'pool_rights': R, 'pool_liqs': LQ, 'height': h, 'network': netd}
    for i in range(n):
        inputs['dep%d_lefts' % i] = ls[i]
        inputs['dep%d_rights' % i] = rs[i]
    k = 0
    cov = []
    for idx, (s, o) in enumerate(outs):
        name = 'process_deposits_for_single_pool/%dreq/%d' % (n, idx)
        rp = lambda mo: replay_deposits(chk, mo, inputs, n)
        if isinstance(o, Panic):
            if mode == 'panic':
                chk.obligation('PANIC/' + name, list(s.pc), z3.BoolVal(False), inputs, replay=rp, kind='PANIC', describe=str(o),
                               bound='%d deposit(s) into an existing pool (reserves, liquidity in [1, 2^127]) or a new one' % n, arith='int')
            continue
        k += 1
        if mode == 'panic':
            continue
        calls = [(z3.BoolVal(True), e[1]) for e in s.events if e[0] == 'deposit'] + \
                [(e[1], e[2][1]) for e in s.events if e[0] == 'when' and e[2][0] == 'deposit']
        post_state = s.heap[scell]
        after = pool_entry(it, s, post_state.fields[9].fields[0].data, pk)
        for case_name, case_cond, want_new in (('existing-pool', exists, False), ('new-pool', z3.Not(exists), True)):
          sel = [c_ for g_, c_ in calls if (z3.is_bv_value(simp(c_['LQ'])) and simp(c_['LQ']).as_long() == 0) == want_new]
          if len(calls) == 1:
              sel = [calls[0][1]]
          if len(sel) != 1:
              raise Inconclusive('expected one PoolState::deposit for the %s case, saw %d' % (case_name, len(sel)))
          c = sel[0]
          name = 'process_deposits_for_single_pool/%dreq/%d/%s' % (n, idx, case_name)
          pcs = list(s.pc) + [case_cond]
          minted = c['ret']
          if True:
              chk.obligation('FUNC/pool-is-updated-by-one-deposit-of-the-totals/' + name, pcs,
                             z3.And(after.data.present, I(c['dl']) == tl, I(c['dr']) == tr,
                                    z3.Implies(exists, z3.And(c['L'] == L, c['R'] == R, c['LQ'] == LQ)), z3.Implies(z3.Not(exists), c['LQ'] == 0)),
                             inputs, replay=rp, arith='int', bound='one PoolState::deposit(sum of lefts, sum of rights) on the pool or on a new empty pool')
              from mirsym.bigmodels import isqrt_bv
              total_mt = sat_mul(isqrt_bv(c['dl']), isqrt_bv(c['dr']))
              coins1 = post_state.fields[3].fields[0].data
              liq = liq_denom(s, pk)
              handed = z3.IntVal(0)
              for i, tx0 in enumerate(txs):
                  o0 = tx0.fields[2].fields[0]
                  my = sat_mul(isqrt_bv(ls[i]), isqrt_bv(rs[i]))
                  p0, c0 = B.coin_lookup(it, s, coins1, hs[i], bv(0, 8))
                  p1, c1 = B.coin_lookup(it, s, coins1, hs[i], bv(1, 8))
                  cd0 = c0.fields[0]
                  a0 = I(cd0.fields[1].fields[0])
                  chk.obligation('FUNC/request-%d-receives-liquidity-tokens-of-its-pool/%s' % (i, name), pcs,
                                 z3.And(p0, val_eq(cd0.fields[2], liq), val_eq(cd0.fields[0], o0.fields[0]), val_eq(cd0.fields[3], o0.fields[3]),
                                        c0.fields[1].fields[0] == h), inputs, replay=rp, arith='int')
                  # lemma chaining: what the pool-update obligation above has just proven for this path (the totals handed to
                  # PoolState::deposit are the sums of the requests) is assumed here; with one request the share is the whole, which
                  # is a bit-vector fact of its own -- without these two steps the non-linear query is decided in 5 s or not within
                  # its budget, depending on the run
                  lem = pcs + [I(c['dl']) == tl, I(c['dr']) == tr]
                  if n == 1:
                      whole = chk.obligation('LEMMA/a-single-request-is-the-whole-batch/%s' % name, lem, total_mt == my, inputs, replay=rp,
                                             bound='isqrt(l)*isqrt(r) of the one request equals that of the totals')
                      if whole:
                          lem = lem + [total_mt == my]
                  chk.obligation('FUNC/request-%d-gets-its-pro-rata-share-rounded-down/%s' % (i, name), lem + [total_mt != 0],
                                 z3.And(a0 * I(total_mt) <= I(minted) * I(my), z3.Implies(a0 < MAXU, (a0 + 1) * I(total_mt) > I(minted) * I(my))),
                                 inputs, replay=rp, arith='int',
                                 bound='floor(minted liquidity * isqrt(l)*isqrt(r) / (isqrt(sum l)*isqrt(sum r)))')
                  chk.obligation('FUNC/request-%d-second-output-is-consumed/%s' % (i, name), pcs + [z3.Not(old_rules)], z3.Not(p1), inputs,
                                 replay=rp, arith='int', bound='outside the grandfathered heights (mainnet / testnet below 978392)')
                  handed = handed + a0
              if backing:
                  chk.obligation('FUNC/tokens-handed-out-do-not-exceed-the-liquidity-minted/' + name, pcs, handed <= I(minted),
                                 dict(inputs, shares_exceed_total=z3.If(z3.Sum([I(sat_mul(isqrt_bv(ls[i]), isqrt_bv(rs[i]))) for i in range(n)]) > I(total_mt), bv(1, 8), bv(0, 8))),
                                 replay=rp, arith='int', bound='sum of the rounded-down shares <= what PoolState::deposit returned')
              cov.append(pcs + [I(minted) > 1000])
    if not k:
        raise Inconclusive('process_deposits_for_single_pool has no returning path')
    if mode == 'func':
        _cover_any_int(chk, 'deposit that mints liquidity/%dreq' % n, cov)
    it.base_read_hooks.pop('pools', None)


def ref_deposits(exists, L, R, Q, deps):
    import math
    tl, tr = sum(l for l, r in deps), sum(r for l, r in deps)
    if not exists or Q == 0:
        minted, L2, R2, Q2 = tl, tl, tr, tl
    else:
        d = math.isqrt((Q * Q * tl * tr) // (L * R))
        minted, L2, R2, Q2 = d, L + tl, R + tr, min(Q + d, MAXU)
    total_mt = math.isqrt(tl) * math.isqrt(tr)
    outs = [((minted * (math.isqrt(l) * math.isqrt(r))) // total_mt) if total_mt else 0 for l, r in deps]
    return outs, L2, R2, Q2, minted


def replay_deposits(chk, model, inputs, n):
    ev = lambda t: harness.model_int(model, t)
    exists = bool(ev(inputs['pool_exists']))
    lo_ = 0 if WEAK_POOLS[0] else 1
    L, R, Q = max(ev(inputs['pool_lefts']), lo_), max(ev(inputs['pool_rights']), lo_), max(ev(inputs['pool_liqs']), lo_)
    deps = [(ev(inputs['dep%d_lefts' % i]), ev(inputs['dep%d_rights' % i])) for i in range(n)]
    return run_deposit_scenario(exists, L, R, Q, deps)


def run_deposit_scenario(exists, L, R, Q, deps, kind=0x52, backing=True):
    raw = lambda k: {'txhash': {'hex': ('%02x' % k) * 32}, 'index': 0}
    coins, txs, probes = [], [], []
    for i, (l, r) in enumerate(deps):
        coins.append({'id': raw(0x21 + i), 'covhash': {'covhash_of': 'true'}, 'value': str(l + 10), 'denom': 'MEL', 'adata': '', 'height': 0})
        coins.append({'id': raw(0x31 + i), 'covhash': {'covhash_of': 'true'}, 'value': str(r), 'denom': 'SYM', 'adata': '', 'height': 0})
        txs.append({'name': 'abc'[i], 'kind': kind, 'inputs': [raw(0x21 + i), raw(0x31 + i)], 'fee': '10', 'covenants': ['true'], 'data': '73',
                    'outputs': [{'covhash': {'covhash_of': 'true'}, 'value': str(l), 'denom': 'MEL', 'adata': '%02x' % i},
                                {'covhash': {'covhash_of': 'true'}, 'value': str(r), 'denom': 'SYM', 'adata': ''}]})
        probes.append({'txhash': {'txhash_of': 'abc'[i]}, 'index': 0})
        probes.append({'txhash': {'txhash_of': 'abc'[i]}, 'index': 1})
    sc = {'kind': 'batch', 'network': 2, 'height': 5, 'fee_pool': '0', 'tips': '0', 'fee_multiplier': '0', 'dosc_speed': '1000000',
          'coins': coins, 'txs': txs, 'probes': probes,
          'pools': [{'left': 'MEL', 'right': 'SYM', 'lefts': str(L), 'rights': str(R), 'liqs': str(Q)}] if exists else [],
          'melmint_only': 'deposits'}
    out = harness.run_replay([sc], 'dev')[0]
    if 'error' in out or 'unrealizable' in out:
        raise Inconclusive('replay: %s' % out)
    run = out['runs'][0]
    if run.get('result') != 'Ok':
        raise Inconclusive('replay: the deposit batch itself was rejected: %s' % run.get('result'))
    mm = run.get('melmint', {})
    if mm.get('panicked'):
        return True, sc, {'why': 'panic in process_deposits: ' + mm.get('msg', '')[-200:]}
    if exists and Q >= 1 and (L == 0 or R == 0):
        return False, sc, {'why': 'a pool with liquidity and an empty reserve: no proportion to mint in, and no panic', 'native': mm}
    outs, L2, R2, Q2, minted = ref_deposits(exists, L, R, Q, deps)
    got = mm.get('probes', [])
    why = ''
    for i, a in enumerate(outs):
        g0, g1 = got[2 * i], got[2 * i + 1]
        if g0 is None or g0['denom'] != 'LIQ:MEL/SYM' or int(g0['value']) != a or g1 is not None:
            why = 'request %d: coins %s / %s, reference %d liquidity tokens and no second coin' % (i, g0, g1, a)
            break
    pool = (mm.get('pools') or [{}])[0]
    if not why and (int(pool.get('lefts', -1)), int(pool.get('rights', -1)), int(pool.get('liqs', -1))) != (L2, R2, Q2):
        why = 'pool %s, reference %d/%d/%d' % (pool, L2, R2, Q2)
    if not why and backing and sum(outs) > minted:
        why = 'tokens handed out %d > liquidity minted %d (pool records %s)' % (sum(outs), minted, pool.get('liqs'))
    return bool(why), sc, {'why': why or 'consistent with the reference', 'native': mm}


def _cover_any_int(chk, name, alternatives):
    why = []
    for c in alternatives:
        res, payload, _ = chk.solve_int(c)
        if res == 'sat':
            chk.covers.append({'id': name, 'reachable': True})
            return
        why.append('%s: %s' % (res, str(payload)[:100]))
    chk.covers.append({'id': name, 'reachable': False})
    raise Inconclusive('vacuity guard %s is not reachable (%s)' % (name, why[:3]))


def replay_deposit_selector(kind, nout):
    """a transaction whose outputs are (MEL, SYM) and whose data names MEL/SYM, of the model's kind: settled only if it is a
    LiqDeposit with both outputs unspent.  Variants: plain; output 1 spent by another transaction of the block; output 0 spent"""
    raw = lambda k: {'txhash': {'hex': ('%02x' % k) * 32}, 'index': 0}
    if kind not in (0x00, 0x51, 0x52, 0x53):
        kind = 0x00
    last = None
    for respent in (None, 1, 0):
        k_ = kind if respent is None else 0x52
        outs = [{'covhash': {'covhash_of': 'true'}, 'value': '4000', 'denom': 'MEL', 'adata': ''}]
        if nout >= 2 or respent is not None:
            outs.append({'covhash': {'covhash_of': 'true'}, 'value': '9000', 'denom': 'SYM', 'adata': ''})
        coins = [{'id': raw(0x21), 'covhash': {'covhash_of': 'true'}, 'value': '4010', 'denom': 'MEL', 'adata': '', 'height': 0},
                 {'id': raw(0x22), 'covhash': {'covhash_of': 'true'}, 'value': '9000', 'denom': 'SYM', 'adata': '', 'height': 0},
                 {'id': raw(0x23), 'covhash': {'covhash_of': 'true'}, 'value': '5', 'denom': 'MEL', 'adata': '', 'height': 0}]
        ins = [raw(0x21)] + ([raw(0x22)] if len(outs) == 2 else [])
        txs = [{'name': 'a', 'kind': k_, 'inputs': ins, 'fee': '10', 'covenants': ['true'], 'data': '73', 'outputs': outs}]
        if respent is not None:
            o = outs[respent]
            txs.append({'name': 'b', 'kind': 0, 'inputs': [{'txhash': {'txhash_of': 'a'}, 'index': respent}, raw(0x23)], 'fee': '5',
                        'covenants': ['true'], 'data': '', 'outputs': [dict(o, adata='02')] if o['denom'] != 'MEL' else [dict(o, adata='02')]})
        sc = {'kind': 'batch', 'network': 2, 'height': 5, 'fee_pool': '0', 'tips': '0', 'fee_multiplier': '0', 'dosc_speed': '1000000',
              'coins': coins, 'txs': txs, 'probes': [{'txhash': {'txhash_of': 'a'}, 'index': 0}, {'txhash': {'txhash_of': 'a'}, 'index': 1}],
              'pools': [{'left': 'MEL', 'right': 'SYM', 'lefts': str(10 ** 9), 'rights': str(10 ** 9), 'liqs': str(10 ** 9)}],
              'melmint_only': 'deposits'}
        out = harness.run_replay([sc], 'dev')[0]
        if 'error' in out or 'unrealizable' in out:
            raise Inconclusive('replay: %s' % out)
        run = out['runs'][0]
        if run.get('result') != 'Ok':
            if respent is None:
                continue
            raise Inconclusive('replay: the batch itself was rejected: %s' % run.get('result'))
        mm = run.get('melmint', {})
        if mm.get('panicked'):
            return True, sc, {'why': 'panic: ' + mm.get('msg', '')[-160:]}
        pool = (mm.get('pools') or [{}])[0]
        settled = int(pool.get('lefts', 10 ** 9)) != 10 ** 9 or int(pool.get('rights', 10 ** 9)) != 10 ** 9
        should = k_ == 0x52 and len(outs) == 2 and respent is None
        last = (sc, {'kind': hex(k_), 'outputs': len(outs), 'output_spent_in_block': respent, 'settled': settled, 'should_be_settled': should,
                     'pool_after': pool})
        if settled and not should:
            return True, last[0], last[1]
    if last is None:
        raise Inconclusive('no native deposit-selector scenario was accepted')
    return False, last[0], last[1]


def replay_withdraw_selector(kind, nout):
    """a transaction burning MEL/SYM liquidity tokens in its first output, of the model's kind and output count: settled?
    And a genuine withdrawal whose single output is spent by another transaction of the same block: it must not be settled"""
    bad, sc, obs = _withdraw_selector_scenario(kind, nout, respent=False)
    if bad:
        return bad, sc, obs
    bad2, sc2, obs2 = _withdraw_selector_scenario(0x53, 1, respent=True)
    if bad2:
        return bad2, sc2, obs2
    return False, sc, dict(obs, respent_variant=obs2)


def _withdraw_selector_scenario(kind, nout, respent):
    raw = lambda k: {'txhash': {'hex': ('%02x' % k) * 32}, 'index': 0}
    if kind not in (0x00, 0x51, 0x52, 0x53):
        kind = 0x00
    outs = [{'covhash': {'covhash_of': 'true'}, 'value': '1000', 'denom': 'LIQ:MEL/SYM', 'adata': ''}]
    if nout >= 2:
        outs.append({'covhash': {'covhash_of': 'true'}, 'value': '7', 'denom': 'MEL', 'adata': '01'})
    sc = {'kind': 'batch', 'network': 2, 'height': 5, 'fee_pool': '0', 'tips': '0', 'fee_multiplier': '0', 'dosc_speed': '1000000',
          'coins': [{'id': raw(0x21), 'covhash': {'covhash_of': 'true'}, 'value': '1000', 'denom': 'LIQ:MEL/SYM', 'adata': '', 'height': 0},
                    {'id': raw(0x31), 'covhash': {'covhash_of': 'true'}, 'value': '17', 'denom': 'MEL', 'adata': '', 'height': 0}],
          'txs': [{'name': 'a', 'kind': kind, 'inputs': [raw(0x21), raw(0x31)], 'fee': '17' if nout < 2 else '10', 'covenants': ['true'],
                   'data': '73', 'outputs': outs}],
          'probes': [{'txhash': {'txhash_of': 'a'}, 'index': 0}, {'txhash': {'txhash_of': 'a'}, 'index': 1}],
          'pools': [{'left': 'MEL', 'right': 'SYM', 'lefts': str(10 ** 9), 'rights': str(10 ** 9), 'liqs': str(10 ** 9)}],
          'melmint_only': 'withdrawals'}
    if respent:
        # b spends a's only output (the liquidity tokens) in the same block
        sc['coins'].append({'id': raw(0x32), 'covhash': {'covhash_of': 'true'}, 'value': '5', 'denom': 'MEL', 'adata': '', 'height': 0})
        sc['txs'].append({'name': 'b', 'kind': 0, 'inputs': [{'txhash': {'txhash_of': 'a'}, 'index': 0}, raw(0x32)], 'fee': '5',
                          'covenants': ['true'], 'data': '', 'outputs': [{'covhash': {'covhash_of': 'true'}, 'value': '1000',
                                                                          'denom': 'LIQ:MEL/SYM', 'adata': '02'}]})
    out = harness.run_replay([sc], 'dev')[0]
    if 'error' in out or 'unrealizable' in out:
        raise Inconclusive('replay: %s' % out)
    run = out['runs'][0]
    if run.get('result') != 'Ok':
        raise Inconclusive('replay: the batch itself was rejected: %s' % run.get('result'))
    mm = run.get('melmint', {})
    if mm.get('panicked'):
        return True, sc, {'why': 'panic: ' + mm.get('msg', '')[-160:]}
    p0 = (mm.get('probes') or [None])[0]
    settled = p0 is not None and p0.get('denom') == 'MEL'
    should = kind == 0x53 and nout == 1 and not respent
    return settled and not should, sc, {'kind': hex(kind), 'outputs': nout, 'settled': settled, 'should_be_settled': should, 'probes': mm.get('probes')}


def ref_withdrawals(L, R, Q, burns):
    w = sum(burns)
    if w > Q:
        return 'panic-by-design'
    if Q - w == 0:
        lo, ro = L, R
    else:
        lo, ro = (L * w) // Q, (R * w) // Q
    outs = [((lo * v) // w if w else 0, (ro * v) // w if w else 0) for v in burns]
    return outs, L - lo, R - ro, Q - w


def replay_withdrawals(chk, model, inputs, n):
    ev = lambda t: harness.model_int(model, t)
    lo_ = 0 if WEAK_POOLS[0] else 1
    L, R, Q = max(ev(inputs['pool_lefts']), lo_), max(ev(inputs['pool_rights']), lo_), max(ev(inputs['pool_liqs']), lo_)
    burns = [ev(inputs['burn%d_value' % i]) for i in range(n)]
    return run_withdraw_scenario(L, R, Q, burns)


def run_withdraw_scenario(L, R, Q, burns, kind=0x53):
    raw = lambda k: {'txhash': {'hex': ('%02x' % k) * 32}, 'index': 0}
    coins, txs, probes = [], [], []
    for i, v in enumerate(burns):
        coins.append({'id': raw(0x21 + i), 'covhash': {'covhash_of': 'true'}, 'value': str(v), 'denom': 'LIQ:MEL/SYM', 'adata': '', 'height': 0})
        coins.append({'id': raw(0x31 + i), 'covhash': {'covhash_of': 'true'}, 'value': '10', 'denom': 'MEL', 'adata': '', 'height': 0})
        txs.append({'name': 'abc'[i], 'kind': kind, 'inputs': [raw(0x21 + i), raw(0x31 + i)], 'fee': '10', 'covenants': ['true'], 'data': '73',
                    'outputs': [{'covhash': {'covhash_of': 'true'}, 'value': str(v), 'denom': 'LIQ:MEL/SYM', 'adata': '%02x' % i}]})
        probes.append({'txhash': {'txhash_of': 'abc'[i]}, 'index': 0})
        probes.append({'txhash': {'txhash_of': 'abc'[i]}, 'index': 1})
    sc = {'kind': 'batch', 'network': 2, 'height': 5, 'fee_pool': '0', 'tips': '0', 'fee_multiplier': '0', 'dosc_speed': '1000000',
          'coins': coins, 'txs': txs, 'probes': probes,
          'pools': [{'left': 'MEL', 'right': 'SYM', 'lefts': str(L), 'rights': str(R), 'liqs': str(Q)}], 'melmint_only': 'withdrawals'}
    out = harness.run_replay([sc], 'dev')[0]
    if 'error' in out or 'unrealizable' in out:
        raise Inconclusive('replay: %s' % out)
    run = out['runs'][0]
    if run.get('result') != 'Ok':
        raise Inconclusive('replay: the withdrawal batch itself was rejected: %s' % run.get('result'))
    mm = run.get('melmint', {})
    if Q == 0 and sum(burns) == 0:
        return bool(mm.get('panicked')), sc, {'why': 'withdrawal of nothing from a pool without liquidity: ' + ('panic: ' + mm.get('msg', '')[-160:] if mm.get('panicked') else 'no panic'), 'native': None if mm.get('panicked') else mm}
    ref = ref_withdrawals(L, R, Q, burns)
    if mm.get('panicked'):
        return ref != 'panic-by-design', sc, {'why': 'panic in process_withdrawals: ' + mm.get('msg', '')[-200:]}
    if ref == 'panic-by-design':
        return True, sc, {'why': 'more liquidity burnt than recorded, yet no panic', 'native': mm}
    outs, L2, R2, Q2 = ref
    got = mm.get('probes', [])
    why = ''
    for i, (a, b) in enumerate(outs):
        g0, g1 = got[2 * i], got[2 * i + 1]
        if g0 is None or g1 is None or g0['denom'] != 'MEL' or g1['denom'] != 'SYM' or int(g0['value']) != a or int(g1['value']) != b:
            why = 'request %d: coins %s / %s, reference %d MEL / %d SYM' % (i, g0, g1, a, b)
            break
    pool = (mm.get('pools') or [{}])[0]
    if not why and (int(pool.get('lefts', -1)), int(pool.get('rights', -1)), int(pool.get('liqs', -1))) != (L2, R2, Q2):
        why = 'pool %s, reference %d/%d/%d' % (pool, L2, R2, Q2)
    return bool(why), sc, {'why': why or 'consistent with the reference', 'native': mm}


def ref_swaps(L, R, reqs):
    """reqs: [(value, pays_left)] -> ([payouts], L2, R2) by the documented formulas, exact integers"""
    tl = sum(v for v, lf in reqs if lf)
    tr = sum(v for v, lf in reqs if not lf)
    L1, R1 = min(L + tl, MAXU), min(R + tr, MAXU)
    rw = min((tl * R1 * 995) // (L1 * 1000), MAXU)
    lw = min((tr * L1 * 995) // (R1 * 1000), MAXU)
    outs = []
    for v, lf in reqs:
        if lf:
            outs.append(min((rw * v) // tl, MAX_COINVAL) if tl else 0)
        else:
            outs.append(min((lw * v) // tr, MAX_COINVAL) if tr else 0)
    return outs, L1 - lw, R1 - rw


def replay_swaps(chk, model, inputs, n):
    """the model's pool reserves and request amounts on the MEL/SYM pool of a Custom02 chain: real Swap transactions, sealed;
    the rewritten coins and the pool are compared with the exact reference"""
    ev = lambda t: harness.model_int(model, t)
    lo_ = 0 if WEAK_POOLS[0] else 1
    L, R = max(ev(inputs['pool_lefts']), lo_), max(ev(inputs['pool_rights']), lo_)
    reqs = [(ev(inputs['swap%d_value' % i]), bool(ev(inputs['swap%d_pays_left' % i]))) for i in range(n)]
    return run_swap_scenario(L, R, reqs)


def run_swap_scenario(L, R, reqs, kind=0x51):
    raw = lambda k: {'txhash': {'hex': ('%02x' % k) * 32}, 'index': 0}
    coins, txs, probes = [], [], []
    for i, (v, lf) in enumerate(reqs):
        den = 'MEL' if lf else 'SYM'
        coins.append({'id': raw(0x21 + i), 'covhash': {'covhash_of': 'true'}, 'value': str(v), 'denom': den, 'adata': '', 'height': 0})
        coins.append({'id': raw(0x31 + i), 'covhash': {'covhash_of': 'true'}, 'value': '10', 'denom': 'MEL', 'adata': '', 'height': 0})
        txs.append({'name': 'abc'[i], 'kind': kind, 'inputs': [raw(0x21 + i), raw(0x31 + i)], 'fee': '0', 'covenants': ['true'], 'data': '73',
                    'outputs': [{'covhash': {'covhash_of': 'true'}, 'value': str(v), 'denom': den, 'adata': ''},
                                {'covhash': {'covhash_of': 'true'}, 'value': '10', 'denom': 'MEL', 'adata': '%02x' % i}]})
        probes.append({'txhash': {'txhash_of': 'abc'[i]}, 'index': 0})
    # Testnet below height 500: no TIP-909 subsidy swaps, no pegging surprises beyond process_pegging (which acts on MEL/SYM)
    sc = {'kind': 'batch', 'network': 2, 'height': 5, 'fee_pool': '0', 'tips': '0', 'fee_multiplier': '0', 'dosc_speed': '1000000',
          'coins': coins, 'txs': txs, 'probes': probes, 'pools': [{'left': 'MEL', 'right': 'SYM', 'lefts': str(L), 'rights': str(R), 'liqs': str(max(L, 1))}],
          'melmint_only': 'swaps'}
    out = harness.run_replay([sc], 'dev')[0]
    if 'error' in out or 'unrealizable' in out:
        raise Inconclusive('replay: %s' % out)
    run = out['runs'][0]
    if run.get('result') != 'Ok':
        raise Inconclusive('replay: the swap batch itself was rejected: %s' % run.get('result'))
    mm = run.get('melmint', {})
    if mm.get('panicked'):
        return True, sc, {'why': 'panic in process_swaps: ' + mm.get('msg', '')[-200:]}
    if L + sum(v for v, lf in reqs if lf) == 0 or R + sum(v for v, lf in reqs if not lf) == 0:
        return False, sc, {'why': 'a pool with an empty reserve has no price: nothing to compare, and no panic', 'native': mm}
    want_outs, L2, R2 = ref_swaps(L, R, reqs)
    got = mm.get('probes', [])
    why = ''
    for i, ((v, lf), w) in enumerate(zip(reqs, want_outs)):
        g = got[i]
        if g is None:
            why = 'request %d: coin vanished' % i
            break
        want_den = 'SYM' if lf else 'MEL'
        if g['denom'] != want_den or int(g['value']) != w:
            why = 'request %d: coin is %s %s, reference %s %s' % (i, g['value'], g['denom'], w, want_den)
            break
    pool = (mm.get('pools') or [{}])[0]
    if not why and (int(pool.get('lefts', -1)) != L2 or int(pool.get('rights', -1)) != R2):
        why = 'pool reserves %s/%s, reference %d/%d' % (pool.get('lefts'), pool.get('rights'), L2, R2)
    return bool(why), sc, {'why': why or 'consistent with the reference', 'native': mm}


# ---------------------------------------------------------------------------------------------------------------


def pool_list_kernel(chk, it):
    """extract_pool_keys_sorted: every pool named by a request appears exactly once (a pool listed twice would be settled
    twice in one block); transactions_for_pool: exactly the requests naming the pool"""
    from mirsym import melmodels as MM
    from mirsym.interp import mk_option
    from mirsym.collections import val_lt

    added, pnames, pcalled = parser_overrides(it)
    it.overrides = added + list(it.overrides)
    try:
        n = 3
        G.reset()
        G.atomic_domains = {'single:Transaction'}
        _poolkey_of_bytes.__defaults__[0].clear()
        st = State()
        txs = [B.sym_tx('tx' + 'abc'[i], 1, 1, 1, st.pc)[0] for i in range(n)]
        fn = it.by_last['extract_pool_keys_sorted'][0]
        outs = it.exec_fn(st, fn, [Ptr(st.alloc(Agg('Vec', txs)))])
        used = pcalled[0] if pcalled else pnames[0]
        parsed = [_poolkey_of_bytes(st, tx.fields[5].data['id'], parser=used) for tx in txs]
        inputs = {}
        for i, (ok, pk) in enumerate(parsed):
            inputs['req%d_names_a_pool' % i] = z3.If(ok, bv(1, 8), bv(0, 8))
        for i in range(n):
            for j in range(i + 1, n):
                inputs['req%d_req%d_same_pool' % (i, j)] = z3.If(val_eq(parsed[i][1], parsed[j][1]), bv(1, 8), bv(0, 8))
        k = 0
        for idx, (s, o) in enumerate(outs):
            if isinstance(o, Panic):
                continue
            k += 1
            res = o.v.fields if isinstance(o.v, Agg) else it.load(s, o.v).fields
            name = 'extract_pool_keys_sorted/%d' % idx
            rp = lambda mo: replay_pool_list(chk, mo, inputs)
            distinct = z3.And([z3.Not(val_eq(res[i], res[j])) for i in range(len(res)) for j in range(i + 1, len(res))] or [z3.BoolVal(True)])
            chk.obligation('FUNC/every-pool-is-listed-once/' + name, list(s.pc), distinct, inputs, replay=rp,
                           bound='3 requests, any of which may or may not name a pool, any coincidences between the pools named')
            complete = z3.And([z3.Implies(ok, z3.Or([val_eq(pk, r) for r in res] or [z3.BoolVal(False)])) for ok, pk in parsed])
            sound = z3.And([z3.Or([z3.And(ok, val_eq(pk, r)) for ok, pk in parsed]) for r in res] or [z3.BoolVal(True)])
            chk.obligation('FUNC/listed-pools-are-exactly-the-pools-named/' + name, list(s.pc), z3.And(complete, sound), inputs, replay=rp)
        if not k:
            raise Inconclusive('extract_pool_keys_sorted has no returning path')
    finally:
        it.overrides = [o for o in it.overrides if o not in added]


def replay_pool_list(chk, model, inputs):
    """three swap requests over two pools (MEL/SYM twice, ERG/MEL once), salted until the lone ERG/MEL request sits between the
    two MEL/SYM ones in transaction-hash order; the MEL/SYM pool must be settled once"""
    raw = lambda k: {'txhash': {'hex': ('%02x' % k) * 32}, 'index': 0}
    L = R = 10 ** 9
    reqs = [(1_000_000, True), (2_500_000, True)]
    for salt in range(24):
        coins, txs, probes = [], [], []
        spec = [('MEL', '73', reqs[0][0]), ('MEL', '73', reqs[1][0]), ('MEL', '64', 3_000_000)]  # data: "s" = MEL/SYM, "d" = ERG/MEL
        for i, (den, data, v) in enumerate(spec):
            coins.append({'id': raw(0x21 + i), 'covhash': {'covhash_of': 'true'}, 'value': str(v + 10), 'denom': den, 'adata': '', 'height': 0})
            txs.append({'name': 'abc'[i], 'kind': 0x51, 'inputs': [raw(0x21 + i)], 'fee': '0', 'covenants': ['true'], 'data': data,
                        'outputs': [{'covhash': {'covhash_of': 'true'}, 'value': str(v), 'denom': den, 'adata': ''},
                                    {'covhash': {'covhash_of': 'true'}, 'value': '10', 'denom': 'MEL', 'adata': '%02x%02x' % (i, salt)}]})
            probes.append({'txhash': {'txhash_of': 'abc'[i]}, 'index': 0})
        sc = {'kind': 'batch', 'network': 2, 'height': 5, 'fee_pool': '0', 'tips': '0', 'fee_multiplier': '0', 'dosc_speed': '1000000',
              'coins': coins, 'txs': txs, 'probes': probes,
              'pools': [{'left': 'MEL', 'right': 'SYM', 'lefts': str(L), 'rights': str(R), 'liqs': str(L)},
                        {'left': 'MEL', 'right': 'ERG', 'lefts': str(L), 'rights': str(R), 'liqs': str(L)}], 'melmint_only': 'swaps'}
        out = harness.run_replay([sc], 'dev')[0]
        if 'error' in out or 'unrealizable' in out:
            raise Inconclusive('replay: %s' % out)
        h = out['txhashes']
        if not (min(h['a'], h['b']) < h['c'] < max(h['a'], h['b'])):
            continue
        run = out['runs'][0]
        mm = run.get('melmint', {})
        if run.get('result') != 'Ok':
            raise Inconclusive('replay: batch rejected: %s' % run.get('result'))
        if mm.get('panicked'):
            return True, sc, {'why': 'panic: ' + mm.get('msg', '')[-160:]}
        want, L2, R2 = ref_swaps(L, R, reqs)
        got = [int(mm['probes'][i]['value']) if mm['probes'][i] else None for i in (0, 1)]
        bad = got != want
        return bad, sc, {'interleaved_order': [h['a'], h['c'], h['b']], 'payouts': got, 'single_settlement_reference': want}
    raise Inconclusive('could not interleave the requests by transaction hash within 24 salts')


POOLKEY_PARSES = z3.Function('poolkey_parses', z3.BitVecSort(256), z3.BoolSort())


def liq_denom(st, pk):
    """the liquidity-token denomination of a pool: Custom(hash_keyed("liq", key bytes)), as an injective function of the key
    (for canonical keys to_bytes is injective; the non-canonical spellings are the subject of `poolkey_kernel`)"""
    return S.denom('Custom', M.hash_apply(st, 'keyed[liq]:PoolKey', M.flatten(pk)))


def liq_token_override(itp, st, args, ctx):
    from mirsym.summaries import deref
    return liq_denom(st, deref(itp, st, args[0]))


def _poolkey_of_bytes(st, bid, cache={}, parser='PoolKey::from_bytes'):
    """the request parser as a function of the data bytes: (parses, key) -- the same bytes always give the same key.  One
    function per parser in use (c15_poolkey.parsers_in_use): melstf's own wrapper(s) and / or the raw PoolKey::from_bytes"""
    k = parser + '|' + bid.sexpr()
    if k not in cache:
        holder = M.State_for_symvalue()
        pk = S.sym_value('PoolKey', 'parsed_key_%d' % len(cache), holder)
        cache[k] = (pk, list(holder.pc))
    pk, side = cache[k]
    for c in side:
        G.add(c)
    fn = z3.Function('poolkey_parses' + ('' if parser == 'PoolKey::from_bytes' else '_' + re.sub(r'\W', '_', parser)), z3.BitVecSort(256), z3.BoolSort())
    return fn(bid), pk


def parser_overrides(it):
    """(overrides, name of the parser the settlement code uses first): every request parser in use becomes an uninterpreted
    function of the data bytes in the selector / pool-list kernels; what the parsers really return is decided by
    c15_poolkey.poolkey_kernel on their MIR"""
    from mirsym import melmodels as MM
    from mirsym.interp import mk_option
    from props import c15_poolkey as PKK
    fb = PKK._find(it, 'from_bytes', 'melswap.rs')
    parsers, _ = PKK.parsers_in_use(it, fb)
    names = [n_ for n_, _ in parsers]
    called = []

    def mk(pname):
        def parse(itp, s_, args, ctx):
            called.append(pname)
            ok, pk = _poolkey_of_bytes(s_, MM.bytes_id(itp, s_, args[0]), parser=pname)
            return mk_option(ok, pk)
        return parse
    ovs = []
    for pname in names:
        last = pname.split('::')[-1]
        rx = r'PoolKey::from_bytes$' if pname == 'PoolKey::from_bytes' else r'(^|::)%s$' % re.escape(last)
        ovs.append((re.compile(rx), mk(pname)))
    return ovs, names, called


def selectors(chk, it, only=None):
    """get_{swap,deposit,withdrawal}_transactions::{closure#0}: which transactions of the block become requests.
    PoolKey::from_bytes is an uninterpreted function of the data bytes here (its own kernel: `poolkey_kernel`)."""
    from mirsym import melmodels as MM
    from mirsym.summaries import deref
    from mirsym.interp import mk_option

    added, pnames, pcalled = parser_overrides(it)
    added = added + [(re.compile(r'PoolKey::liq_token_denom$'), liq_token_override)]
    it.overrides = added + list(it.overrides)
    try:
        for which, kind_name in (('swap', 'Swap'), ('deposit', 'LiqDeposit'), ('withdrawal', 'LiqWithdraw')):
            if only and which not in only:
                continue
            for nout in (1, 2):
                G.reset()
                G.atomic_domains = {'single:Transaction'}
                _poolkey_of_bytes.__defaults__[0].clear()
                st = State()
                state, sterms = B.sym_state(st.pc)
                st.pc.append(z3.ULE(sterms['height'], 100_000_000))
                tx, tt = B.sym_tx('tx', 1, nout, 1, st.pc)
                fns = [f for n_, fs in it.funcs.items() if n_.startswith('get_%s_transactions::{closure#0}' % which) for f in fs]
                if not fns:
                    raise Inconclusive('selector closure of get_%s_transactions not found' % which)
                fn = fns[0]
                env = Ptr(st.alloc(Agg(fn.param_types[0].replace('&mut ', '').lstrip('&'), [Ptr(st.alloc(state))])))
                del pcalled[:]
                outs = it.exec_fn(st, fn, [env, tx])
                ok_parse, pk = _poolkey_of_bytes(st, tx.fields[5].data['id'], parser=(pcalled[0] if pcalled else pnames[0]))
                pools0 = state.fields[9].fields[0].data
                coins0 = state.fields[3].fields[0].data
                txh = B.tx_hash_term(it, st, tx)
                pool_there = pool_entry(it, st, pools0, pk).data.present
                d = [o_.fields[2] for o_ in tx.fields[2].fields]
                p0, _ = B.coin_lookup(it, st, coins0, txh, bv(0, 8))
                inputs = {'kind': tt['kind'], 'n_outputs': bv(nout, 8)}
                inputs.update(dict(('tx_' + k_, v_) for k_, v_ in tt.items()))
                for idx, (s, o) in enumerate(outs):
                    name = 'get_%s_transactions/%dout/%d' % (which, nout, idx)
                    rp = lambda mo, which=which: replay_selector(chk, mo, inputs, which)
                    if isinstance(o, Panic):
                        continue  # panic freedom of the seal path is decided in C09
                    sel = M.is_variant(o.v, 'Some')
                    pcs = list(s.pc)
                    chk.obligation('FUNC/selected-only-if-of-kind-%s/%s' % (kind_name, name), pcs + [sel], tt['kind'] == S.TXKINDS[kind_name],
                                   inputs, replay=rp, bound='only transactions of the matching kind are settled')
                    if which == 'swap':
                        want = z3.And(ok_parse, pool_there, p0, z3.Or(val_eq(d[0], pk.fields[0]), val_eq(d[0], pk.fields[1])))
                    elif which == 'deposit':
                        p1, _ = B.coin_lookup(it, s, coins0, txh, bv(1, 8))
                        want = z3.And(ok_parse, p0, p1, val_eq(d[0], pk.fields[0]), val_eq(d[1], pk.fields[1])) if nout >= 2 else z3.BoolVal(False)
                    else:
                        want = z3.And(ok_parse, pool_there, p0, val_eq(d[0], liq_denom(s, pk))) if nout == 1 else z3.BoolVal(False)
                    chk.obligation('FUNC/selected-only-if-the-data-names-a-pool-and-the-outputs-fit/%s' % name, pcs + [sel], want, inputs,
                                   replay=rp, bound='data parses as a pool key; first output unspent; denominations are the pool sides')
                    if 'Some' in o.v.payloads:
                        chk.obligation('FRAME/selected-transaction-is-passed-on-unchanged/%s' % name, pcs + [sel],
                                       val_eq(o.v.payloads['Some'][0], tx), inputs, replay=rp, kind='FRAME')
    finally:
        it.overrides = [o for o in it.overrides if o not in added]


def replay_selector(chk, model, inputs, which):
    """a transaction of the model's kind whose data names the MEL/SYM pool and whose outputs would fit a request of the
    selector in question, sealed on a Custom02 chain: is its first output transformed?"""
    ev = lambda t: harness.model_int(model, t)
    kind = ev(inputs['kind'])
    want_kind = {'swap': 0x51, 'deposit': 0x52, 'withdrawal': 0x53}[which]
    if which == 'withdrawal':
        return replay_withdraw_selector(kind, ev(inputs['n_outputs']))
    if which == 'deposit':
        return replay_deposit_selector(kind, ev(inputs['n_outputs']))
    if which != 'swap':
        raise Inconclusive('no native scenario for the %s selector yet' % which)
    kinds = [kind] if kind in (0x00, 0x51, 0x52, 0x53) else []
    if kind != want_kind and 0x00 not in kinds:
        kinds.append(0x00)  # kinds with validity rules of their own (Stake, DoscMint, Faucet): any other non-swap kind stands in
    obs = None
    for kk in kinds:
        try:
            bad, sc, obs = run_swap_scenario(10 ** 9, 10 ** 9, [(1000, True)], kind=kk)
            kind = kk
            break
        except Inconclusive:
            continue
    if obs is None:
        raise Inconclusive('no native scenario for a selector counterexample of kind %#x' % kind)
    # run_swap_scenario judges against the settlement reference: for a non-swap kind "consistent with the reference" means the
    # output WAS transformed although the transaction is not a swap
    native = obs.get('native', {})
    probe = (native.get('probes') or [None])[0]
    transformed = probe is not None and probe.get('denom') == 'SYM'
    violated = transformed and kind != want_kind
    return violated, sc, {'kind': hex(kind), 'first_output_after_settlement': probe, 'transformed': transformed}

"""Contracts of CoinMapping::{insert_coin, remove_coin, get_coin, coin_count} used as summaries by the batch-level
checks.  C20 discharges, on the MIR of the real methods, that each method meets its contract (same tree contents at
every written key, nothing else written) and that -- under the count invariant, which C20's step lemmas show every
operation preserves -- the methods cannot panic.  The batch-level checks then rely on the contract instead of
re-exploring the methods' branches for every coin of every transaction (assume-guarantee composition)."""
import re
import z3

from mirsym import models as M
from mirsym.interp import Agg, Ptr, Opaque, UNIT, bv, simp, mk_option, EnumV


def _tree_of(it, st, selfptr):
    cm = it.load(st, selfptr)
    return cm.fields[0].data


def _set_tree(it, st, selfptr, tm):
    it.store(st, selfptr, Agg('CoinMapping', [Opaque('Tree', tm)]))


def coin_key_of(st, cid):
    return M.hash_apply(st, 'single:CoinID', [cid.fields[0].fields[0].fields[0], cid.fields[1]])


def count_key_of(st, covhash_term):
    return M.hash_apply(st, 'keyed[coin_count]:hashval', [covhash_term])


def covhash_of(cdh):
    return cdh.fields[0].fields[0].fields[0].fields[0]


def count_value(it, st, tm, covhash_term):
    b = M.tree_get(it, st, tm, count_key_of(st, covhash_term))
    if isinstance(b, Agg):
        return bv(0, 64)
    return z3.If(b.data.present, b.data.value, bv(0, 64))


def contract_insert(it, st, tm, cid, cdh, flag):
    k = coin_key_of(st, cid)
    pre = M.tree_get(it, st, tm, k)
    preexist = z3.BoolVal(False) if isinstance(pre, Agg) else pre.data.present
    tm2 = tm.with_entry(k, M.ser('CoinDataHeight', cdh))
    g = simp(z3.And(flag, z3.Not(preexist)))
    if not z3.is_false(g):
        a = covhash_of(cdh)
        n = count_value(it, st, tm2, a)
        tm2 = tm2.with_entry(count_key_of(st, a), M.ser('u64', n + 1), g)
    return tm2


def contract_remove(it, st, tm, cid, flag):
    k = coin_key_of(st, cid)
    pre = M.tree_get(it, st, tm, k)
    tm2 = tm
    if not isinstance(pre, Agg):
        g = simp(z3.And(flag, pre.data.present))
        if not z3.is_false(g):
            a = covhash_of(pre.data.value)
            n = count_value(it, st, tm, a)
            tm2 = tm2.with_entry(count_key_of(st, a), M.ser('u64', n - 1, n - 1 != 0), g)
    return tm2.with_entry(k, M.EMPTY_BYTES)


def contract_get(it, st, tm, cid):
    b = M.tree_get(it, st, tm, coin_key_of(st, cid))
    if isinstance(b, Agg):
        return EnumV('Option', 0, {'None': ()})
    return mk_option(b.data.present, b.data.value)


def install(it):
    def ins(itp, st, args, ctx):
        tm = _tree_of(itp, st, args[0])
        _set_tree(itp, st, args[0], contract_insert(itp, st, tm, args[1], args[2], args[3]))
        return UNIT

    def rem(itp, st, args, ctx):
        tm = _tree_of(itp, st, args[0])
        _set_tree(itp, st, args[0], contract_remove(itp, st, tm, args[1], args[2]))
        return UNIT

    def get(itp, st, args, ctx):
        return contract_get(itp, st, _tree_of(itp, st, args[0]), args[1])

    def cnt(itp, st, args, ctx):
        return count_value(itp, st, _tree_of(itp, st, args[0]), args[1].fields[0].fields[0])
    pats = {r'CoinMapping::<.*>::insert_coin$': ins, r'CoinMapping::<.*>::remove_coin$': rem,
            r'CoinMapping::<.*>::get_coin$': get, r'CoinMapping::<.*>::coin_count$': cnt}
    it.overrides = [o for o in it.overrides if o[0].pattern not in pats] + [(re.compile(p), f) for p, f in pats.items()]

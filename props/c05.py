"""C05 - fees: minimum fee enforced; fee pool / tips / proposer reward accounted exactly."""
import re
import z3

from mirsym import shapes as S, models as M, melmodels as MM
from mirsym.collections import MapM
from mirsym.interp import State, Agg, Ptr, Panic, Ret, UNINIT, UNIT, bv, Opaque, EnumV, Inconclusive, simp, G, val_eq
from mirsym import harness
from props import batch as B, scenario

MAXU = (1 << 128) - 1


def sat_add(a, b):
    r = a + b
    return z3.If(z3.ULT(r, a), bv(MAXU, 128), r)


def sat_sub(a, b):
    return z3.If(z3.ULT(a, b), bv(0, 128), a - b)


def sat_mul(a, b):
    # u128::saturating_mul, stated the way the std model of the engine states it (the definition of the operation)
    return z3.If(z3.BVMulNoOverflow(a, b, False), a * b, bv(MAXU, 128))


def shapes_for(tier):
    return [(1, 1, 1), (2, 3, 2)] if tier == 'quick' else [(1, 1, 1), (2, 3, 2), (3, 1, 0), (0, 2, 3), (4, 4, 2)]


def run(chk):
    it = chk.load()
    it = B.prepare(chk)
    S.check_layout(it.adts)
    chk.bounds = {'tx shapes (inputs, outputs, covenants)': [str(s) for s in shapes_for(chk.tier)],
                  'batch accounting': '2 transactions in one create_next_state (3 in the thorough tier)',
                  'serialized length': 'symbolic, < 2^32', 'covenant weights': 'any u128 each, sum < 2^128 (see finding)',
                  'fee, multiplier, fee pool, tips': 'full u128 (pool + tips <= 2^127 for the reward coin)'}
    chk.assume_note('stdcode::serialize(tx).len() is a symbolic length; covenant_weight_from_bytes is an uninterpreted '
                    'function of the covenant bytes (its real code is the subject of C11)')
    for shape in shapes_for(chk.tier):
        chk.guard(base_fee_kernel, chk, it, shape)
    chk.guard(accounting_kernel, chk, it)
    for n in ((2,) if chk.tier == 'quick' else (2, 3)):
        chk.guard(accounting_kernel_batch, chk, it, n)
    chk.guard(reward_kernel, chk, it)


def base_fee_kernel(chk, it, shape):
    ni, no, nc = shape
    tag = '%d.%d.%d' % shape
    G.reset()
    it.overrides = [o for o in it.overrides if o[0].pattern != r'Transaction::base_fee']
    st = State()
    tx, tt = B.sym_tx('tx', ni, no, nc, st.pc)
    mult = z3.BitVec('fee_multiplier', 128)
    ballast = z3.BitVec('ballast', 128)
    inputs = {'fee_multiplier': mult, 'ballast': ballast}
    fn = [f for f in it.by_last['base_fee'] if f.crate == 'melstructs'][0]
    clo_name = None
    for loc, f in it.closures.items():
        if f.name.startswith('create_next_state::{closure#0}'):
            clo_name = '{closure@%s}' % loc
    if clo_name is None:
        raise Inconclusive('fee closure of create_next_state not found')
    txc = st.alloc(tx)
    outs = it.exec_fn(st, fn, [Ptr(txc), mult, ballast, Agg(clo_name, [])])
    ln = M.bytes_len(it, st, M.ser('Transaction', tx))
    weights = [MM.COV_WEIGHT(c.data['id']) for c in tx.fields[4].fields]
    wsum = bv(0, 128)
    wide = z3.BitVecVal(0, 136)
    for w in weights:
        wsum = wsum + w
        wide = wide + z3.ZeroExt(8, w)
    no_sum_overflow = z3.ULE(wide, z3.BitVecVal(MAXU, 136))
    raw = z3.ZeroExt(64, ln)
    weight = sat_sub(sat_add(sat_add(raw, wsum), bv(1000 * no, 128)), bv(1000 * ni, 128))
    spec = z3.LShR(sat_mul(sat_add(weight, ballast), mult), 16)
    n = 0
    for idx, (s, o) in enumerate(outs):
        name = 'base_fee/%s/%d' % (tag, idx)
        if isinstance(o, Panic):
            chk.obligation('PANIC/' + name, list(s.pc) + [no_sum_overflow], z3.BoolVal(False), inputs, replay=None, kind='PANIC',
                           describe=str(o), bound=tag + ', covenant weights summing to < 2^128')
            if nc >= 2:
                # the overflow of the covenant-weight sum itself is a finding (see known_findings.json)
                chk.obligation('PANIC/covenant-weight-sum/' + name, list(s.pc), z3.BoolVal(False),
                               dict(inputs, weight_sum_overflows=z3.If(no_sum_overflow, bv(0, 8), bv(1, 8))),
                               replay=lambda mo: replay_weight_sum(chk), kind='PANIC', describe=str(o), bound=tag)
            continue
        n += 1
        got = o.v.fields[0]
        chk.obligation('FUNC/min-fee-formula/' + name, list(s.pc), got == spec, inputs, replay=None,
                       bound=tag + ': ((len + sum w + 1000*out) -sat 1000*in + ballast) *sat mult >> 16')
        chk.sample({'kernel': 'base_fee', 'shape': tag, 'result': str(z3.simplify(got))[:120]})
    if n == 0:
        raise Inconclusive('base_fee has no returning path')


def accounting_kernel(chk, it):
    """create_next_state on one transaction: accepted iff fee >= min_fee; pool += min_fee; tips += fee - min_fee"""
    G.reset()
    G.atomic_domains = {'single:Transaction'}
    B.abstract_base_fee(it)
    st = State()
    state, sterms = B.sym_state(st.pc)
    B.install_coin_invariants(it, B.cdh_covhash)
    tx, tt = B.sym_tx('tx', 1, 1, 1, st.pc, exclude_kinds=('Faucet',))
    rc = Opaque('Map', MapM())
    flag = z3.Bool('is_tip_906')
    fn = it.by_last['create_next_state'][0]
    bcell = st.alloc(Agg('array', [tx]))
    rcell = st.alloc(rc)
    outs = it.exec_fn(st, fn, [state, Ptr(bcell), Ptr(rcell), flag])
    ident = M.hash_apply(st, 'txidentity', M.flatten(tx))
    min_fee = B.MINFEE(ident, sterms['fee_multiplier'])
    fee = tt['fee']
    inputs = {'fee': fee, 'fee_pool': sterms['fee_pool'], 'tips': sterms['tips'], 'fee_multiplier': sterms['fee_multiplier'],
              'min_fee': min_fee}
    n = 0
    for idx, (s, o) in enumerate(outs):
        name = 'create_next_state/%d' % idx
        if isinstance(o, Panic):
            chk.obligation('PANIC/' + name, list(s.pc), z3.BoolVal(False), inputs, replay=None, kind='PANIC', describe=str(o))
            continue
        n += 1
        ok = M.is_variant(o.v, 'Ok')
        chk.obligation('FUNC/accepted-iff-fee-covers-minimum/' + name, list(s.pc), ok == z3.UGE(fee, min_fee), inputs,
                       replay=lambda mo, s=s: replay_fee(chk, mo, inputs), bound='all u128 fees / minimum fees')
        if 'Ok' in o.v.payloads:
            ns = o.v.payloads['Ok'][0]
            claim = z3.And(ns.fields[5].fields[0] == sat_add(sterms['fee_pool'], min_fee),
                           ns.fields[7].fields[0] == sat_add(sterms['tips'], fee - min_fee),
                           ns.fields[6] == sterms['fee_multiplier'])
            chk.obligation('FUNC/pool-gets-minimum-tips-get-rest/' + name, list(s.pc) + [ok], claim, inputs,
                           replay=lambda mo, s=s: replay_fee(chk, mo, inputs), bound='all u128')
        if 'Err' in o.v.payloads:
            e = o.v.payloads['Err'][0]
            chk.obligation('FUNC/underpaying-is-InsufficientFees/' + name, list(s.pc) + [z3.Not(ok)],
                           z3.And(M.is_variant(e, 'InsufficientFees'), e.payloads['InsufficientFees'][0].fields[0] == min_fee)
                           if 'InsufficientFees' in e.payloads else z3.BoolVal(False), inputs,
                           replay=lambda mo, s=s: replay_fee(chk, mo, inputs))
        chk.cover('fee exactly at the minimum accepted/' + name, list(s.pc) + [ok, fee == min_fee, z3.UGT(fee, 0)])
        chk.cover('fee one below the minimum rejected/' + name, list(s.pc) + [z3.Not(ok), fee + 1 == min_fee])
    if n == 0:
        raise Inconclusive('create_next_state has no returning path')
    it.overrides = [o for o in it.overrides if o[0].pattern != r'Transaction::base_fee']


def accounting_kernel_batch(chk, it, n):
    """create_next_state on n transactions: accepted iff every fee covers its minimum; the pool grows by the sum of the
    minimum fees and the tips by the sum of the surpluses (saturating), whatever the batch order"""
    G.reset()
    G.atomic_domains = {'single:Transaction'}
    B.abstract_base_fee(it)
    try:
        st = State()
        state, sterms = B.sym_state(st.pc)
        B.install_coin_invariants(it, B.cdh_covhash)
        txs, tts = [], []
        for i in range(n):
            tx, tt = B.sym_tx('tx' + 'abc'[i], 1, 1, 1, st.pc, exclude_kinds=('Faucet',))
            txs.append(tx)
            tts.append(tt)
        hs = [B.tx_hash_term(it, st, tx) for tx in txs]
        for i in range(n):
            for j in range(i + 1, n):
                G.declare_distinct(hs[i], hs[j])
        rc = Opaque('Map', MapM())
        flag = z3.Bool('is_tip_906')
        fn = it.by_last['create_next_state'][0]
        bcell = st.alloc(Agg('array', txs))
        rcell = st.alloc(rc)
        outs = it.exec_fn(st, fn, [state, Ptr(bcell), Ptr(rcell), flag])
        mins = [B.MINFEE(M.hash_apply(st, 'txidentity', M.flatten(tx)), sterms['fee_multiplier']) for tx in txs]
        fees = [tt['fee'] for tt in tts]
        inputs = {'fee_pool': sterms['fee_pool'], 'tips': sterms['tips'], 'fee_multiplier': sterms['fee_multiplier']}
        for i in range(n):
            inputs['fee_%d' % i] = fees[i]
            inputs['min_fee_%d' % i] = mins[i]
        W = 128 + 4
        ext = lambda t: z3.ZeroExt(W - 128, t)
        cap = lambda t: z3.If(z3.UGT(t, bv(MAXU, W)), bv(MAXU, 128), z3.Extract(127, 0, t))
        all_cover = z3.And([z3.UGE(f, m) for f, m in zip(fees, mins)])
        pool_sum, tips_sum = ext(sterms['fee_pool']), ext(sterms['tips'])
        for f, m in zip(fees, mins):
            pool_sum = pool_sum + ext(m)
            tips_sum = tips_sum + ext(f - m)
        k = 0
        for idx, (s, o) in enumerate(outs):
            name = 'create_next_state/%dtx/%d' % (n, idx)
            rp = lambda mo: replay_fee_batch(chk, mo, inputs, n)
            if isinstance(o, Panic):
                chk.obligation('PANIC/' + name, list(s.pc), z3.BoolVal(False), inputs, replay=rp, kind='PANIC', describe=str(o))
                continue
            k += 1
            ok = M.is_variant(o.v, 'Ok')
            chk.obligation('FUNC/batch-accepted-iff-every-fee-covers-its-minimum/' + name, list(s.pc), ok == all_cover, inputs,
                           replay=rp, bound='%d transactions, all u128 fees / minimum fees' % n)
            if 'Ok' in o.v.payloads:
                ns = o.v.payloads['Ok'][0]
                claim = z3.And(ns.fields[5].fields[0] == cap(pool_sum), ns.fields[7].fields[0] == cap(tips_sum),
                               ns.fields[6] == sterms['fee_multiplier'])
                chk.obligation('FUNC/batch-pool-gets-the-minimums-tips-get-the-rest/' + name, list(s.pc) + [ok], claim, inputs,
                               replay=rp, bound='%d transactions; sums saturate at u128::MAX' % n)
            chk.cover('every transaction of the batch tips/' + name, list(s.pc) + [ok] + [z3.UGT(f, m) for f, m in zip(fees, mins)])
        if k == 0:
            raise Inconclusive('create_next_state has no returning path')
    finally:
        it.overrides = [o for o in it.overrides if o[0].pattern != r'Transaction::base_fee']


def replay_fee_batch(chk, model, inputs, n):
    """n independent always-true spends in one batch; fees = real minimum fee + the surplus the solver chose"""
    ev = lambda t: harness.model_int(model, t)
    mult, fp, tips = min(ev(inputs['fee_multiplier']), 1 << 40), ev(inputs['fee_pool']), ev(inputs['tips'])
    surplus = []
    for i in range(n):
        f, m = ev(inputs['fee_%d' % i]), ev(inputs['min_fee_%d' % i])
        surplus.append(min(max(f - m, 0), 1 << 100) if f >= m else 0)
    if not any(surplus):
        surplus = [7 + i for i in range(n)]

    def scenario_for(fees):
        coins, txs = [], []
        for i in range(n):
            cid = {'txhash': {'hex': ('%02x' % (0x11 + i)) * 32}, 'index': 0}
            value = fees[i] + 5
            coins.append({'id': cid, 'covhash': {'covhash_of': 'true'}, 'value': str(value), 'denom': 'MEL', 'adata': '', 'height': 0})
            txs.append({'name': 'abc'[i], 'kind': 0, 'inputs': [cid], 'fee': str(fees[i]), 'covenants': ['true'], 'data': '',
                        'outputs': [{'covhash': {'covhash_of': 'true'}, 'value': '5', 'denom': 'MEL', 'adata': '%02x' % i}]})
        return {'kind': 'batch', 'network': 2, 'height': 1, 'fee_pool': str(fp), 'tips': str(tips), 'fee_multiplier': str(mult),
                'dosc_speed': '1000000', 'coins': coins, 'txs': txs, 'probes': [], 'report_min_fee': True}
    first = harness.run_replay([scenario_for([1 << 60] * n)], 'dev')[0]
    if 'error' in first or 'unrealizable' in first:
        raise Inconclusive('replay: %s' % first)
    mins = [int(first['min_fees']['abc'[i]]) for i in range(n)]
    fees = [m + s_ for m, s_ in zip(mins, surplus)]
    sc = scenario_for(fees)
    out = harness.run_replay([sc], 'dev')[0]
    if 'error' in out or 'unrealizable' in out:
        raise Inconclusive('replay: %s' % out)
    run = out['runs'][0]
    mins2 = [int(out['min_fees']['abc'[i]]) for i in range(n)]
    why = ''
    if run.get('panicked'):
        why = 'panic'
    elif run['result'] != 'Ok':
        why = '' if any(f < m for f, m in zip(fees, mins2)) else 'every fee covers its minimum but the batch was rejected: %s' % run['result']
    else:
        want_pool, want_tips = min(fp + sum(mins2), MAXU), min(tips + sum(f - m for f, m in zip(fees, mins2)), MAXU)
        if int(run['after']['fee_pool']) != want_pool or int(run['after']['tips']) != want_tips:
            why = 'pool/tips %s/%s, expected %d/%d' % (run['after']['fee_pool'], run['after']['tips'], want_pool, want_tips)
    return bool(why), sc, {'why': why or 'consistent', 'min_fees': mins2, 'fees': fees, 'result': run.get('result')}


def reward_kernel(chk, it):
    """collect_proposer_action_fee: one coin worth fee_pool/65536 + tips to reward_dest; pool and tips shrink by it"""
    G.reset()
    st = State()
    state, sterms = B.sym_state(st.pc)
    B.install_coin_invariants(it, B.cdh_covhash)
    fp, tips, h = sterms['fee_pool'], sterms['tips'], sterms['height']
    wide = z3.ZeroExt(8, fp) + z3.ZeroExt(8, tips)
    st.pc.append(z3.ULE(wide, z3.BitVecVal(1 << 127, 136)))  # P-SUPPLY: MEL in the pool and in tips is part of the supply
    dest = z3.BitVec('reward_dest', 256)
    action = Agg('ProposerAction', [z3.BitVec('delta', 8), S.address(dest)])
    cell = st.alloc(state)
    fn = it.by_last['collect_proposer_action_fee'][0]
    outs = it.exec_fn(st, fn, [Ptr(cell), action])
    inputs = {'fee_pool': fp, 'tips': tips, 'height': h, 'reward_dest': dest, 'network': sterms['network']}
    n = 0
    # the reward coin's key, read off a path that writes it (the id is (hash_keyed("reward_coin_pseudoid", height), 0))
    reward_key = None
    for s, o in outs:
        if isinstance(o, Panic):
            continue
        t1 = s.heap[cell].fields[3].fields[0].data
        ws = [e for e in s.events if e[0] == 'tree_insert' and e[1] == 'coins'] or [(None, 'coins', k, v) for k, v, g in t1.entries]
        ws = [w for w in ws if M.hash_domain_of(w[2]) == 'single:CoinID']
        if len(ws) > 1:
            raise Inconclusive('expected at most one coin written by collect_proposer_action_fee, saw %d' % len(ws))
        if ws:
            reward_key = ws[0][2]
    if reward_key is None:
        raise Inconclusive('no path of collect_proposer_action_fee writes a coin')
    reward_covers = []
    for idx, (s, o) in enumerate(outs):
        name = 'collect_proposer_action_fee/%d' % idx
        if isinstance(o, Panic):
            chk.obligation('PANIC/' + name, list(s.pc), z3.BoolVal(False), inputs, replay=lambda mo: replay_reward(chk, mo, inputs),
                           kind='PANIC', describe=str(o), bound='fee pool + tips <= 2^127')
            continue
        n += 1
        post = s.heap[cell]
        base_fees = z3.LShR(fp, 16)
        tree1 = post.fields[3].fields[0].data
        key = reward_key
        # read the entry back through the tree model: a write that happens only on some paths (guarded entry after a
        # join of return paths) is then present only under its guard
        val = M.tree_get(it, s, tree1, key)
        if isinstance(val, Agg):
            raise Inconclusive('reward coin entry not readable')
        cdh = val.data.value
        created = val.data.present
        want = Agg('CoinDataHeight', [Agg('CoinData', [S.address(dest), S.coinvalue(base_fees + tips), S.denom('Mel'),
                                                      Agg('Vec', [])]), S.blockheight(h)])
        # the coin id is (hash_keyed("reward_coin_pseudoid", height), 0)
        idterm = key.arg(0)
        idx_t = key.arg(1)
        idok = z3.And(idx_t == 0, z3.BoolVal(M.hash_domain_of(idterm) is not None and 'reward_coin_pseudoid' in (M.hash_domain_of(idterm) or '')))
        claim = z3.And(created, val_eq(cdh, want), post.fields[5].fields[0] == fp - base_fees, post.fields[7].fields[0] == 0,
                       post.fields[6] == sterms['fee_multiplier'], idok)
        chk.obligation('FUNC/reward-coin-and-accounts/' + name, list(s.pc), claim, inputs,
                       replay=lambda mo: replay_reward(chk, mo, inputs), bound='all u128 with pool + tips <= 2^127')
        # conservation: what left pool+tips is exactly the coin's value
        before = z3.ZeroExt(8, fp) + z3.ZeroExt(8, tips)
        after = z3.ZeroExt(8, post.fields[5].fields[0]) + z3.ZeroExt(8, post.fields[7].fields[0]) + z3.ZeroExt(8, cdh.fields[0].fields[1].fields[0])
        chk.obligation('FUNC/reward-conserves-mel/' + name, list(s.pc), before == after, inputs,
                       replay=lambda mo: replay_reward(chk, mo, inputs))
        reward_covers.append((list(s.pc), z3.And(z3.UGT(fp, 1 << 20), z3.UGT(tips, 5))))
    if n == 0:
        raise Inconclusive('collect_proposer_action_fee has no returning path')
    chk.cover_any('non-zero pool and tips/collect_proposer_action_fee', reward_covers)


def replay_fee(chk, model, inputs):
    """one always-true coin spent by one transaction, on a state with the model's multiplier / pool / tips; fees tried:
    the model's fee (if well-formed) and the real minimum fee of that very transaction -1, +0, +1"""
    ev = lambda t: harness.model_int(model, t)
    fee0, mult, fp, tips = ev(inputs['fee']), ev(inputs['fee_multiplier']), ev(inputs['fee_pool']), ev(inputs['tips'])
    mult = min(mult, 1 << 40)

    def scenario_for(fee):
        value = max(fee, 1)
        return {'kind': 'batch', 'network': 2, 'height': 1, 'fee_pool': str(fp), 'tips': str(tips), 'fee_multiplier': str(mult),
                'dosc_speed': '1000000',
                'coins': [{'id': {'txhash': {'hex': '11' * 32}, 'index': 0}, 'covhash': {'covhash_of': 'true'},
                           'value': str(value), 'denom': 'MEL', 'adata': '', 'height': 0}],
                'txs': [{'name': 'a', 'kind': 0, 'inputs': [{'txhash': {'hex': '11' * 32}, 'index': 0}],
                         'outputs': [{'covhash': {'covhash_of': 'true'}, 'value': str(value - fee), 'denom': 'MEL', 'adata': ''}],
                         'fee': str(fee), 'covenants': ['true'], 'data': ''}], 'probes': [], 'report_min_fee': True}
    first = harness.run_replay([scenario_for(min(fee0, 1 << 120))], 'dev')[0]
    if 'error' in first or 'unrealizable' in first:
        raise Inconclusive('replay: %s' % first)
    m0 = int(first['min_fees']['a'])
    cands = sorted(set(f for f in (min(fee0, 1 << 120), m0 - 1, m0, m0 + 1) if 0 <= f <= (1 << 120)))
    for fee in cands:
        sc = scenario_for(fee)
        out = harness.run_replay([sc], 'dev')[0]
        run = out['runs'][0]
        min_fee = int(out['min_fees']['a'])
        why = ''
        if run.get('panicked'):
            why = 'panic'
        elif (run['result'] == 'Ok') != (fee >= min_fee):
            why = 'fee %d vs minimum %d but result %s' % (fee, min_fee, run['result'])
        elif run['result'] == 'Ok':
            if int(run['after']['fee_pool']) != min(fp + min_fee, MAXU) or int(run['after']['tips']) != min(tips + fee - min_fee, MAXU):
                why = 'pool/tips %s/%s, expected %d/%d' % (run['after']['fee_pool'], run['after']['tips'],
                                                          min(fp + min_fee, MAXU), min(tips + fee - min_fee, MAXU))
        if why:
            return True, sc, {'why': why, 'min_fee': min_fee, 'fee': fee, 'result': run.get('result')}
    # the same transaction in two signature variants (same hash_nosigs, different serialized size, hence different minimum
    # fees), each applied to its own copy of the state in one process: each must be charged its OWN minimum
    sc2 = scenario_for(0)
    light = sc2['txs'][0]
    heavy = dict(light, name='b', sigs=['ab' * 300])
    sc2['txs'] = [light, heavy]
    sc2['coins'][0]['value'] = str(1 << 60)
    probe = harness.run_replay([dict(sc2, orders=[[0]])], 'dev')[0]
    if 'error' in probe or 'unrealizable' in probe:
        raise Inconclusive('replay: %s' % str(probe)[:300])
    ml, mh = int(probe['min_fees']['a']), int(probe['min_fees']['b'])
    if mult and mh > ml:
        fee = ml  # enough for the light variant, too little for the heavy one
        for t in sc2['txs']:
            t['fee'] = str(fee)
            t['outputs'][0]['value'] = str((1 << 60) - fee)
        out = harness.run_replay([dict(sc2, orders=[[0], [1]])], 'dev')[0]
        r_light, r_heavy = out['runs'][0], out['runs'][1]
        why = []
        if r_light.get('result') != 'Ok':
            why.append('light variant paying its minimum %d rejected: %s' % (ml, r_light.get('result')))
        if r_heavy.get('result') == 'Ok':
            why.append('heavy variant (minimum %d) accepted with fee %d after the light one was weighed' % (mh, fee))
        if why:
            return True, sc2, {'why': why, 'min_fee_light': ml, 'min_fee_heavy': mh}
    return False, scenario_for(cands[0]), {'tried_fees': [str(c) for c in cands], 'all_consistent': True, 'signature_variants': 'consistent'}


def replay_reward(chk, model, inputs):
    """seal(Some(action)) on an empty block with the model's pool / tips, on a network with the TIP-909 subsidy (Custom02)
    and on networks without it at this height (Testnet, Mainnet), where the pool reaches the proposer action unchanged"""
    ev = lambda t: harness.model_int(model, t)
    fp, tips = ev(inputs['fee_pool']), ev(inputs['tips'])
    dest = '%064x' % ev(inputs['reward_dest'])
    last = None
    for net in (2, 1, 0xff):
        sc = {'kind': 'batch', 'network': net, 'height': 1, 'fee_pool': str(fp), 'tips': str(tips), 'fee_multiplier': '1000',
              'dosc_speed': '1000000', 'coins': [], 'txs': [], 'probes': [], 'seal': {'delta': 0, 'reward_dest': dest},
              'probe_reward': True}
        out = harness.run_replay([sc], 'dev')[0]
        if 'error' in out or 'unrealizable' in out:
            raise Inconclusive('replay: %s' % out)
        seal = out['runs'][0]['seal']
        if seal.get('panicked'):
            return True, sc, seal
        # with TIP-909 on, the subsidy adds the MEL it buys to the fee pool *before* the proposer action
        reward = seal.get('reward_coin')
        pool_before = int(seal['fee_pool_before_action'])
        want = (pool_before >> 16) + tips
        bad = reward is None or int(reward['value']) != want or reward['covhash'] != dest or reward['denom'] != 'MEL' \
            or int(seal['fee_pool']) != pool_before - (pool_before >> 16) or int(seal['tips']) != 0
        last = (sc, {'network': net, 'reward': reward, 'expected_value': str(want), 'fee_pool_after': seal['fee_pool'],
                     'tips_after': seal['tips']})
        if bad:
            return True, last[0], last[1]
    return False, last[0], last[1]


def replay_weight_sum(chk):
    """a transaction carrying two covenants of saturated weight (8 nested 65535-iteration loops each)"""
    out = harness.run_replay([{'kind': 'c05_weight_sum'}], 'dev')[0]
    rel = harness.run_replay([{'kind': 'c05_weight_sum'}], 'release')[0] if chk.tier != 'quick' else None
    return bool(out.get('panicked')), {'kind': 'c05_weight_sum'}, {'dev': out, 'release': rel}

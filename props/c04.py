"""C04 - a coin is spent only when its covenant approves that very spend."""
import re
import z3

from mirsym import shapes as S, models as M, melmodels as MM
from mirsym.collections import MapM
from mirsym.interp import (State, Agg, Ptr, Panic, Ret, UNINIT, UNIT, bv, Opaque, EnumV, Inconclusive, simp, G, val_eq,
                           mk_some)
from mirsym import harness
from props import batch as B


def run(chk):
    it = chk.load()
    it = B.prepare(chk)
    B.abstract_base_fee(it)
    S.check_layout(it.adts)
    chk.bounds = {'transaction': '2 inputs, 1 output, 2 covenants; all fields symbolic (covenant hashes of the two coins may '
                                 'coincide or differ)', 'state': 'height >= 1, arbitrary previous header'}
    chk.assume_note('Covenant::from_bytes / Covenant::execute are uninterpreted functions of (script bytes) and (script, '
                    'transaction, environment): decided is which script, transaction and environment reach them for which '
                    'input and that their verdict is obeyed; the interpreter itself is C10-C12')
    chk.assume_note('A-HASH: the covenant hash of a script is an injective function of its bytes')
    kernel(chk, it)
    # more inputs than any fixed-size grouping a validator might process them in (position among the inputs must be the
    # position in the whole transaction): one carried covenant, so the branching per input stays small
    for n_in in ((9,) if chk.tier == 'quick' else (3, 9, 17)):
        kernel(chk, it, n_in=n_in, n_cov=1)


def kernel(chk, it, n_in=2, n_cov=2):
    G.reset()
    G.atomic_domains = {'single:Transaction'}
    st = State()
    state, sterms = B.sym_state(st.pc)
    B.install_history_invariant(it, sterms['height'])
    st.pc.append(z3.UGE(sterms['height'], 1))
    st.pc.append(z3.ULE(sterms['height'], 100_000_000))
    tx, tt = B.sym_tx('tx', n_in, 1, n_cov, st.pc, exclude_kinds=('DoscMint',))
    st.pc.append(z3.ULE(tt['fee'], 1 << 120))
    st.pc.append(z3.ULE(tt['out0_value'], 1 << 120))
    rc = MapM()
    cdhs = []
    tot = z3.BitVecVal(0, 136)
    for i, cid in enumerate(tx.fields[1].fields):
        holder = M.State_for_symvalue()
        cdh = S.sym_value('CoinDataHeight', 'coin%d' % i, holder)
        st.pc.extend(holder.pc)
        cdhs.append(cdh)
        rc = rc.insert(cid, cdh)
        tot = tot + z3.ZeroExt(8, cdh.fields[0].fields[1].fields[0])
    st.pc.append(z3.ULE(tot, z3.BitVecVal(1 << 127, 136)))
    ins_ = tx.fields[1].fields
    for a_ in range(n_in):
        for b_ in range(a_ + 1, n_in):
            st.pc.append(z3.Not(val_eq(ins_[a_], ins_[b_])))  # load_relevant_coins has rejected repeated inputs (C02)
    new_stakes = Opaque('Map', MapM())
    fn = it.by_last['check_tx_validity'][0]
    txc = st.alloc(tx)
    outs = it.exec_fn(st, fn, [Ptr(st.alloc(state)), Ptr(txc), Ptr(st.alloc(Opaque('Map', rc))), Ptr(st.alloc(new_stakes))])
    # reference: what must have been evaluated for input i
    hist = state.fields[2].fields[0].data
    hkey = M.hash_apply(st, 'single:BlockHeight', [sterms['height'] - 1])
    last = M.tree_get(it, st, hist, hkey)
    last_header = last.data.value
    txid = M._hash_of_bytes(it, st, 'exec-tx', M.ser('Transaction', tx))
    scripts = tx.fields[4].fields
    inputs = {'height': sterms['height'], 'network': sterms['network']}
    inputs.update(dict(('tx_' + k, v) for k, v in tt.items()))
    for i, c in enumerate(cdhs):
        inputs['coin%d_covhash' % i] = B.cdh_covhash(c)

    def approved(i):
        cid = tx.fields[1].fields[i]
        env = Agg('CovenantEnv', [cid, cdhs[i], bv(i, 8), last_header])
        envid = M._hash_of_bytes(it, st, 'exec-env', M.ser('Env', mk_some(env)))
        alts = []
        for sc in scripts:
            sid = sc.data['id']
            shash = M.hash_apply(st, 'single:symbytes', [sid])
            alts.append(z3.And(shash == B.cdh_covhash(cdhs[i]), MM.COV_DECODES(sid), MM.COV_EXEC(sid, txid, envid)))
        return z3.Or(alts)
    want = [approved(i) for i in range(n_in)]
    checked = (0, 1) if n_in == 2 else sorted(set([0, 1, n_in // 2, n_in - 2, n_in - 1]))
    covers = {}
    n = 0
    for idx, (s, o) in enumerate(outs):
        name = 'check_tx_validity/%s%d' % ('' if n_in == 2 else '%din/' % n_in, idx)
        rp = lambda mo, s=s: replay(chk, mo, inputs, n_in)
        if isinstance(o, Panic):
            if n_in == 2:  # panic freedom of the wider shapes is not this kernel's subject (C09)
                chk.obligation('PANIC/' + name, list(s.pc), z3.BoolVal(False), inputs, replay=None, kind='PANIC', describe=str(o))
            continue
        n += 1
        ok = M.is_variant(o.v, 'Ok')
        pcs = list(s.pc)
        # "cov_ran" variables say whether execution returned a value at all; a script that did not return fails
        for i in checked:
            chk.obligation('FUNC/accepted-only-if-input-%d-approved-in-its-own-environment/%s' % (i, name), pcs + [ok], want[i],
                           inputs, replay=lambda mo, i=i: replay(chk, mo, inputs, n_in, i), bound='%d inputs whose covenant hashes may coincide' % n_in)
        if n_in != 2:
            continue
        same = B.cdh_covhash(cdhs[0]) == B.cdh_covhash(cdhs[1])
        covers.setdefault('two coins locked by the same covenant spent together', []).append((pcs, z3.And(ok, same)))
        covers.setdefault('accepted with two different covenants', []).append((pcs, z3.And(ok, z3.Not(same))))
        if 'Err' in o.v.payloads:
            e = o.v.payloads['Err'][0]
            covers.setdefault('ViolatesScript reachable', []).append((pcs, z3.And(z3.Not(ok), M.is_variant(e, 'ViolatesScript'))))
            covers.setdefault('NonexistentScript reachable', []).append((pcs, z3.And(z3.Not(ok), M.is_variant(e, 'NonexistentScript'))))
            # missing script / undecodable script / failing script are rejections of the right kind
            for i in (0, 1):
                has_script = z3.Or([M.hash_apply(s, 'single:symbytes', [sc.data['id']]) == B.cdh_covhash(cdhs[i]) for sc in scripts])
                if i == 0:
                    chk.obligation('FUNC/missing-script-for-first-input-is-NonexistentScript/' + name,
                                   pcs + [z3.Not(has_script), z3.Not(M.is_variant(e, 'CoinLocked'))],
                                   z3.And(z3.Not(ok), M.is_variant(e, 'NonexistentScript')), inputs, replay=rp)
        chk.sample({'path': idx, 'executions': len([e for e in s.events if 'cov_execute' in str(e[0]) or (e[0] == 'when' and e[2][0] == 'cov_execute')])})
    if n == 0:
        raise Inconclusive('check_tx_validity has no returning path')
    for cname, alts in covers.items():
        chk.cover_any(cname, alts)


def replay(chk, model, inputs, n_in=2, pos=None):
    """two coins locked by the same position-dependent covenant (`spender index == 0`), spent by one transaction: the
    covenant approves the first input's environment and refuses the second's.  For the wider kernels: n coins, the one at the
    obligation's position locked by `spender index == k` for every k, the others by an always-true covenant -- accepted must
    coincide with the covenant's own verdict in that coin's environment"""
    req = {'kind': 'c04_env'}
    if n_in != 2:
        req = {'kind': 'c04_env', 'n_inputs': n_in, 'pos': pos if pos is not None else n_in - 1}
    out = harness.run_replay([req], 'dev')[0]
    if 'error' in out:
        raise Inconclusive('replay: ' + out['error'])
    bad = bool(out.get('panicked')) or (out.get('accepted') and not out.get('all_inputs_approve')) \
        or bool(out.get('refusing_covenants_accepted')) or bool(out.get('missing_script_accepted')) \
        or bool(out.get('positional_mismatch'))
    return bad, req, out

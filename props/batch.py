"""Shared harness: a symbolic UnsealedState and a symbolic batch of transactions for apply_tx_batch_impl."""
import re
import z3

from mirsym import shapes as S, models as M
from mirsym.collections import MapM
from mirsym.interp import State, Agg, Ptr, Panic, Ret, UNINIT, UNIT, bv, Opaque, EnumV, Inconclusive, simp

GRANDFATHERED = int('30a60b20830f000f755b70c57c998553a303cc11f8b1f574d5e9f7e26b645d8b', 16)
COIN_TYPES = {r'^single:CoinID$': 'CoinDataHeight', r'^keyed\[coin_count\]': 'u64'}
HIST_TYPES = {r'^single:BlockHeight$': 'Header'}
POOL_TYPES = {r'^single:PoolKey$': 'PoolState'}


def sym_tx(name, n_in, n_out, n_cov, pc, kind=None, exclude_kinds=(), n_sigs=0):
    """symbolic Transaction with concrete shape (n_in inputs, n_out outputs, n_cov covenants)"""
    terms = {}
    if kind is None:
        k, kd = S.sym_txkind(name + '_kind', pc)
        for ek in exclude_kinds:
            pc.append(kd != S.TXKINDS[ek])
    else:
        k, kd = EnumV('TxKind', S.TXKINDS[kind], {kind: ()}), bv(S.TXKINDS[kind], 8)
    terms['kind'] = kd
    ins = []
    for i in range(n_in):
        cid, h, ix = S.sym_coinid('%s_in%d' % (name, i))
        ins.append(cid)
        terms['in%d_txhash' % i] = h
        terms['in%d_index' % i] = ix
    outs = []
    for i in range(n_out):
        cd, t = S.sym_coindata('%s_out%d' % (name, i), pc)
        outs.append(cd)
        for kk, vv in t.items():
            terms['out%d_%s' % (i, kk)] = vv
    fee = z3.BitVec(name + '_fee', 128)
    terms['fee'] = fee
    covs = [S.sym_bytes('%s_cov%d' % (name, i), pc) for i in range(n_cov)]
    data = S.sym_bytes(name + '_data', pc)
    # signatures are not part of a transaction's identity (hash_nosigs clears them): symbolic ones make that visible
    sigs = Agg('Vec', [S.sym_bytes('%s_sig%d' % (name, i), pc) for i in range(n_sigs)])
    tx = Agg('Transaction', [k, Agg('Vec', ins), Agg('Vec', outs), S.coinvalue(fee), Agg('Vec', covs), data, sigs])
    return tx, terms


def sym_state(pc, stakes=None, name='st', prior_txs=0):
    """arbitrary UnsealedState over lazily sampled trees"""
    net, netd = S.sym_netid(name + '_network', pc)
    h = z3.BitVec(name + '_height', 64)
    fp = z3.BitVec(name + '_fee_pool', 128)
    tips = z3.BitVec(name + '_tips', 128)
    mult = z3.BitVec(name + '_fee_multiplier', 128)
    speed = z3.BitVec(name + '_dosc_speed', 128)
    terms = {'network': netd, 'height': h, 'fee_pool': fp, 'tips': tips, 'fee_multiplier': mult, 'dosc_speed': speed}
    coins = Agg('CoinMapping', [Opaque('Tree', M.TreeModel('coins', (), COIN_TYPES))])
    history = Agg('SmtMapping', [Opaque('Tree', M.TreeModel('history', (), HIST_TYPES)), UNIT, UNIT])
    pools = Agg('SmtMapping', [Opaque('Tree', M.TreeModel('pools', (), POOL_TYPES)), UNIT, UNIT])
    # transactions already applied at this height by earlier calls (a block is usually built call by call): arbitrary, bounded
    tm = MapM(ordered=True)
    for i in range(prior_txs):
        ptx, _ = sym_tx('%s_prior%d' % (name, i), 1, 1, 1, pc)
        ph = z3.BitVec('%s_prior%d_txhash' % (name, i), 256)
        terms['prior%d_txhash' % i] = ph
        terms['prior%d_present' % i] = z3.If(z3.Bool('%s_prior%d_present' % (name, i)), bv(1, 8), bv(0, 8))
        tm = tm.insert(S.txhash(ph), ptx, z3.Bool('%s_prior%d_present' % (name, i)))
    txset = Agg('TransactionSet', [Opaque('Map', tm)])
    stakeset = Agg('StakeSet', [Opaque('Map', MapM(stakes or ()))])
    state = S.unsealed(network=net, height=S.blockheight(h), history=history, coins=coins, transactions=txset,
                       fee_pool=S.coinvalue(fp), fee_multiplier=mult, tips=S.coinvalue(tips), dosc_speed=speed,
                       pools=pools, stakes=stakeset)
    return state, terms


def tip_spec(netd, h, mainnet_height):
    return z3.If(netd == 0xff, z3.UGE(h, mainnet_height), z3.If(netd == 0x01, z3.UGE(h, 500), z3.BoolVal(True)))


def result_variant(res):
    """(is_ok Bool, ok payload, err payload)"""
    return M.is_variant(res, 'Ok'), res.payloads.get('Ok', (None,))[0], res.payloads.get('Err', (None,))[0]


def install_history_invariant(it, height_term):
    """I-HIST: the history tree holds a header exactly for the heights below the current one, and the header stored
    at height k has height k"""
    def hook(itp, st, key, dom, v):
        if dom == 'single:BlockHeight':
            k = key.arg(0)
            st.assume_fact(v.data.present == z3.ULT(k, height_term))
            st.assume_fact(z3.Implies(v.data.present, v.data.value.fields[2].fields[0] == k))
    it.base_read_hooks['history'] = hook


# ---------------------------------------------------------------------------------------------------------------
# running a symbolic batch


class BatchRun:
    pass


def prepare(chk, join='.'):
    it = chk.interp or chk.load()
    S.check_layout(it.adts)
    it.merge_rx = re.compile(r'::tip_condition$')
    it.join_rx = re.compile(join) if join else None
    from props import coincontract
    coincontract.install(it)
    it.prefer_summary_rx = re.compile(r'Covenant::(from_bytes|execute|to_ops|weight|hash)$|covenant_weight_from_bytes$|Value::into_bool$|'
                                      r'microergs_per_dosc$')
    return it


def install_coin_invariants(it, covhash_of):
    """I-COUNT and P-SUPPLY over the lazily sampled coin tree.
    single: a stored count is in [1, 2^63); a coin's value is at most 2^127.
    pair:   a covenant hash that locks an existing coin has a count entry; two distinct existing coins of one
            denomination sum to at most 2^127 (the n-ary sum bound is added by supply_bound() at obligation time)."""
    def single(itp, st, key, dom, v):
        if dom.startswith('keyed[coin_count]'):
            st.assume_fact(z3.Implies(v.data.present, z3.And(z3.UGE(v.data.value, 1), z3.ULT(v.data.value, 1 << 63))))
        elif dom == 'single:CoinID':
            st.assume_fact(z3.Implies(v.data.present, z3.ULE(v.data.value.fields[0].fields[1].fields[0], 1 << 127)))

    def pair(itp, st, r1, r2):
        for (ka, va), (kb, vb) in ((r1, r2), (r2, r1)):
            da, db = M.hash_domain_of(ka), M.hash_domain_of(kb)
            if da == 'single:CoinID' and db and db.startswith('keyed[coin_count]'):
                st.assume_fact(z3.Implies(z3.And(va.data.present, covhash_of(va.data.value) == kb.arg(0)), vb.data.present))
        (ka, va), (kb, vb) = r1, r2
        if M.hash_domain_of(ka) == 'single:CoinID' and M.hash_domain_of(kb) == 'single:CoinID':
            ca, cb = va.data.value.fields[0], vb.data.value.fields[0]
            both = z3.And(va.data.present, vb.data.present, z3.Not(M.hash_eq(ka, kb)), M.val_eq(ca.fields[2], cb.fields[2]))
            tot = z3.ZeroExt(8, ca.fields[1].fields[0]) + z3.ZeroExt(8, cb.fields[1].fields[0])
            st.assume_fact(z3.Implies(both, z3.ULE(tot, z3.BitVecVal(1 << 127, 136))))
    it.base_single_hooks['coins'] = single
    it.base_pair_hooks['coins'] = pair
    it.base_read_hooks.pop('coins', None)


def supply_bound(st):
    """P-SUPPLY for all sampled coins together: per denomination the existing ones sum to <= 2^127"""
    coins = [(k, v) for k, v in st.notes.get('base:coins', ()) if M.hash_domain_of(k) == 'single:CoinID']
    conj = []
    for i, (ki, vi) in enumerate(coins):
        di = vi.data.value.fields[0].fields[2]
        tot = z3.BitVecVal(0, 136)
        for j, (kj, vj) in enumerate(coins):
            cj = vj.data.value.fields[0]
            distinct = z3.And([z3.Not(M.hash_eq(kj, kk)) for kk, _ in coins[:j]]) if j else z3.BoolVal(True)
            tot = tot + z3.If(z3.And(vj.data.present, distinct, M.val_eq(cj.fields[2], di)),
                              z3.ZeroExt(8, cj.fields[1].fields[0]), z3.BitVecVal(0, 136))
        conj.append(z3.ULE(tot, z3.BitVecVal(1 << 127, 136)))
    # I-COUNT, n-ary: a stored count is at least the number of distinct sampled coins locked by that covenant hash
    counts = [(k, v) for k, v in st.notes.get('base:coins', ()) if (M.hash_domain_of(k) or '').startswith('keyed[coin_count]')]
    for (kc, vc) in counts:
        n = z3.BitVecVal(0, 64)
        for j, (kj, vj) in enumerate(coins):
            distinct = z3.And([z3.Not(M.hash_eq(kj, kk)) for kk, _ in coins[:j]]) if j else z3.BoolVal(True)
            n = n + z3.If(z3.And(vj.data.present, distinct, cdh_covhash(vj.data.value) == kc.arg(0)),
                          z3.BitVecVal(1, 64), z3.BitVecVal(0, 64))
        conj.append(z3.UGE(z3.If(vc.data.present, vc.data.value, z3.BitVecVal(0, 64)), n))
    return conj


def cdh_covhash(cdh):
    return cdh.fields[0].fields[0].fields[0].fields[0]


def run_batch(chk, it, shapes, kinds=None, exclude_kinds=('DoscMint',), entry='apply_tx_batch', stakes=None,
              min_height=1, orders=None, distinct_txs=True, prior_txs=0):
    """shapes: list of (n_in, n_out, n_cov) per transaction.  Executes UnsealedState::apply_tx_batch on an arbitrary
    state satisfying I-HIST / I-COUNT.  Returns a BatchRun."""
    from mirsym.interp import G
    G.reset()
    if distinct_txs:
        G.atomic_domains = {'single:Transaction'}
    st = State()
    state, sterms = sym_state(st.pc, stakes=stakes, prior_txs=prior_txs)
    install_history_invariant(it, sterms['height'])
    install_coin_invariants(it, cdh_covhash)
    st.pc.append(z3.UGE(sterms['height'], min_height))
    st.pc.append(z3.ULE(sterms['height'], 100_000_000))  # P-HEIGHT
    txs, tterms = [], []
    for i, (ni, no, nc) in enumerate(shapes):
        nm = 'tx%s' % 'abcdef'[i]
        tx, tt = sym_tx(nm, ni, no, nc, st.pc, kind=(kinds[i] if kinds else None), exclude_kinds=exclude_kinds)
        txs.append(tx)
        tterms.append(tt)
    # A-HASH, acyclicity: a transaction's hash cannot occur inside a transaction it (transitively) depends on
    hs = [tx_hash_term(it, st, tx) for tx in txs]

    def mentions(tx, h):
        occ = [cid.fields[0].fields[0].fields[0] == h for cid in tx.fields[1].fields]
        occ += [z3.And(M.is_variant(o.fields[2], 'Custom'), o.fields[2].payloads['Custom'][0].fields[0].fields[0] == h)
                for o in tx.fields[2].fields]
        return z3.Or(occ) if occ else z3.BoolVal(False)
    # A-HASH (preimage resistance): no new transaction hashes to the one grandfathered mainnet faucet hash
    for h in hs:
        st.pc.append(h != z3.BitVecVal(GRANDFATHERED, 256))
    n = len(txs)
    if distinct_txs:
        for i in range(n):
            for j in range(i + 1, n):
                if txs[i] is not txs[j]:
                    G.declare_distinct(hs[i], hs[j])
    dep = [[mentions(txs[i], hs[j]) for j in range(n)] for i in range(n)]
    for i in range(n):
        st.pc.append(z3.Not(dep[i][i]))
        for j in range(i + 1, n):
            st.pc.append(z3.Not(z3.And(dep[i][j], dep[j][i])))
            for k in range(n):
                if k not in (i, j):
                    st.pc.append(z3.Not(z3.And(dep[i][j], dep[j][k], dep[k][i])))
                    st.pc.append(z3.Not(z3.And(dep[j][i], dep[i][k], dep[k][j])))
    # A-FRESH: no coin carrying the hash of a transaction of this batch exists yet (such a coin can only be created by
    # applying that very transaction, which -- by induction over the history -- cannot have happened while its inputs
    # are still unspent; faucets are protected by their dedup marker, see C19)
    old_single = it.base_single_hooks.get('coins')

    def single(itp, s2, key, dom, v, hs=hs, old=old_single):
        if old:
            old(itp, s2, key, dom, v)
        if dom == 'single:CoinID':
            for h in hs:
                s2.assume_fact(z3.Implies(key.arg(0) == h, z3.Not(v.data.present)))
    it.base_single_hooks['coins'] = single
    scell = st.alloc(state)
    bcell = st.alloc(Agg('array', txs))
    fn = it.by_last[entry][0]
    r = BatchRun()
    r.state0, r.sterms, r.txs, r.tterms, r.scell = state, sterms, txs, tterms, scell
    r.pc0 = list(st.pc)
    r.st0 = st.fork()
    if orders:
        # the same symbolic transactions presented in several orders, each from the same initial state
        r.order_outs = []
        for order in orders:
            s2 = st.fork()
            s2.heap[bcell] = Agg('array', [txs[i] for i in order])
            r.order_outs.append(it.exec_fn(s2, fn, [Ptr(scell), Ptr(bcell)]))
        r.outs = r.order_outs[0]
    else:
        r.outs = it.exec_fn(st, fn, [Ptr(scell), Ptr(bcell)])
    r.inputs = dict(('st_' + k, v) for k, v in sterms.items())
    for i, tt in enumerate(tterms):
        for k, v in tt.items():
            r.inputs['tx%s_%s' % ('abcdef'[i], k)] = v
    return r


def tx_hash_term(it, st, tx):
    """H(tx with sigs cleared): the term Transaction::hash_nosigs produces under the hash model"""
    f = list(tx.fields)
    f[6] = Agg('Vec', [])
    return M.hash_apply(st, 'single:Transaction', M.flatten(Agg('Transaction', f)))


def coin_key(st, txh, idx):
    return M.hash_apply(st, 'single:CoinID', [txh, idx])


def coin_lookup(it, st, tm, txh, idx):
    """(present, CoinDataHeight or None) at coin id (txh, idx) in tree model tm"""
    b = M.tree_get(it, st, tm, coin_key(st, txh, idx))
    if isinstance(b, Agg):
        return z3.BoolVal(False), None
    return b.data.present, b.data.value


MINFEE = z3.Function('abstract_min_fee', z3.BitVecSort(256), z3.BitVecSort(128), z3.BitVecSort(128))


def abstract_base_fee(it):
    """over-approximation for properties that do not depend on the fee arithmetic: Transaction::base_fee is an
    arbitrary function of (transaction, fee multiplier)  (C05 runs the real code)"""
    def f(itp, st, args, ctx):
        tx = args[0]
        while isinstance(tx, Ptr):
            tx = itp.load(st, tx)
        ident = M.hash_apply(st, 'txidentity', M.flatten(tx))
        return S.coinvalue(MINFEE(ident, args[1]))
    it.overrides = [o for o in it.overrides if o[0].pattern != r'Transaction::base_fee'] + [(re.compile(r'Transaction::base_fee'), f)]


def combine(it, sa, sb):
    """a state for comparing two outcomes of runs that started from the same initial state: the path conditions of
    both (facts about the shared initial state are global)"""
    sm = sa.fork()
    seen = set(id(c) for c in sm.pc)
    for c in sb.pc:
        if id(c) not in seen:
            sm.pc.append(c)
            seen.add(id(c))
    sm.models = []
    for k, v in sb.notes.items():
        if k not in sm.notes:
            sm.notes[k] = v
        elif isinstance(v, tuple) and isinstance(sm.notes[k], tuple):
            cur = list(sm.notes[k])
            for item in v:
                if not any(item is x or (isinstance(item, tuple) and isinstance(x, tuple) and hasattr(item[0], 'eq')
                                         and hasattr(x[0], 'eq') and item[0].eq(x[0])) for x in cur):
                    cur.append(item)
            sm.notes[k] = tuple(cur)
    return sm


def map_extensional_eq(ma, mb):
    from mirsym.collections import map_lookup
    keys = []
    for k, _, _ in ma.entries + mb.entries:
        keys.append(k)
    conj = []
    for k in keys:
        fa, va = map_lookup(ma, k)
        fb, vb = map_lookup(mb, k)
        c = [fa == fb]
        if va is not None and vb is not None:
            c.append(z3.Implies(fa, M.val_eq(va, vb)))
        elif va is None and vb is not None:
            c.append(z3.Not(fb))
        elif vb is None and va is not None:
            c.append(z3.Not(fa))
        conj.append(z3.And(c))
    return z3.And(conj) if conj else z3.BoolVal(True)


def states_equal_parts(it, sm, ua, ub):
    """observable equality of two UnsealedState values over the same initial trees, as separately dischargeable parts"""
    parts = [('scalars', M.val_eq(Agg('t', [ua.fields[i] for i in (0, 1, 5, 6, 7, 8)]),
                                  Agg('t', [ub.fields[i] for i in (0, 1, 5, 6, 7, 8)])))]
    for idx, nm in ((2, 'history'), (3, 'coins'), (9, 'pools')):
        ta, tb = ua.fields[idx].fields[0].data, ub.fields[idx].fields[0].data
        keys = []
        for k, _, _g in ta.entries + tb.entries:
            if not any(k.eq(k2) for k2 in keys):
                keys.append(k)
        for n, k in enumerate(keys):
            va, vb = M.tree_get(it, sm, ta, k), M.tree_get(it, sm, tb, k)
            parts.append(('%s[key%d]' % (nm, n), M.bytes_eq(va, vb)))
    parts.append(('transactions', map_extensional_eq(ua.fields[4].fields[0].data, ub.fields[4].fields[0].data)))
    parts.append(('stakes', map_extensional_eq(ua.fields[10].fields[0].data, ub.fields[10].fields[0].data)))
    return parts


def states_equal(it, sm, ua, ub):
    return z3.And([p for _, p in states_equal_parts(it, sm, ua, ub)])

"""C09 - validation is total: hostile input is rejected, never a crash or hang.

Panic-freedom of the apply and seal paths, decided kernel by kernel on the MIR (built with overflow checks on): every
`assert`, overflow check, `unwrap` / `expect` / index and every division in the encoded kernels is a forking point; the
panic side must be unreachable under the stated premise (no denomination's total supply exceeds 2^127).  Termination:
the kernels are loop-free apart from folds over the (bounded) batch; MelVM execution is bounded by the covenant's
weight (C11)."""
import re
import z3

from mirsym import shapes as S, models as M, bigmodels as BM, melmodels as MM
from mirsym.collections import MapM
from mirsym.interp import State, Agg, Ptr, Panic, Ret, UNINIT, UNIT, bv, Opaque, EnumV, Inconclusive, simp, G, val_eq
from mirsym import harness
from props import batch as B

MAXU = (1 << 128) - 1


def run(chk):
    it = chk.load()
    it = B.prepare(chk)
    S.check_layout(it.adts)
    chk.bounds = {'apply': 'apply_tx_batch on one transaction with 2 inputs / 2 outputs (quick) and on two transactions (thorough), all '
                           'kinds except DoscMint; the DoscMint path on one transaction with 1-2 outputs',
                  'fees': 'Transaction::base_fee / weight on (1 in, 1 out, 2 covenants)',
                  'seal': 'collect_proposer_action_fee; the three melmint settlement functions on 1-2 requests against an arbitrary '
                          'pool (reserves, liquidity in [1, 2^127]) or a new pool; the fee-multiplier step is C17',
                  'premise': 'P-SUPPLY: every total (per denomination, fee pool + tips, reserves) <= 2^127; outputs <= 2^120'}
    chk.assume_note('NOT covered: create_builtins (its PoolState::deposit on an empty pool is the C16 first-deposit lemma; process_pegging and '
                    'apply_tip_909 ARE run here, on states holding the built-in pools with non-zero reserves -- C16); panics inside '
                    'dependencies other than the one melpow indexing class below (novasmt, bincode, imbl are trusted); memory '
                    'exhaustion; wall-clock bounds')
    chk.assume_note('melpow::Proof::verify indexes `self.0[&Node::new_zero()]` before looking at anything else (melpow 0.1.2, '
                    'src/lib.rs): modelled as "verify panics unless the proof map holds the zero node", the zero node being an '
                    'uninterpreted predicate of the proof bytes')
    import os
    if os.environ.get('VERIF_ONLY') == 'callsite':  # development aid: one kernel alone (never a registered command)
        chk.guard(doscmint_callsite_kernel, chk, it)
        return
    chk.guard(apply_kernel, chk, it)
    chk.guard(doscmint_kernel, chk, it)
    chk.guard(doscmint_callsite_kernel, chk, it)
    chk.guard(fee_kernel, chk, it)
    chk.guard(seal_kernels, chk, it)


def apply_kernel(chk, it):
    B.abstract_base_fee(it)
    shapes = [[(2, 2, 1)]] if chk.tier == 'quick' else [[(2, 2, 1)], [(1, 1, 1), (1, 1, 1)]]
    for shape in shapes:
        tag = '+'.join('%d.%d' % (a, b) for a, b, c in shape)
        run_ = B.run_batch(chk, it, shape)
        n_ret = 0
        for k, (s, o) in enumerate(run_.outs):
            if isinstance(o, Panic):
                chk.obligation('PANIC/apply_tx_batch/%s/%d' % (tag, k), s.pc + B.supply_bound(s), z3.BoolVal(False), dict(run_.inputs),
                               replay=lambda mo, r=run_, s=s: replay_batch_panic(chk, r, s, mo), kind='PANIC',
                               describe='%s @ %s' % (o.msg, o.where), bound=tag)
            else:
                n_ret += 1
        if not n_ret:
            raise Inconclusive('apply_tx_batch has no returning path for %s' % tag)
        chk.sample({'kernel': 'apply_tx_batch', 'batch': tag, 'paths': len(run_.outs)})
    it.overrides = [o for o in it.overrides if o[0].pattern != r'Transaction::base_fee']


def replay_batch_panic(chk, run_, st, model):
    from props import scenario
    return scenario.replay_batch(chk, run_, st, model, scenario.panic_verdict)


def doscmint_kernel(chk, it):
    """validate_and_get_doscmint_speed with melpow's indexing panic made explicit"""
    from props import c18
    HAS_ZERO = z3.Function('melpow_proof_has_zero_node', z3.BitVecSort(256), z3.BoolSort())
    orig = MM._proof_verify

    def verify(itp, s_, a, c):
        from mirsym.summaries import deref, _panic_fork
        proof = deref(itp, s_, a[0])
        pid = proof.data[0]
        r = orig(itp, s_, a, c)
        d = a[2]
        d64 = d if d.size() == 64 else z3.ZeroExt(64 - d.size(), d)
        # difficulty > 100 is rejected before the map is touched
        return _panic_fork(itp, s_, z3.Or(z3.UGT(d64, 100), HAS_ZERO(pid)), r,
                           'melpow::Proof::verify: no entry found for key (the proof map lacks the zero node)', c)
    added = [(re.compile(r'Proof::verify::<'), verify)]
    it.overrides = added + list(it.overrides)
    added2 = c18._abstract_formulas(it)
    try:
        for nout in (1, 2):
            G.reset()
            G.atomic_domains = {'single:Transaction'}
            st = State()
            state, sterms = B.sym_state(st.pc)
            h = sterms['height']
            st.pc += [z3.UGE(h, 1), z3.ULE(h, 100_000_000)]

            def hist_hook(itp, s_, key, dom, v):
                if dom == 'single:BlockHeight':
                    k = key.arg(0)
                    G.add(v.data.present == z3.ULT(k, h))
                    G.add(z3.Implies(v.data.present, v.data.value.fields[2].fields[0] == k))
            it.base_read_hooks['history'] = hist_hook
            tx, tt = B.sym_tx('tx', 1, nout, 1, st.pc, kind='DoscMint')
            st.pc.append(z3.ULE(tt['fee'], 1 << 120))
            for i in range(nout):
                st.pc.append(z3.ULE(tt['out%d_value' % i], 1 << 120))
            cid = tx.fields[1].fields[0]
            holder = M.State_for_symvalue()
            cdh = S.sym_value('CoinDataHeight', 'coin', holder)
            st.pc.extend(holder.pc)
            st.pc.append(z3.ULE(cdh.fields[1].fields[0], h))
            rc = MapM().insert(cid, cdh)
            fn = it.by_last['validate_and_get_doscmint_speed'][0]
            outs = it.exec_fn(st, fn, [Ptr(st.alloc(state)), Ptr(st.alloc(Opaque('Map', rc))), Ptr(st.alloc(tx))])
            reads = G.memo.get('deser:(u32, Vec<u8>)', [])
            inputs = {'height': h}
            if reads:
                inputs['proof_len'] = reads[0][2].fields[1].data['len']
                inputs['difficulty'] = reads[0][2].fields[0]
                inputs['proof_has_zero_node'] = z3.If(HAS_ZERO(reads[0][2].fields[1].data['id']), bv(1, 8), bv(0, 8))
            n_ret = 0
            for idx, (s, o) in enumerate(outs):
                if isinstance(o, Panic):
                    chk.obligation('PANIC/validate_doscmint/%dout/%d' % (nout, idx), list(s.pc), z3.BoolVal(False), inputs,
                                   replay=lambda mo: replay_empty_proof(chk), kind='PANIC', describe=str(o),
                                   bound='one DoscMint transaction, arbitrary data bytes')
                else:
                    n_ret += 1
            if not n_ret:
                raise Inconclusive('validate_and_get_doscmint_speed has no returning path')
    finally:
        it.overrides = [o for o in it.overrides if o not in added and o not in added2]
        it.base_read_hooks.pop('history', None)


def doscmint_callsite_kernel(chk, it):
    """validate_and_get_doscmint_speed takes `tx.inputs.get(0).expect(..)`: the kernel above runs it on a transaction with an
    input, which is its caller's obligation.  apply_tx_batch_impl reaches it only after check_tx_validity accepted every
    transaction of the batch, so: check_tx_validity accepts no DoscMint transaction without inputs (0 inputs, 1-2 outputs, every
    field symbolic, arbitrary state)"""
    from mirsym.collections import MapM as _MapM
    for nout in (1, 2):
        G.reset()
        G.atomic_domains = {'single:Transaction'}
        st = State()
        state, sterms = B.sym_state(st.pc)
        B.install_history_invariant(it, sterms['height'])
        st.pc += [z3.UGE(sterms['height'], 1), z3.ULE(sterms['height'], 100_000_000)]
        tx, tt = B.sym_tx('tx', 0, nout, 1, st.pc, kind='DoscMint')
        st.pc.append(z3.ULE(tt['fee'], 1 << 120))
        for j in range(nout):
            st.pc.append(z3.ULE(tt['out%d_value' % j], 1 << 120))
        fn = it.by_last['check_tx_validity'][0]
        outs = it.exec_fn(st, fn, [Ptr(st.alloc(state)), Ptr(st.alloc(tx)), Ptr(st.alloc(Opaque('Map', _MapM()))),
                                   Ptr(st.alloc(Opaque('Map', _MapM())))])
        inputs = dict(('tx_' + k_, v_) for k_, v_ in tt.items())
        n_ret = 0
        for idx, (s, o) in enumerate(outs):
            name = 'check_tx_validity/0in%dout/%d' % (nout, idx)
            rp = lambda mo, inputs=inputs, nout=nout: replay_inputless_doscmint(chk, mo, inputs, nout)
            if isinstance(o, Panic):
                chk.obligation('PANIC/' + name, list(s.pc), z3.BoolVal(False), inputs, replay=rp, kind='PANIC', describe=str(o))
                continue
            n_ret += 1
            chk.obligation('PRE/a-doscmint-that-reaches-the-proof-check-has-an-input/' + name, list(s.pc), z3.Not(M.is_variant(o.v, 'Ok')),
                           inputs, replay=rp, bound='DoscMint transaction with no inputs and %d output(s), all fields symbolic' % nout)
        if not n_ret:
            raise Inconclusive('check_tx_validity has no returning path on an input-less transaction')
    it.base_read_hooks.pop('history', None)


def replay_inputless_doscmint(chk, model, inputs, nout):
    """a DoscMint transaction without inputs, outputs and fee as in the model (ERG outputs are exempt from the balance test):
    natively, does applying it panic or get accepted?"""
    ev = lambda k: harness.model_int(model, inputs[k])
    den = {0: 'MEL', 1: 'SYM', 2: 'ERG', 3: 'NEWCUSTOM'}
    outs = []
    for j in range(nout):
        tag = ev('tx_out%d_denom_tag' % j) if ('tx_out%d_denom_tag' % j) in inputs else 2
        d = den.get(tag, 'ERG')
        outs.append({'covhash': {'covhash_of': 'true'}, 'value': str(ev('tx_out%d_value' % j)), 'denom': d, 'adata': '%02x' % j})
    txs = [{'name': 'a', 'kind': 0x50, 'inputs': [], 'fee': str(ev('tx_fee')), 'covenants': ['true'], 'data': '', 'outputs': outs}]
    sc = {'kind': 'batch', 'network': 2, 'height': 5, 'fee_pool': '0', 'tips': '0', 'fee_multiplier': '0', 'dosc_speed': '1000000',
          'coins': [], 'txs': txs, 'probes': [], 'pools': []}
    out = harness.run_replay([sc], 'dev')[0]
    if 'error' in out or 'unrealizable' in out:
        raise Inconclusive('replay: %s' % str(out)[:300])
    run = out['runs'][0]
    bad = bool(run.get('panicked')) or run.get('result') == 'Ok'
    return bad, sc, {'panicked': run.get('panicked'), 'result': run.get('result'), 'msg': (run.get('msg') or '')[-200:]}


def replay_empty_proof(chk):
    """a DoscMint transaction whose data is (difficulty, empty proof): Proof::from_bytes accepts it, verify indexes the zero node"""
    req = {'kind': 'c09_empty_proof'}
    out = harness.run_replay([req], 'dev')[0]
    if 'error' in out:
        raise Inconclusive('replay: ' + out['error'])
    return bool(out.get('panicked')), req, out


def fee_kernel(chk, it):
    from props import c05
    c05.base_fee_kernel(chk, it, (1, 1, 2))


def seal_kernels(chk, it):
    from props import c05, c15
    c05.reward_kernel(chk, it)
    BM.CONFIG['symbolic_ops'] = True
    it.arith_feasibility = True
    # any pool a request can name: user-created pools can be drained completely or start from a one-sided deposit, so reserves
    # and liquidity range over [0, 2^127] here (the built-in pools keep theirs >= 1: C16)
    c15.WEAK_POOLS[0] = True
    try:
        for n in (1, 2):
            chk.guard(c15.swap_settlement, chk, it, n, mode='panic')
            chk.guard(c15.withdraw_settlement, chk, it, n, mode='panic')
        chk.guard(c15.deposit_settlement, chk, it, 1, mode='panic')
    finally:
        c15.WEAK_POOLS[0] = False
    try:
        chk.guard(pegging_kernel, chk, it)
        # the TIP-909 subsidy step of seal: its two swap_many calls on the built-in pools and the fee-pool addition
        from props import c01
        chk.guard(c01.subsidy_kernel, chk, it, mode='panic')
    finally:
        BM.CONFIG['symbolic_ops'] = False
        it.arith_feasibility = False
    # the request parser runs on the data of EVERY transaction of the block at seal time: it must not panic on any byte string
    from props import c15_poolkey
    chk.guard(c15_poolkey.poolkey_kernel, chk, it)


def pegging_kernel(chk, it):
    """process_pegging from an arbitrary state holding the three built-in pools (reserves in [1, 2^126]): the big-rational price
    arithmetic, the two square roots, their conversions to u128 and the two one-sided swap_many calls never panic"""
    from props import c15, c01
    from mirsym.summaries import deref
    G.reset()
    st = State()
    state, sterms = c01._pool_state_setup(it, st, None)
    pools0 = state.fields[9].fields[0].data
    keys = [c01._poolkey('Mel', 'Sym'), c01._poolkey('Erg', 'Mel'), c01._poolkey('Erg', 'Sym')]
    ents = [c15.pool_entry(it, st, pools0, k) for k in keys]
    st.pc += [e.data.present for e in ents]  # create_builtins ran first (and TIP-902 created ERG/SYM where pegging reads it)
    for e in ents:
        for i in (0, 1):
            st.pc.append(z3.ULE(e.data.value.fields[i], 1 << 126))

    def val_iter(itp, s_, a, c):
        sm = deref(itp, s_, a[0])
        return Opaque('TreeValIter', (sm.fields[0].data,))

    def count(itp, s_, a, c):
        v = deref(itp, s_, a[0]) if isinstance(a[0], Ptr) else a[0]
        if not (isinstance(v, Opaque) and v.kind == 'TreeValIter'):
            return NotImplemented
        n = z3.BitVec('pool_count_%d' % len(G.facts), 64)
        pres = [c15.pool_entry(itp, s_, v.data[0], k).data.present for k in keys[:2]]
        G.add(z3.Implies(z3.And(pres), z3.UGE(n, 2)))  # two different keys present => at least two entries
        return n
    added = c15.install_pool_contracts(it) + [(re.compile(r'PoolKey::new$'), c01.poolkey_new_override),
                                              (re.compile(r'val_iter$'), val_iter), (re.compile(r' as Iterator>::count$'), count)]
    it.overrides = added[-3:] + list(it.overrides)
    fn = it.by_last['process_pegging'][0]
    try:
        outs = it.exec_fn(st, fn, [state])
    finally:
        it.overrides = [o for o in it.overrides if o not in added]
        it.base_read_hooks.pop('pools', None)
    inputs = {'height': sterms['height'], 'network': sterms['network']}
    for nm, e in zip(('mel_sym', 'erg_mel', 'erg_sym'), ents):
        inputs[nm + '_lefts'] = e.data.value.fields[0]
        inputs[nm + '_rights'] = e.data.value.fields[1]
    n_ret = 0
    for idx, (s, o) in enumerate(outs):
        if isinstance(o, Panic):
            chk.obligation('PANIC/process_pegging/%d' % idx, list(s.pc), z3.BoolVal(False), inputs, replay=lambda mo: replay_pegging(chk, mo, inputs),
                           kind='PANIC', describe=str(o), bound='built-in pools present, reserves in [1, 2^126], height <= 10^8', arith='int')
        else:
            n_ret += 1
    if not n_ret:
        raise Inconclusive('process_pegging has no returning path')


def replay_pegging(chk, model, inputs):
    """the pegging phase alone on a Custom02 chain whose three built-in pools hold the model's reserves -- and, because the
    witnesses of an overflow in this arithmetic sit at the far corners (products beyond 2^256) where the solver's candidates
    rarely land, on a fixed list of extreme reserve combinations as well.  Whatever panics natively is a violation."""
    ev = lambda t: harness.model_int(model, t)
    B126 = 1 << 126
    combos = [tuple(max(ev(inputs[k]), 1) for k in ('mel_sym_lefts', 'mel_sym_rights', 'erg_mel_lefts', 'erg_mel_rights', 'erg_sym_lefts', 'erg_sym_rights'))]
    combos += [(B126, B126, 10 ** 9, 10 ** 9, 1, B126), (B126, B126, 10 ** 9, 10 ** 9, B126, 1), (B126, B126, 1, B126, 10 ** 9, 10 ** 9),
               (B126, B126, B126, 1, 10 ** 9, 10 ** 9), (1, 1, 10 ** 9, 10 ** 9, 1, B126), (B126, 1, 10 ** 9, 10 ** 9, B126, 1)]
    last = None
    for (a, b, c, d, e, f) in combos:
        for net, height in ((2, min(max(ev(inputs['height']), 1), 2_000_000)), (0xff, 100)):
            pools = [{'left': 'MEL', 'right': 'SYM', 'lefts': str(a), 'rights': str(b), 'liqs': '1000000000'},
                     {'left': 'ERG', 'right': 'MEL', 'lefts': str(c), 'rights': str(d), 'liqs': '1000000000'},
                     {'left': 'ERG', 'right': 'SYM', 'lefts': str(e), 'rights': str(f), 'liqs': '1000000000'}]
            sc = {'kind': 'batch', 'network': net, 'height': height, 'fee_pool': '0', 'tips': '0', 'fee_multiplier': '0',
                  'dosc_speed': '1000000', 'coins': [], 'txs': [], 'probes': [], 'pools': pools, 'melmint_only': 'pegging'}
            out = harness.run_replay([sc], 'dev')[0]
            if 'error' in out or 'unrealizable' in out:
                raise Inconclusive('replay: %s' % out)
            mm = out['runs'][0].get('melmint', {})
            last = (sc, {'panicked': mm.get('panicked'), 'msg': (mm.get('msg') or '')[-200:]})
            if mm.get('panicked'):
                return True, last[0], last[1]
    return False, last[0], last[1]
